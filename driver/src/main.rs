// cfacts — rustc_private fact extractor for the constriction verification framework.
//
// Invoked as RUSTC_WORKSPACE_WRAPPER: argv = [cfacts, <real rustc>, rustc args...].
// For crates named in $CFACTS_CRATES (default: "constriction") it dumps, after analysis,
// one JSON file per compiler process into $CFACTS_OUT: every MIR body (generic,
// un-monomorphised, -Zmir-opt-level=0) with structured statements / terminators and
// resolved callees, plus the ADT / impl / trait tables. No library code is executed.

#![feature(rustc_private)]
#![allow(clippy::all)]

extern crate rustc_abi;
extern crate rustc_driver;
extern crate rustc_hir;
extern crate rustc_interface;
extern crate rustc_middle;
extern crate rustc_span;

use rustc_driver::Compilation;
use rustc_hir::def::DefKind;
use rustc_hir::def_id::{DefId, LocalDefId, LOCAL_CRATE};
use rustc_middle::mir::{
    self, AggregateKind, BasicBlock, Body, Const, ConstValue, Operand, Place, ProjectionElem,
    Rvalue, StatementKind, TerminatorKind, UnwindAction,
};
use rustc_middle::ty::{self, Instance, Ty, TyCtxt, TypingEnv};
use rustc_span::Span;
use std::collections::HashMap;
use std::fmt::Write as _;

// ---------------------------------------------------------------- tiny JSON
enum J {
    Null,
    B(bool),
    N(i128),
    S(String),
    A(Vec<J>),
    O(Vec<(&'static str, J)>),
}
fn s<T: Into<String>>(x: T) -> J {
    J::S(x.into())
}
impl J {
    fn write(&self, out: &mut String) {
        match self {
            J::Null => out.push_str("null"),
            J::B(b) => out.push_str(if *b { "true" } else { "false" }),
            J::N(n) => {
                let _ = write!(out, "{}", n);
            }
            J::S(st) => {
                out.push('"');
                for c in st.chars() {
                    match c {
                        '"' => out.push_str("\\\""),
                        '\\' => out.push_str("\\\\"),
                        '\n' => out.push_str("\\n"),
                        '\r' => out.push_str("\\r"),
                        '\t' => out.push_str("\\t"),
                        c if (c as u32) < 0x20 => {
                            let _ = write!(out, "\\u{:04x}", c as u32);
                        }
                        c => out.push(c),
                    }
                }
                out.push('"');
            }
            J::A(v) => {
                out.push('[');
                for (i, x) in v.iter().enumerate() {
                    if i > 0 {
                        out.push(',');
                    }
                    x.write(out);
                }
                out.push(']');
            }
            J::O(v) => {
                out.push('{');
                let mut first = true;
                for (k, x) in v.iter() {
                    if let J::Null = x {
                        continue;
                    }
                    if !first {
                        out.push(',');
                    }
                    first = false;
                    let _ = write!(out, "\"{}\":", k);
                    x.write(out);
                }
                out.push('}');
            }
        }
    }
}

// ---------------------------------------------------------------- extractor
struct Cx<'tcx> {
    tcx: TyCtxt<'tcx>,
    types: Vec<J>,
    type_ids: HashMap<String, usize>,
}

fn np<T>(f: impl FnOnce() -> T) -> T {
    rustc_middle::ty::print::with_no_trimmed_paths!(f())
}

impl<'tcx> Cx<'tcx> {
    fn path(&self, d: DefId) -> String {
        np(|| self.tcx.def_path_str(d))
    }

    fn loc(&self, sp: Span) -> J {
        let sm = self.tcx.sess.source_map();
        let exp = sp.from_expansion();
        let real = if exp { sp.source_callsite() } else { sp };
        let fmt = |x: Span| -> String {
            if x.is_dummy() {
                return "?".into();
            }
            let lo = sm.lookup_char_pos(x.lo());
            let hi = sm.lookup_char_pos(x.hi());
            let name = format!("{}", lo.file.name.prefer_local_unconditionally());
            format!("{}:{}:{}-{}:{}", name, lo.line, lo.col.0 + 1, hi.line, hi.col.0 + 1)
        };
        if exp {
            J::O(vec![("at", s(fmt(real))), ("exp", J::B(true)), ("inner", s(fmt(sp)))])
        } else {
            J::O(vec![("at", s(fmt(real)))])
        }
    }

    fn ty(&mut self, t: Ty<'tcx>) -> J {
        J::N(self.ty_id(t, 0) as i128)
    }

    fn ty_id(&mut self, t: Ty<'tcx>, depth: usize) -> usize {
        let key = np(|| format!("{}", t));
        if let Some(&i) = self.type_ids.get(&key) {
            return i;
        }
        let id = self.types.len();
        self.types.push(J::Null);
        self.type_ids.insert(key.clone(), id);
        let mut o: Vec<(&'static str, J)> = vec![("s", s(key))];
        let deep = depth < 6;
        match t.kind() {
            ty::Adt(def, args) => {
                o.push(("k", s("adt")));
                o.push(("adt", s(self.path(def.did()))));
                o.push(("local", J::B(def.did().is_local())));
                if deep {
                    let mut a = vec![];
                    for ga in args.iter() {
                        if let Some(t2) = ga.as_type() {
                            a.push(J::N(self.ty_id(t2, depth + 1) as i128));
                        } else {
                            a.push(s(np(|| format!("{}", ga))));
                        }
                    }
                    o.push(("args", J::A(a)));
                }
            }
            ty::Ref(_, inner, m) => {
                o.push(("k", s("ref")));
                o.push(("mut", J::B(m.is_mut())));
                if deep {
                    o.push(("inner", J::N(self.ty_id(*inner, depth + 1) as i128)));
                }
            }
            ty::RawPtr(inner, m) => {
                o.push(("k", s("rawptr")));
                o.push(("mut", J::B(m.is_mut())));
                if deep {
                    o.push(("inner", J::N(self.ty_id(*inner, depth + 1) as i128)));
                }
            }
            ty::Slice(inner) => {
                o.push(("k", s("slice")));
                if deep {
                    o.push(("inner", J::N(self.ty_id(*inner, depth + 1) as i128)));
                }
            }
            ty::Array(inner, n) => {
                o.push(("k", s("array")));
                o.push(("len", s(np(|| format!("{}", n)))));
                if deep {
                    o.push(("inner", J::N(self.ty_id(*inner, depth + 1) as i128)));
                }
            }
            ty::Tuple(ts) => {
                o.push(("k", s("tuple")));
                if deep {
                    let mut a = vec![];
                    for t2 in ts.iter() {
                        a.push(J::N(self.ty_id(t2, depth + 1) as i128));
                    }
                    o.push(("args", J::A(a)));
                }
            }
            ty::Param(p) => {
                o.push(("k", s("param")));
                o.push(("name", s(p.name.to_string())));
            }
            ty::Alias(..) => {
                o.push(("k", s("alias")));
            }
            ty::Closure(d, _) => {
                o.push(("k", s("closure")));
                o.push(("def", s(self.path(*d))));
            }
            ty::FnDef(d, _) => {
                o.push(("k", s("fndef")));
                o.push(("def", s(self.path(*d))));
            }
            ty::FnPtr(..) => o.push(("k", s("fnptr"))),
            ty::Bool => o.push(("k", s("bool"))),
            ty::Char => o.push(("k", s("char"))),
            ty::Int(_) => o.push(("k", s("int"))),
            ty::Uint(_) => o.push(("k", s("uint"))),
            ty::Float(_) => o.push(("k", s("float"))),
            ty::Never => o.push(("k", s("never"))),
            ty::Str => o.push(("k", s("str"))),
            ty::Dynamic(..) => o.push(("k", s("dyn"))),
            _ => o.push(("k", s("other"))),
        }
        self.types[id] = J::O(o);
        id
    }

    fn place(&mut self, body: &Body<'tcx>, p: Place<'tcx>) -> J {
        let tcx = self.tcx;
        let mut proj = vec![];
        for (base, elem) in p.as_ref().iter_projections() {
            let j = match elem {
                ProjectionElem::Deref => s("deref"),
                ProjectionElem::Field(f, fty) => {
                    let bty = base.ty(&body.local_decls, tcx);
                    let mut name = format!("{}", f.index());
                    let mut owner = J::Null;
                    match bty.ty.kind() {
                        ty::Adt(def, _) => {
                            let vi = bty.variant_index.unwrap_or(rustc_abi::FIRST_VARIANT);
                            if vi.index() < def.variants().len() {
                                let v = def.variant(vi);
                                if f.index() < v.fields.len() {
                                    name = v.fields[f].name.to_string();
                                }
                            }
                            owner = s(self.path(def.did()));
                        }
                        ty::Closure(d, _) => {
                            owner = s(self.path(*d));
                        }
                        _ => {}
                    }
                    J::O(vec![
                        ("f", J::N(f.index() as i128)),
                        ("n", s(name)),
                        ("of", owner),
                        ("ty", self.ty(fty)),
                    ])
                }
                ProjectionElem::Downcast(name, vi) => J::O(vec![
                    ("dc", J::N(vi.index() as i128)),
                    ("n", name.map(|x| s(x.to_string())).unwrap_or(J::Null)),
                ]),
                ProjectionElem::Index(l) => J::O(vec![("idx", J::N(l.index() as i128))]),
                ProjectionElem::ConstantIndex { offset, from_end, .. } => J::O(vec![
                    ("cidx", J::N(offset as i128)),
                    ("from_end", J::B(from_end)),
                ]),
                ProjectionElem::Subslice { from, to, from_end } => J::O(vec![
                    ("sub", J::A(vec![J::N(from as i128), J::N(to as i128)])),
                    ("from_end", J::B(from_end)),
                ]),
                ProjectionElem::OpaqueCast(_) => s("opaque"),
                ProjectionElem::UnwrapUnsafeBinder(_) => s("unwrap_binder"),
            };
            proj.push(j);
        }
        J::O(vec![("l", J::N(p.local.index() as i128)), ("p", J::A(proj))])
    }

    fn generic_args(&mut self, args: ty::GenericArgsRef<'tcx>) -> J {
        let mut a = vec![];
        for ga in args.iter() {
            if let Some(t) = ga.as_type() {
                a.push(J::O(vec![("ty", self.ty(t))]));
            } else if let Some(c) = ga.as_const() {
                a.push(J::O(vec![("const", s(np(|| format!("{}", c))))]));
            } else {
                a.push(J::O(vec![("lt", J::B(true))]));
            }
        }
        J::A(a)
    }

    fn fn_item(&mut self, owner: DefId, d: DefId, args: ty::GenericArgsRef<'tcx>) -> J {
        let tcx = self.tcx;
        let mut o: Vec<(&'static str, J)> = vec![];
        o.push(("def", s(self.path(d))));
        o.push(("name", tcx.opt_item_name(d).map(|x| s(x.to_string())).unwrap_or(J::Null)));
        o.push(("local", J::B(d.is_local())));
        o.push(("krate", s(tcx.crate_name(d.krate).to_string())));
        o.push(("args", self.generic_args(args)));
        let dk = tcx.def_kind(d);
        o.push(("dk", s(format!("{:?}", dk))));
        if matches!(dk, DefKind::Fn | DefKind::AssocFn) {
            let sig = tcx.fn_sig(d).skip_binder();
            o.push(("unsafe", J::B(sig.safety().is_unsafe())));
        }
        if matches!(dk, DefKind::AssocFn | DefKind::AssocConst { .. } | DefKind::AssocTy) {
            if let Some(t) = tcx.trait_of_assoc(d) {
                o.push(("trait", s(self.path(t))));
            }
            if let Some(i) = tcx.impl_of_assoc(d) {
                o.push(("impl", s(self.path(i))));
                let st = tcx.type_of(i).instantiate_identity().skip_norm_wip();
                o.push(("impl_self", self.ty(st)));
                if let Some(tr) = tcx.impl_opt_trait_ref(i) {
                    let tr = tr.instantiate_identity().skip_norm_wip();
                    o.push(("impl_trait", s(self.path(tr.def_id))));
                }
            }
        }
        if matches!(dk, DefKind::Fn | DefKind::AssocFn) {
            let env = TypingEnv::post_analysis(tcx, owner);
            // normalisation of the args can fail for still-generic code; try_resolve copes.
            let r = std::panic::catch_unwind(std::panic::AssertUnwindSafe(|| {
                Instance::try_resolve(tcx, env, d, args)
            }));
            if let Ok(Ok(Some(inst))) = r {
                let rd = inst.def_id();
                if rd != d {
                    let mut ro: Vec<(&'static str, J)> = vec![];
                    ro.push(("def", s(self.path(rd))));
                    ro.push(("local", J::B(rd.is_local())));
                    ro.push(("args", self.generic_args(inst.args)));
                    if let Some(i) = tcx.impl_of_assoc(rd) {
                        let st = tcx.type_of(i).instantiate_identity().skip_norm_wip();
                        ro.push(("impl_self", self.ty(st)));
                    }
                    o.push(("res", J::O(ro)));
                } else {
                    o.push(("res_same", J::B(true)));
                }
                let kind = match inst.def {
                    ty::InstanceKind::Item(_) => "item",
                    ty::InstanceKind::Intrinsic(_) => "intrinsic",
                    ty::InstanceKind::Virtual(..) => "virtual",
                    ty::InstanceKind::ClosureOnceShim { .. } => "closure_once",
                    ty::InstanceKind::FnPtrShim(..) => "fnptr_shim",
                    ty::InstanceKind::CloneShim(..) => "clone_shim",
                    ty::InstanceKind::DropGlue(..) => "drop_glue",
                    _ => "other",
                };
                o.push(("rk", s(kind)));
            }
        }
        J::O(o)
    }

    fn constant(&mut self, owner: DefId, c: &Const<'tcx>) -> J {
        let tcx = self.tcx;
        let cty = c.ty();
        let mut o: Vec<(&'static str, J)> = vec![("k", s("const"))];
        o.push(("ty", self.ty(cty)));
        o.push(("text", s(np(|| format!("{}", c)))));
        if let ty::FnDef(d, args) = cty.kind() {
            o.push(("ck", s("fn")));
            o.push(("fn", self.fn_item(owner, *d, args)));
            return J::O(o);
        }
        match c {
            Const::Val(v, _) => {
                o.push(("ck", s("val")));
                if matches!(cty.kind(), ty::Float(_)) {
                    o.push(("float", J::B(true)));
                } else if let ConstValue::Scalar(mir::interpret::Scalar::Int(i)) = v {
                    let size = i.size();
                    if size.bytes() > 0 {
                        let bits = i.to_bits(size);
                        let val: i128 = match cty.kind() {
                            ty::Int(_) => i.to_int(size),
                            _ => {
                                if bits > i128::MAX as u128 {
                                    -1
                                } else {
                                    bits as i128
                                }
                            }
                        };
                        if !(matches!(cty.kind(), ty::Uint(_)) && bits > i128::MAX as u128) {
                            o.push(("int", J::N(val)));
                        } else {
                            o.push(("uint_str", s(format!("{}", bits))));
                        }
                    }
                } else if let ConstValue::ZeroSized = v {
                    o.push(("zst", J::B(true)));
                }
            }
            Const::Unevaluated(uv, _) => {
                o.push(("ck", s("uneval")));
                o.push(("def", s(self.path(uv.def))));
                o.push(("args", self.generic_args(uv.args)));
                if let Some(p) = uv.promoted {
                    o.push(("promoted", J::N(p.index() as i128)));
                }
                let dk = tcx.def_kind(uv.def);
                o.push(("dk", s(format!("{:?}", dk))));
                if matches!(dk, DefKind::AssocConst { .. }) {
                    if let Some(t) = tcx.trait_of_assoc(uv.def) {
                        o.push(("trait", s(self.path(t))));
                    }
                }
            }
            Const::Ty(_, ct) => {
                o.push(("ck", s("tyconst")));
                match ct.kind() {
                    ty::ConstKind::Param(p) => {
                        o.push(("param", s(p.name.to_string())));
                    }
                    ty::ConstKind::Value(v) => {
                        if let Some(i) = v.try_to_leaf() {
                            let size = i.size();
                            if size.bytes() > 0 && size.bytes() <= 8 {
                                o.push(("int", J::N(i.to_bits(size) as i128)));
                            }
                        }
                    }
                    _ => {}
                }
            }
        }
        J::O(o)
    }

    fn operand(&mut self, owner: DefId, body: &Body<'tcx>, op: &Operand<'tcx>) -> J {
        match op {
            Operand::Copy(p) => J::O(vec![("k", s("copy")), ("place", self.place(body, *p))]),
            Operand::Move(p) => J::O(vec![("k", s("move")), ("place", self.place(body, *p))]),
            Operand::Constant(c) => self.constant(owner, &c.const_),
            #[allow(unreachable_patterns)]
            _ => J::O(vec![("k", s("other_operand")), ("text", s(format!("{:?}", op)))]),
        }
    }

    fn rvalue(&mut self, owner: DefId, body: &Body<'tcx>, rv: &Rvalue<'tcx>) -> J {
        let tcx = self.tcx;
        match rv {
            Rvalue::Use(op, ..) => J::O(vec![("k", s("use")), ("op", self.operand(owner, body, op))]),
            Rvalue::Repeat(op, n) => J::O(vec![
                ("k", s("repeat")),
                ("op", self.operand(owner, body, op)),
                ("n", s(np(|| format!("{}", n)))),
            ]),
            Rvalue::Ref(_, bk, p) => J::O(vec![
                ("k", s("ref")),
                ("mut", J::B(matches!(bk, mir::BorrowKind::Mut { .. }))),
                ("bk", s(format!("{:?}", bk))),
                ("place", self.place(body, *p)),
            ]),
            Rvalue::RawPtr(k, p) => J::O(vec![
                ("k", s("rawptr")),
                ("mut", J::B(matches!(k, mir::RawPtrKind::Mut))),
                ("place", self.place(body, *p)),
            ]),
            Rvalue::Cast(ck, op, t) => J::O(vec![
                ("k", s("cast")),
                ("ck", s(format!("{:?}", ck))),
                ("op", self.operand(owner, body, op)),
                ("from", {
                    let ft = op.ty(&body.local_decls, tcx);
                    self.ty(ft)
                }),
                ("ty", self.ty(*t)),
            ]),
            Rvalue::BinaryOp(op, ops) => J::O(vec![
                ("k", s("bin")),
                ("op", s(format!("{:?}", op))),
                ("l", self.operand(owner, body, &ops.0)),
                ("r", self.operand(owner, body, &ops.1)),
            ]),
            Rvalue::UnaryOp(op, x) => J::O(vec![
                ("k", s("un")),
                ("op", s(format!("{:?}", op))),
                ("x", self.operand(owner, body, x)),
            ]),
            Rvalue::Discriminant(p) => {
                let pty = p.ty(&body.local_decls, tcx).ty;
                let mut variants = J::Null;
                if let ty::Adt(def, _) = pty.kind() {
                    if def.is_enum() {
                        let mut v = vec![];
                        for (vi, vd) in def.variants().iter_enumerated() {
                            let dv = def.discriminant_for_variant(tcx, vi).val;
                            v.push(J::A(vec![
                                J::N(if dv > i128::MAX as u128 { -1 } else { dv as i128 }),
                                s(vd.name.to_string()),
                            ]));
                        }
                        variants = J::A(v);
                    }
                }
                J::O(vec![
                    ("k", s("discr")),
                    ("place", self.place(body, *p)),
                    ("of", self.ty(pty)),
                    ("variants", variants),
                ])
            }
            Rvalue::Aggregate(kind, fields) => {
                let mut o: Vec<(&'static str, J)> = vec![("k", s("agg"))];
                match &**kind {
                    AggregateKind::Array(_) => o.push(("ak", s("array"))),
                    AggregateKind::Tuple => o.push(("ak", s("tuple"))),
                    AggregateKind::Adt(d, vi, args, _, _) => {
                        o.push(("ak", s("adt")));
                        o.push(("adt", s(self.path(*d))));
                        o.push(("local", J::B(d.is_local())));
                        let def = tcx.adt_def(*d);
                        let v = def.variant(*vi);
                        o.push(("variant", J::N(vi.index() as i128)));
                        o.push(("vname", s(v.name.to_string())));
                        o.push((
                            "fnames",
                            J::A(v.fields.iter().map(|f| s(f.name.to_string())).collect()),
                        ));
                        o.push(("gargs", self.generic_args(args)));
                    }
                    AggregateKind::Closure(d, _) => {
                        o.push(("ak", s("closure")));
                        o.push(("def", s(self.path(*d))));
                    }
                    AggregateKind::RawPtr(..) => o.push(("ak", s("rawptr"))),
                    _ => o.push(("ak", s("other"))),
                }
                let mut fs = vec![];
                for f in fields.iter() {
                    fs.push(self.operand(owner, body, f));
                }
                o.push(("fields", J::A(fs)));
                J::O(o)
            }
            Rvalue::CopyForDeref(p) => {
                J::O(vec![("k", s("use")), ("op", J::O(vec![("k", s("copy")), ("place", self.place(body, *p))])), ("cfd", J::B(true))])
            }
            Rvalue::ThreadLocalRef(d) => J::O(vec![("k", s("tls")), ("def", s(self.path(*d)))]),
            _ => J::O(vec![("k", s("other")), ("text", s(format!("{:?}", rv)))]),
        }
    }

    fn bb(b: BasicBlock) -> J {
        J::N(b.index() as i128)
    }
    fn unwind(u: &UnwindAction) -> J {
        match u {
            UnwindAction::Cleanup(b) => Self::bb(*b),
            _ => J::Null,
        }
    }

    fn body(&mut self, def: DefId, body: &Body<'tcx>, promoted: Option<usize>) -> J {
        let tcx = self.tcx;
        let mut o: Vec<(&'static str, J)> = vec![];
        let dk = tcx.def_kind(def);
        o.push(("def", s(self.path(def))));
        if let Some(p) = promoted {
            o.push(("promoted", J::N(p as i128)));
        }
        o.push(("dk", s(format!("{:?}", dk))));
        o.push(("name", tcx.opt_item_name(def).map(|x| s(x.to_string())).unwrap_or(J::Null)));
        o.push(("span", self.loc(tcx.def_span(def))));
        let root = tcx.typeck_root_def_id(def);
        if root != def {
            o.push(("root", s(self.path(root))));
        }
        if matches!(dk, DefKind::Fn | DefKind::AssocFn) {
            let sig = tcx.fn_sig(def).skip_binder();
            o.push(("unsafe", J::B(sig.safety().is_unsafe())));
            let vis = tcx.visibility(def);
            o.push(("vis", s(match vis {
                ty::Visibility::Public => "pub".to_string(),
                ty::Visibility::Restricted(m) => format!("in:{}", self.path(m)),
            })));
            o.push(("sig", s(np(|| format!("{}", sig.skip_binder())))));
            let out = sig.skip_binder().output();
            o.push(("ret", self.ty(out)));
        }
        if matches!(dk, DefKind::AssocFn | DefKind::AssocConst { .. }) {
            if let Some(t) = tcx.trait_of_assoc(def) {
                o.push(("trait", s(self.path(t))));
            }
            if let Some(i) = tcx.impl_of_assoc(def) {
                o.push(("impl", s(self.path(i))));
                let st = tcx.type_of(i).instantiate_identity().skip_norm_wip();
                o.push(("impl_self", self.ty(st)));
                if let Some(tr) = tcx.impl_opt_trait_ref(i) {
                    let tr = tr.instantiate_identity().skip_norm_wip();
                    o.push(("impl_trait", s(self.path(tr.def_id))));
                    o.push(("impl_trait_ref", s(np(|| format!("{}", tr)))));
                }
                o.push(("derived", J::B(tcx.is_automatically_derived(i))));
            }
        }
        o.push(("arg_count", J::N(body.arg_count as i128)));
        let mut locals = vec![];
        for (_l, d) in body.local_decls.iter_enumerated() {
            locals.push(J::O(vec![
                ("ty", self.ty(d.ty)),
                ("mut", J::B(d.mutability.is_mut())),
            ]));
        }
        o.push(("locals", J::A(locals)));
        let mut dbg = vec![];
        for v in body.var_debug_info.iter() {
            let val = match &v.value {
                mir::VarDebugInfoContents::Place(p) => self.place(body, *p),
                mir::VarDebugInfoContents::Const(c) => self.constant(def, &c.const_),
            };
            dbg.push(J::O(vec![
                ("name", s(v.name.to_string())),
                ("v", val),
                ("arg", v.argument_index.map(|i| J::N(i as i128)).unwrap_or(J::Null)),
            ]));
        }
        o.push(("debug", J::A(dbg)));

        let mut blocks = vec![];
        for (_bb, data) in body.basic_blocks.iter_enumerated() {
            let mut stmts = vec![];
            for st in data.statements.iter() {
                let j = match &st.kind {
                    StatementKind::Assign(b) => {
                        let (p, rv) = &**b;
                        J::O(vec![
                            ("k", s("assign")),
                            ("place", self.place(body, *p)),
                            ("rv", self.rvalue(def, body, rv)),
                            ("span", self.loc(st.source_info.span)),
                        ])
                    }
                    StatementKind::SetDiscriminant { place, variant_index } => J::O(vec![
                        ("k", s("setdiscr")),
                        ("place", self.place(body, **place)),
                        ("variant", J::N(variant_index.index() as i128)),
                        ("span", self.loc(st.source_info.span)),
                    ]),
                    StatementKind::Intrinsic(i) => J::O(vec![
                        ("k", s("intrinsic")),
                        ("text", s(format!("{:?}", i))),
                        ("span", self.loc(st.source_info.span)),
                    ]),
                    _ => continue,
                };
                stmts.push(j);
            }
            let term = data.terminator();
            let tspan = self.loc(term.source_info.span);
            let tj = match &term.kind {
                TerminatorKind::Goto { target } => J::O(vec![("k", s("goto")), ("t", Self::bb(*target))]),
                TerminatorKind::SwitchInt { discr, targets } => {
                    let mut ts = vec![];
                    for (v, b) in targets.iter() {
                        ts.push(J::A(vec![
                            if v > i128::MAX as u128 { s(format!("{}", v)) } else { J::N(v as i128) },
                            Self::bb(b),
                        ]));
                    }
                    J::O(vec![
                        ("k", s("switch")),
                        ("op", self.operand(def, body, discr)),
                        ("targets", J::A(ts)),
                        ("otherwise", Self::bb(targets.otherwise())),
                        ("span", tspan),
                    ])
                }
                TerminatorKind::Return => J::O(vec![("k", s("return")), ("span", tspan)]),
                TerminatorKind::Unreachable => J::O(vec![("k", s("unreachable")), ("span", tspan)]),
                TerminatorKind::UnwindResume => J::O(vec![("k", s("resume"))]),
                TerminatorKind::UnwindTerminate(_) => J::O(vec![("k", s("terminate"))]),
                TerminatorKind::Drop { place, target, unwind, .. } => J::O(vec![
                    ("k", s("drop")),
                    ("place", self.place(body, *place)),
                    ("pty", {
                        let t = place.ty(&body.local_decls, tcx).ty;
                        self.ty(t)
                    }),
                    ("t", Self::bb(*target)),
                    ("unwind", Self::unwind(unwind)),
                    ("span", tspan),
                ]),
                TerminatorKind::Call { func, args, destination, target, unwind, fn_span, .. } => {
                    let mut a = vec![];
                    for x in args.iter() {
                        a.push(self.operand(def, body, &x.node));
                    }
                    J::O(vec![
                        ("k", s("call")),
                        ("func", self.operand(def, body, func)),
                        ("args", J::A(a)),
                        ("dest", self.place(body, *destination)),
                        ("t", target.map(Self::bb).unwrap_or(J::Null)),
                        ("unwind", Self::unwind(unwind)),
                        ("span", tspan),
                        ("fn_span", self.loc(*fn_span)),
                    ])
                }
                TerminatorKind::TailCall { func, args, .. } => {
                    let mut a = vec![];
                    for x in args.iter() {
                        a.push(self.operand(def, body, &x.node));
                    }
                    J::O(vec![
                        ("k", s("tailcall")),
                        ("func", self.operand(def, body, func)),
                        ("args", J::A(a)),
                        ("span", tspan),
                    ])
                }
                TerminatorKind::Assert { cond, expected, msg, target, unwind } => {
                    let m = match &**msg {
                        mir::AssertKind::BoundsCheck { .. } => "BoundsCheck".to_string(),
                        mir::AssertKind::Overflow(op, ..) => format!("Overflow({:?})", op),
                        mir::AssertKind::OverflowNeg(_) => "OverflowNeg".to_string(),
                        mir::AssertKind::DivisionByZero(_) => "DivisionByZero".to_string(),
                        mir::AssertKind::RemainderByZero(_) => "RemainderByZero".to_string(),
                        other => {
                            let t = format!("{:?}", other);
                            t.split('(').next().unwrap_or("other").to_string()
                        }
                    };
                    J::O(vec![
                        ("k", s("assert")),
                        ("cond", self.operand(def, body, cond)),
                        ("expected", J::B(*expected)),
                        ("msg", s(m)),
                        ("t", Self::bb(*target)),
                        ("unwind", Self::unwind(unwind)),
                        ("span", tspan),
                    ])
                }
                TerminatorKind::FalseEdge { real_target, .. } => {
                    J::O(vec![("k", s("goto")), ("t", Self::bb(*real_target))])
                }
                TerminatorKind::FalseUnwind { real_target, .. } => {
                    J::O(vec![("k", s("goto")), ("t", Self::bb(*real_target))])
                }
                other => J::O(vec![("k", s("other")), ("text", s(format!("{:?}", other)))]),
            };
            blocks.push(J::O(vec![
                ("cleanup", J::B(data.is_cleanup)),
                ("stmts", J::A(stmts)),
                ("term", tj),
            ]));
        }
        o.push(("blocks", J::A(blocks)));
        J::O(o)
    }

    fn tables(&mut self) -> (J, J, J) {
        let tcx = self.tcx;
        let mut adts = vec![];
        let mut impls = vec![];
        let mut traits = vec![];
        let items = tcx.hir_crate_items(());
        let defs: Vec<LocalDefId> = items.definitions().collect();
        for ld in defs {
            let d = ld.to_def_id();
            match tcx.def_kind(d) {
                DefKind::Struct | DefKind::Enum | DefKind::Union => {
                    let def = tcx.adt_def(d);
                    let mut vs = vec![];
                    for v in def.variants().iter() {
                        let mut fs = vec![];
                        for f in v.fields.iter() {
                            let fty = tcx.type_of(f.did).instantiate_identity().skip_norm_wip();
                            fs.push(J::O(vec![
                                ("name", s(f.name.to_string())),
                                ("ty", self.ty(fty)),
                                ("vis", s(match f.vis {
                                    ty::Visibility::Public => "pub".to_string(),
                                    ty::Visibility::Restricted(m) => format!("in:{}", self.path(m)),
                                })),
                            ]));
                        }
                        vs.push(J::O(vec![("name", s(v.name.to_string())), ("fields", J::A(fs))]));
                    }
                    let vis = tcx.visibility(d);
                    adts.push(J::O(vec![
                        ("path", s(self.path(d))),
                        ("kind", s(format!("{:?}", tcx.def_kind(d)))),
                        ("vis", s(match vis {
                            ty::Visibility::Public => "pub".to_string(),
                            ty::Visibility::Restricted(m) => format!("in:{}", self.path(m)),
                        })),
                        ("variants", J::A(vs)),
                        ("span", self.loc(tcx.def_span(d))),
                    ]));
                }
                DefKind::Impl { of_trait } => {
                    let st = tcx.type_of(d).instantiate_identity().skip_norm_wip();
                    let mut o: Vec<(&'static str, J)> = vec![];
                    o.push(("path", s(self.path(d))));
                    o.push(("self", self.ty(st)));
                    o.push(("self_s", s(np(|| format!("{}", st)))));
                    if of_trait {
                        if let Some(tr) = tcx.impl_opt_trait_ref(d) {
                            let tr = tr.instantiate_identity().skip_norm_wip();
                            o.push(("trait", s(self.path(tr.def_id))));
                            o.push(("trait_ref", s(np(|| format!("{}", tr)))));
                            o.push(("trait_local", J::B(tr.def_id.is_local())));
                            let tdef = tcx.trait_def(tr.def_id);
                            o.push(("unsafe", J::B(tdef.safety.is_unsafe())));
                        }
                    }
                    o.push(("derived", J::B(tcx.is_automatically_derived(d))));
                    // where-clauses of the impl (as text): lets rules ask e.g. whether a type parameter is bound by `Unsigned`
                    let mut preds = vec![];
                    for (clause, _) in tcx.predicates_of(d).predicates.iter() {
                        preds.push(s(np(|| format!("{}", clause))));
                    }
                    o.push(("preds", J::A(preds)));
                    let mut its = vec![];
                    for it in tcx.associated_items(d).in_definition_order() {
                        its.push(J::O(vec![
                            ("name", s(it.opt_name().map(|n| n.to_string()).unwrap_or_else(|| "<rpitit>".to_string()))),
                            ("def", s(self.path(it.def_id))),
                            ("kind", s(format!("{:?}", tcx.def_kind(it.def_id)))),
                        ]));
                    }
                    o.push(("items", J::A(its)));
                    o.push(("span", self.loc(tcx.def_span(d))));
                    impls.push(J::O(o));
                }
                DefKind::Trait => {
                    let tdef = tcx.trait_def(d);
                    let mut its = vec![];
                    for it in tcx.associated_items(d).in_definition_order() {
                        its.push(J::O(vec![
                            ("name", s(it.opt_name().map(|n| n.to_string()).unwrap_or_else(|| "<rpitit>".to_string()))),
                            ("def", s(self.path(it.def_id))),
                            ("kind", s(format!("{:?}", tcx.def_kind(it.def_id)))),
                            ("default", J::B(it.defaultness(tcx).has_value())),
                        ]));
                    }
                    traits.push(J::O(vec![
                        ("path", s(self.path(d))),
                        ("unsafe", J::B(tdef.safety.is_unsafe())),
                        ("items", J::A(its)),
                        ("span", self.loc(tcx.def_span(d))),
                    ]));
                }
                _ => {}
            }
        }
        (J::A(adts), J::A(impls), J::A(traits))
    }
}

struct Cb;

impl rustc_driver::Callbacks for Cb {
    fn after_analysis<'tcx>(
        &mut self,
        _compiler: &rustc_interface::interface::Compiler,
        tcx: TyCtxt<'tcx>,
    ) -> Compilation {
        let name = tcx.crate_name(LOCAL_CRATE).to_string();
        let wanted = std::env::var("CFACTS_CRATES").unwrap_or_else(|_| "constriction".to_string());
        if !wanted.split(',').any(|w| w == name) {
            return Compilation::Continue;
        }
        let out_dir = match std::env::var("CFACTS_OUT") {
            Ok(d) => d,
            Err(_) => return Compilation::Continue,
        };
        let mut cx = Cx { tcx, types: vec![], type_ids: HashMap::new() };
        let mut bodies = vec![];
        let keys: Vec<LocalDefId> = tcx.mir_keys(()).iter().copied().collect();
        let mut n_calls = 0usize;
        for ld in keys {
            let d = ld.to_def_id();
            let dk = tcx.def_kind(d);
            let body: &Body<'tcx> = match dk {
                DefKind::Fn | DefKind::AssocFn | DefKind::Closure => {
                    if tcx.is_constructor(d) {
                        continue;
                    }
                    tcx.optimized_mir(d)
                }
                DefKind::AssocConst { .. } | DefKind::Const { .. } | DefKind::AnonConst | DefKind::InlineConst
                | DefKind::Static { .. } => tcx.mir_for_ctfe(d),
                _ => continue,
            };
            for b in body.basic_blocks.iter() {
                if let TerminatorKind::Call { .. } = b.terminator().kind {
                    n_calls += 1;
                }
            }
            bodies.push(cx.body(d, body, None));
            if matches!(dk, DefKind::Fn | DefKind::AssocFn | DefKind::Closure) {
                let proms = tcx.promoted_mir(d);
                for (pi, pb) in proms.iter_enumerated() {
                    bodies.push(cx.body(d, pb, Some(pi.index())));
                }
            }
        }
        let (adts, impls, traits) = cx.tables();
        let n_bodies = bodies.len();
        let is_test = tcx.sess.opts.test;
        let root = J::O(vec![
            ("crate", s(name.clone())),
            ("test_harness", J::B(is_test)),
            ("n_bodies", J::N(n_bodies as i128)),
            ("n_calls", J::N(n_calls as i128)),
            ("types", J::A(std::mem::take(&mut cx.types))),
            ("adts", adts),
            ("impls", impls),
            ("traits", traits),
            ("bodies", J::A(bodies)),
        ]);
        let mut out = String::with_capacity(1 << 24);
        root.write(&mut out);
        let file = format!(
            "{}/{}{}-{}.json",
            out_dir,
            name,
            if is_test { ".test" } else { "" },
            std::process::id()
        );
        std::fs::create_dir_all(&out_dir).ok();
        std::fs::write(&file, out).expect("cfacts: cannot write fact file");
        eprintln!("cfacts: wrote {} ({} bodies, {} calls)", file, n_bodies, n_calls);
        Compilation::Continue
    }
}

fn main() {
    let mut args: Vec<String> = std::env::args().collect();
    // RUSTC_WORKSPACE_WRAPPER passes the real rustc as argv[1]
    if args.len() > 1 && (args[1].ends_with("rustc") || args[1].contains("/rustc")) {
        args.remove(1);
    }
    let mut cb = Cb;
    rustc_driver::run_compiler(&args, &mut cb);
}
