#!/usr/bin/env python3
"""Generates src/lib.rs: one rustdoc `compile_fail,E....` witness plus a compiling twin per entry (R9).
The twin differs from the witness only in the offending line(s), so a witness whose path is merely wrong cannot pass."""
import os
HERE = os.path.dirname(os.path.abspath(__file__))

PRELUDE = """use constriction::stream::{Decode, Encode, model::*, stack::*, queue::*, chain::*};
use constriction::{Pos, Seek, UnwrapInfallible};
"""

# (name, properties, error code, what it witnesses, common setup, failing line(s), twin line(s))
W = [
    ('c01_state_two_words', ['C01'], 'E0080', 'AnsCoder needs State >= 2*Word',
     '', 'let _c = AnsCoder::<u32, u32>::new();', 'let _c = AnsCoder::<u32, u64>::new();'),
    ('c01_encode_state_two_words', ['C01'], 'E0080', 'encode_symbol re-asserts State >= 2*Word and PRECISION bounds',
     'let m = UniformModel::<u32, 24>::new(10);',
     'let mut c = AnsCoder::<u32, u32, Vec<u32>>::from_raw_parts(Vec::new(), 0); c.encode_symbol(3usize, m).unwrap();',
     'let mut c = AnsCoder::<u32, u64, Vec<u32>>::from_raw_parts(Vec::new(), 0); c.encode_symbol(3usize, m).unwrap();'),
    ('c01_probability_wider_than_word', ['C01', 'C19'], 'E0277', 'a model whose Probability is wider than the coder Word is rejected (bounds PRECISION by the word size)',
     'let m = UniformModel::<u32, 24>::new(10);',
     'let mut c = AnsCoder::<u16, u32>::new(); c.encode_symbol(3usize, m).unwrap();',
     'let mut c = AnsCoder::<u32, u64>::new(); c.encode_symbol(3usize, m).unwrap();'),
    ('c02_state_two_words', ['C02'], 'E0080', 'RangeEncoder needs State >= 2*Word',
     '', 'let _c = RangeEncoder::<u32, u32>::new();', 'let _c = RangeEncoder::<u32, u64>::new();'),
    ('c02_decoder_state_two_words', ['C02'], 'E0080', 'RangeDecoder needs State >= 2*Word',
     '', 'let _c = RangeDecoder::<u32, u32, _>::from_compressed(Vec::<u32>::new()).unwrap_infallible();',
     'let _c = RangeDecoder::<u32, u64, _>::from_compressed(Vec::<u32>::new()).unwrap_infallible();'),
    ('c08_ans_view_exclusive', ['C08'], 'E0499', 'the ANS coder cannot be used while a view of its compressed data is alive',
     'let m = UniformModel::<u32, 24>::new(10); let mut c = DefaultAnsCoder::new(); c.encode_symbol(3usize, m).unwrap();',
     'let view = c.get_compressed().unwrap(); c.encode_symbol(4usize, m).unwrap(); drop(view);',
     'let view = c.get_compressed().unwrap(); drop(view); c.encode_symbol(4usize, m).unwrap();'),
    ('c08_ans_binary_view_exclusive', ['C08'], 'E0499', 'the ANS coder cannot be used while a raw-binary view is alive',
     'let m = UniformModel::<u32, 24>::new(10); let mut c = DefaultAnsCoder::from_binary(vec![1u32, 2]).unwrap();',
     'let view = c.get_binary().unwrap(); let _ = c.decode_symbol(m); drop(view);',
     'let view = c.get_binary().unwrap(); drop(view); let _ = c.decode_symbol(m);'),
    ('c08_range_view_exclusive', ['C08'], 'E0499', 'the range encoder cannot be used while a view is alive',
     'let m = UniformModel::<u32, 24>::new(10); let mut c = DefaultRangeEncoder::new(); c.encode_symbol(3usize, m).unwrap();',
     'let view = c.get_compressed(); c.encode_symbol(4usize, m).unwrap(); drop(view);',
     'let view = c.get_compressed(); drop(view); c.encode_symbol(4usize, m).unwrap();'),
    ('c08_range_temp_decoder_exclusive', ['C08'], 'E0499', 'the range encoder cannot be used while its temporary decoder is alive',
     'let m = UniformModel::<u32, 24>::new(10); let mut c = DefaultRangeEncoder::new(); c.encode_symbol(3usize, m).unwrap();',
     'let mut d = c.decoder(); c.encode_symbol(4usize, m).unwrap(); let _ = d.decode_symbol(m);',
     'let mut d = c.decoder(); let _ = d.decode_symbol(m); drop(d); c.encode_symbol(4usize, m).unwrap();'),
    ('c08_bit_stack_view_exclusive', ['C08', 'C16'], 'E0499', 'the bit-level stack coder cannot be used while a view is alive',
     'use constriction::symbol::{DefaultStackCoder, WriteBitStream}; let mut c = DefaultStackCoder::new(); c.write_bit(true).unwrap();',
     'let view = c.get_compressed(); c.write_bit(false).unwrap(); drop(view);',
     'let view = c.get_compressed(); drop(view); c.write_bit(false).unwrap();'),
    ('c13_increase_must_not_decrease', ['C13'], 'E0080', 'increase_precision to a smaller precision does not build',
     'let c = ChainCoder::<u32, u64, Vec<u32>, Vec<u32>, 12>::from_binary(vec![1u32, 2, 3, 4]).unwrap();',
     'let _c = c.increase_precision::<8>();', 'let _c = c.increase_precision::<16>();'),
    ('c13_decrease_must_not_increase', ['C13'], 'E0080', 'decrease_precision to a larger precision does not build',
     'let c = ChainCoder::<u32, u64, Vec<u32>, Vec<u32>, 12>::from_binary(vec![1u32, 2, 3, 4]).unwrap();',
     'let _c = c.decrease_precision::<16>();', 'let _c = c.decrease_precision::<8>();'),
    ('c13_change_to_zero', ['C13'], 'E0080', 'change_precision::<0> does not build',
     'let c = ChainCoder::<u32, u64, Vec<u32>, Vec<u32>, 12>::from_binary(vec![1u32, 2, 3, 4]).unwrap();',
     'let _c = c.change_precision::<0>();', 'let _c = c.change_precision::<8>();'),
    ('c13_change_state_too_small', ['C13'], 'E0080', 'change_precision beyond what State supports does not build (State >= Word + NEW_PRECISION)',
     'let c = ChainCoder::<u32, u64, Vec<u32>, Vec<u32>, 12>::from_binary(vec![1u32, 2, 3, 4]).unwrap();',
     'let _c = c.change_precision::<33>();', 'let _c = c.change_precision::<32>();'),
    ('c19_quantizer_precision_zero', ['C19'], 'E0080', 'LeakyQuantizer with PRECISION == 0 does not build',
     '', 'let _q = LeakyQuantizer::<f64, i32, u32, 0>::new(-5..=5);', 'let _q = LeakyQuantizer::<f64, i32, u32, 1>::new(0..=1);'),
    ('c19_quantizer_precision_too_large', ['C19'], 'E0080', 'LeakyQuantizer with PRECISION > Probability::BITS does not build',
     '', 'let _q = LeakyQuantizer::<f64, i32, u32, 33>::new(-5..=5);', 'let _q = LeakyQuantizer::<f64, i32, u32, 32>::new(-5..=5);'),
    ('c19_uniform_precision_zero', ['C19'], 'E0080', 'UniformModel with PRECISION == 0 does not build',
     '', 'let _m = UniformModel::<u32, 0>::new(2);', 'let _m = UniformModel::<u32, 1>::new(2);'),
    ('c19_uniform_precision_too_large', ['C19'], 'E0080', 'UniformModel with PRECISION > Probability::BITS does not build',
     '', 'let _m = UniformModel::<u16, 17>::new(2);', 'let _m = UniformModel::<u16, 16>::new(2);'),
    ('c19_categorical_precision_zero', ['C19'], 'E0080', 'categorical model with PRECISION == 0 does not build',
     '', 'let _m = ContiguousCategoricalEntropyModel::<u32, Vec<u32>, 0>::from_floating_point_probabilities_fast(&[0.5f64, 0.5], None);',
     'let _m = ContiguousCategoricalEntropyModel::<u32, Vec<u32>, 1>::from_floating_point_probabilities_fast(&[0.5f64, 0.5], None);'),
    ('c19_categorical_precision_too_large', ['C19'], 'E0080', 'categorical model with PRECISION > Probability::BITS does not build',
     '', 'let _m = ContiguousCategoricalEntropyModel::<u16, Vec<u16>, 17>::from_floating_point_probabilities_fast(&[0.5f64, 0.5], None);',
     'let _m = ContiguousCategoricalEntropyModel::<u16, Vec<u16>, 16>::from_floating_point_probabilities_fast(&[0.5f64, 0.5], None);'),
    ('c19_fixed_point_precision_too_large', ['C19'], 'E0080', 'fixed-point table constructor with PRECISION > Probability::BITS does not build',
     '', 'let _m = ContiguousCategoricalEntropyModel::<u16, Vec<u16>, 17>::from_nonzero_fixed_point_probabilities([1u16, 2], true);',
     'let _m = ContiguousCategoricalEntropyModel::<u16, Vec<u16>, 16>::from_nonzero_fixed_point_probabilities([1u16, 2], true);'),
    ('c16_queue_encoder_cannot_read', ['C16'], 'E0599', 'a queue *encoder* has no read_bit: bits written to a queue can only be read back through a QueueDecoder (FIFO order is fixed by the types)',
     'use constriction::symbol::{DefaultQueueEncoder, DefaultStackCoder, ReadBitStream, WriteBitStream};',
     'let mut c = DefaultQueueEncoder::new(); c.write_bit(true).unwrap(); let _ = c.read_bit();',
     'let mut c = DefaultStackCoder::new(); c.write_bit(true).unwrap(); let _ = c.read_bit();'),
    ('c16_queue_decoder_cannot_write', ['C16'], 'E0599', 'a queue decoder cannot be written to',
     'use constriction::symbol::{DefaultQueueEncoder, ReadBitStream, WriteBitStream};',
     'let mut e = DefaultQueueEncoder::new(); e.write_bit(true).unwrap(); let mut d = e.into_decoder().unwrap_infallible(); let _ = d.write_bit(false);',
     'let mut e = DefaultQueueEncoder::new(); e.write_bit(true).unwrap(); let mut d = e.into_decoder().unwrap_infallible(); let _ = d.read_bit();'),
    ('c16_bit_queue_view_exclusive', ['C08', 'C16'], 'E0499', 'the bit-level queue encoder cannot be used while a view is alive',
     'use constriction::symbol::{DefaultQueueEncoder, WriteBitStream}; let mut c = DefaultQueueEncoder::new(); c.write_bit(true).unwrap();',
     'let view = c.get_compressed(); c.write_bit(false).unwrap(); drop(view);',
     'let view = c.get_compressed(); drop(view); c.write_bit(false).unwrap();'),
    ('c19_lazy_precision_too_large', ['C19'], 'E0080', 'lazy categorical model with PRECISION > Probability::BITS does not build',
     '', 'let _m = LazyContiguousCategoricalEntropyModel::<u16, f64, Vec<f64>, 17>::from_floating_point_probabilities_fast(vec![0.5f64, 0.5], None);',
     'let _m = LazyContiguousCategoricalEntropyModel::<u16, f64, Vec<f64>, 16>::from_floating_point_probabilities_fast(vec![0.5f64, 0.5], None);'),
]


# Const assertions (type-level arithmetic on the public presets).  `prop` must compile - it IS the property, evaluated by the
# compiler; `strong` (the same assertion, one notch stronger) must fail with E0080, which shows that the assertion is evaluated
# and tight; `ctrl` (trivially true) must compile, which separates "the property is violated" from "the harness no longer builds".
_SPARE_SETUP = '''use constriction::BitArray; use core::marker::PhantomData as PD; use num_traits::AsPrimitive;
const fn prec<M: EntropyModel<P>, const P: usize>(_: PD<M>) -> usize { P }
const fn qprec<F, S, Pr: BitArray, const P: usize>(_: PD<LeakyQuantizer<F, S, Pr, P>>) -> usize { P }
const fn ans<W: BitArray + Into<S>, S: BitArray + AsPrimitive<W>, B>(_: PD<AnsCoder<W, S, B>>) -> usize { S::BITS - W::BITS }
const fn renc<W: BitArray + Into<S>, S: BitArray + AsPrimitive<W>, B: constriction::backends::WriteWords<W>>(_: PD<RangeEncoder<W, S, B>>) -> usize { S::BITS - W::BITS }
const fn max(a: usize, b: usize) -> usize { if a > b { a } else { b } }
const fn min(a: usize, b: usize) -> usize { if a < b { a } else { b } }
const P_MAX: usize = max(max(max(prec(PD::<DefaultUniformModel>), qprec(PD::<DefaultLeakyQuantizer<f64, i32>>)), max(prec(PD::<DefaultContiguousCategoricalEntropyModel>), prec(PD::<DefaultLazyContiguousCategoricalEntropyModel>))), max(prec(PD::<DefaultNonContiguousCategoricalEncoderModel<i32>>), prec(PD::<DefaultNonContiguousCategoricalDecoderModel<i32>>)));
const SPARE: usize = min(ans(PD::<DefaultAnsCoder>), renc(PD::<DefaultRangeEncoder>)) - P_MAX;'''

_PRESET_SETUP = '''use constriction::BitArray; use core::marker::PhantomData as PD; use num_traits::AsPrimitive;
const fn ans<W: BitArray + Into<S>, S: BitArray + AsPrimitive<W>, B>(_: PD<AnsCoder<W, S, B>>) -> (usize, usize) { (W::BITS, S::BITS) }
const fn renc<W: BitArray + Into<S>, S: BitArray + AsPrimitive<W>, B: constriction::backends::WriteWords<W>>(_: PD<RangeEncoder<W, S, B>>) -> (usize, usize) { (W::BITS, S::BITS) }
const fn rdec<W: BitArray + Into<S>, S: BitArray + AsPrimitive<W>, B: constriction::backends::ReadWords<W, constriction::Queue>>(_: PD<RangeDecoder<W, S, B>>) -> (usize, usize) { (W::BITS, S::BITS) }
const fn chain<W: BitArray + Into<S>, S: BitArray + AsPrimitive<W>, C, R, const P: usize>(_: PD<ChainCoder<W, S, C, R, P>>) -> (usize, usize, usize) { (W::BITS, S::BITS, P) }
const fn eq2(a: (usize, usize), w: usize, s: usize) -> bool { a.0 == w && a.1 == s }
const DEFAULTS: bool = eq2(ans(PD::<DefaultAnsCoder>), 32, 64) && eq2(renc(PD::<DefaultRangeEncoder>), 32, 64) && eq2(rdec(PD::<DefaultRangeDecoder>), 32, 64) && { let c = chain(PD::<DefaultChainCoder>); c.0 == 32 && c.1 == 64 && c.2 == 24 };
const SMALL_W: bool = ans(PD::<SmallAnsCoder>).0 == 16 && renc(PD::<SmallRangeEncoder>).0 == 16 && rdec(PD::<SmallRangeDecoder<constriction::backends::Cursor<u16, Vec<u16>>>>).0 == 16 && chain(PD::<SmallChainCoder>).0 == 16 && chain(PD::<SmallChainCoder>).2 == 12;
const SMALL_S: usize = { let a = ans(PD::<SmallAnsCoder>).1; let b = renc(PD::<SmallRangeEncoder>).1; let c = rdec(PD::<SmallRangeDecoder<constriction::backends::Cursor<u16, Vec<u16>>>>).1; let d = chain(PD::<SmallChainCoder>).1; if a == b && b == c && c == d { a } else { 0 } };'''

A = [
    ('c06_preset_format_parameters', ['C06'], 'E0080',
     'the documented presets keep their format parameters: Default* coders are (Word, State) = (u32, u64), Small* coders (u16, u32), the chain coder presets use PRECISION 24 / 12 - a stream written with a preset is readable by the explicitly parameterised coder of the documentation and by other versions',
     _PRESET_SETUP, 'const _: () = assert!(DEFAULTS && SMALL_W && SMALL_S == 64);', 'const _: () = assert!(DEFAULTS && SMALL_W && SMALL_S == 32);', 'const _: () = assert!(SMALL_S <= 128);'),
    ('c12_default_presets_spare_bits', ['C12'], 'E0080',
     'with the default presets State::BITS - Word::BITS - PRECISION >= 8 for every default coder/model pair, i.e. the per-symbol term log2(1 + 2^-(S-W-P)) stays below 0.006 bit',
     _SPARE_SETUP, 'const _: () = assert!(SPARE >= 9);', 'const _: () = assert!(SPARE >= 8);', 'const _: () = assert!(SPARE + 1 >= 1);'),
]


def block(kind, code, setup, body):
    lines = ['/// ```%s' % kind]
    for l in PRELUDE.strip().split('\n'):
        lines.append('/// # ' + l)
    lines.append('/// # #[allow(unused)] fn main() {')
    for l in (setup or '').split('\n'):
        if l:
            lines.append('/// ' + l)
    lines.append('/// ' + body)
    lines.append('/// # }')
    lines.append('/// ```')
    return lines


def main():
    out = ['//! Generated by gen.py - do not edit. Compile-fail witnesses (R9) with compiling twins.',
           '#![allow(non_camel_case_types, dead_code)]', '']
    for name, props, code, what, setup, fail, twin in W:
        out.append('/// %s' % what)
        out += block('compile_fail,%s' % code, code, setup, fail)
        out.append('pub struct w_%s_fail;' % name)
        out.append('')
        out.append('/// twin of `w_%s_fail`: differs only in the offending line and must compile' % name)
        out += block('no_run', code, setup, twin)
        out.append('pub struct w_%s_twin;' % name)
        out.append('')
    for name, props, code, what, setup, strong, prop, ctrl in A:
        out.append('/// %s (one notch stronger: must not build)' % what)
        out += block('compile_fail,%s' % code, code, setup, strong)
        out.append('pub struct w_%s_fail;' % name)
        out.append('')
        out.append('/// the property itself as a const assertion: must build')
        out += block('no_run', code, setup, prop)
        out.append('pub struct w_%s_twin;' % name)
        out.append('')
        out.append('/// control: the same setup with a trivially true assertion must build')
        out += block('no_run', code, setup, ctrl)
        out.append('pub struct w_%s_ctrl;' % name)
        out.append('')
    with open(os.path.join(HERE, 'src', 'lib.rs'), 'w') as f:
        f.write('\n'.join(out) + '\n')


if __name__ == '__main__':
    main()
