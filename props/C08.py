"""C08 — inspecting a coder never changes what it will output (structural core).

  1. read-only inspectors take `&self`; no interior mutability in coder / backend / model structs  (R7)
  2. guard pairing: what a guard pushes on creation is exactly what it pops on drop, under aligned
     predicates, and neither side touches the coder state                                         (R5 + R1)
  3. view == final export: the guard constructor and `into_compressed` emit the same words       (R4)
  4. exclusivity witnesses (thorough tier, compile-fail)                                          (R9)
"""
from vlib import sym, rules, effects, anchors
from vlib.effects import Unresolved

ANS = 'stream::stack::AnsCoder'
RENC = 'stream::queue::RangeEncoder'
SYMC = 'symbol::SymbolCoder'

INSPECTORS = {
    ANS: ['iter_compressed', 'num_words', 'num_bits', 'num_valid_bits', 'is_empty', 'bulk', 'as_decoder',
          'as_seekable_decoder', 'state', 'pos', 'maybe_exhausted', 'maybe_full'],
    RENC: ['is_empty', 'maybe_full', 'num_words', 'num_bits', 'bulk', 'state', 'pos'],
    SYMC: ['len', 'is_empty'],
}
INTERIOR = ('Cell<', 'RefCell<', 'UnsafeCell<', 'Atomic', 'Mutex<', 'RwLock<', 'OnceCell<', 'OnceLock<', 'LazyCell<', 'LazyLock<')


def check_inspectors(ctx, F):
    n = 0
    for adt, names in INSPECTORS.items():
        for name in names:
            bs = [b for b in F.bodies if b.promoted is None and b.name == name and b.self_adt == adt and b.dk == 'AssocFn' and not b.derived]
            key = 'R7/inspector/%s::%s' % (adt, name)
            if not bs:
                ctx.bad('R7', 'inspector takes &self', adt + '::' + name, 'inspection method not found (public anchor missing)', key=key)
                continue
            for b in bs:
                n += 1
                ctx.touch(b)
                rk = b.receiver_kind()
                k2 = key if len(bs) == 1 else key + '@' + (b.impl_trait or 'inherent')
                unsafe_calls = [t for _, t in b.calls() if (rules.callee(t) or {}).get('unsafe')]
                if rk == '&self' and not unsafe_calls:
                    ctx.ok('R7', 'inspector takes &self', b.defpath, 'receiver %s, no unsafe call in body' % rk, key=k2)
                else:
                    ctx.bad('R7', 'inspector takes &self', b.defpath, 'receiver is `%s`%s: the query can mutate the coder' % (rk, ' and body calls unsafe code' if unsafe_calls else ''),
                            loc=rules.loc(b), key=k2)
    # clone is a complete field-wise copy
    for adt in (ANS, RENC):
        check_clone_complete(ctx, F, adt)
    # interior mutability scan
    bad = []
    n_fields = 0
    for path, a in F.adts.items():
        if path.startswith('pybindings'):
            continue
        for v in a['variants']:
            for f in v['fields']:
                n_fields += 1
                ts = F.ty_s(f['ty'])
                if any(x in ts for x in INTERIOR):
                    bad.append('%s.%s: %s' % (path, f['name'], ts))
    key = 'R7/interior-mutability'
    if bad:
        ctx.bad('R7', 'no interior mutability in library structs', 'crate', '; '.join(bad), key=key)
    else:
        ctx.ok('R7', 'no interior mutability in library structs', 'crate', '%d fields of %d ADTs scanned' % (n_fields, len(F.adts)), key=key)
    ctx.extra['inspectors'] = n


rules.callee = __import__('vlib.facts', fromlist=['callee']).callee


# ---------------------------------------------------------------- guard pairing

def is_call_on(e, callee_suffix, path):
    if e['kind'] != 'call' or not e['callee'].endswith(callee_suffix):
        return False
    a = e['args'][0] if e['args'] else None
    return a is not None and a[0] == 'ref' and a[1] == path


def get_body(F, frag_all, name=None):
    for b in F.bodies:
        if b.promoted is None and all(f in b.defpath for f in frag_all) and (name is None or b.name == name) and b.dk in ('Fn', 'AssocFn'):
            return b
    return None


def frame_violations(paths, base, allowed_fields):
    """Writes to fields of the coder (rooted at base) other than the allowed ones."""
    out = []
    n = len(base)
    for r in paths:
        for e in r.events:
            if e['kind'] == 'write' and e['path'][:n] == base and len(e['path']) > n:
                f = e['path'][n]
                if f[0] == 'f' and f[1] not in allowed_fields:
                    out.append('assignment to %s at %s' % (sym.path_str(e['path']), e['span'].split('-')[0]))
            if e['kind'] == 'call' and e.get('uid') is not None:
                for p in e['mut_paths']:
                    if p[:n] == base:
                        if len(p) == n:
                            out.append('call %s receives &mut to the whole coder at %s' % (e['callee'], e['span'].split('-')[0]))
                        elif p[n][0] == 'f' and p[n][1] not in allowed_fields:
                            out.append('call %s receives &mut %s at %s' % (e['callee'], sym.path_str(p), e['span'].split('-')[0]))
    return sorted(set(out))


def check_no_guard_dropped_in_ctor(ctx, F, guard_adt, new):
    """A guard value whose Drop undoes the constructor's effect must not be dropped *inside* the constructor (e.g. on an
    early `return Err(..)` after the value was built): its Drop would pop words that were never pushed."""
    if not guard_adt or new is None:
        return
    key = 'R5/no-guard-dropped-in-ctor/' + guard_adt
    role = 'the guard constructor never drops a guard value (its Drop would undo work that was not done)'
    ev, paths = rules.evaluate(new)
    hits = []
    for r in paths or []:
        for e in r.events:
            if e['kind'] == 'drop' and (e.get('ty') or '').split('<')[0] == guard_adt:
                hits.append((r, e))
    if hits:
        r, e = hits[0]
        ctx.bad('R5', role, new.defpath, 'a path of the constructor drops a %s (at %s, path ends in %s): the undo in Drop runs although the constructor did not (fully) apply its effect, so words that belong to the coder are removed' % (
            guard_adt.rsplit('::', 1)[-1], (e.get('span') or '?').split('-')[0], 'an error return' if r.end == 'return' and rules.ret_shape(r.ret)[0] == 'Err' else r.end), key=key, loc=rules.loc(new))
    else:
        ctx.ok('R5', role, new.defpath, 'no drop of a %s on any of %d paths' % (guard_adt.rsplit('::', 1)[-1], len(paths or [])), key=key)


_GROW_ONLY = {'extend_from_slice', 'extend', 'push', 'copy_from_slice', 'clone_from_slice', 'insert', 'index_mut', 'deref_mut', 'as_mut_slice', 'iter_mut', 'fill',
              'swap', 'as_mut', 'reserve', 'push_str', 'get_mut', 'split_at_mut', 'last_mut', 'first_mut', 'as_mut_ptr', 'borrow_mut', 'append'}


def _field_ops(F, r, root, depth):
    """(field, operation) for every mutation below `root` on path r: 'assign' for an assignment, the method name for a call that
    takes the field by `&mut`; crate-local helpers are opened `depth` level(s) with the parameter standing for the field."""
    n = len(root)
    for e in r.events:
        if e['kind'] == 'write' and e['path'][:n] == root:
            rest = e['path'][n:]
            if not rest:
                yield None, 'assign'
            elif rest[0][0] == 'f':
                yield rest[0][1], ('assign' if len(rest) == 1 else 'index_mut')
        if e['kind'] == 'call' and e.get('mut_paths'):
            for mp in e['mut_paths']:
                if mp[:n] != root:
                    continue
                rest = mp[n:]
                f = rest[0][1] if rest and rest[0][0] == 'f' else None
                if rest and rest[0][0] != 'f':
                    continue
                name = e['callee'].split('::')[-1]
                callee = F.by_def.get(e['callee'])
                if callee is not None and depth > 0 and callee.promoted is None:
                    # which parameter stands for the field?
                    idx = [i for i, a in enumerate(e['args']) if isinstance(a, tuple) and a and a[0] == 'ref' and tuple(a[1]) == tuple(mp)]
                    try:
                        _, cp = rules.evaluate(callee)
                    except Exception:
                        cp = None
                    if idx and cp:
                        sub = set()
                        for cr in cp:
                            if cr.end != 'return':
                                continue
                            for _, op in _field_ops_param(F, cr, (idx[0] + 1, 'deref')):
                                sub.add(op)
                        for op in sub or {name}:
                            yield f, op
                        continue
                yield f, name


def _field_ops_param(F, r, root):
    n = len(root)
    for e in r.events:
        if e['kind'] == 'write' and e['path'][:n] == root:
            yield None, ('assign' if len(e['path']) == n else 'index_mut')
        if e['kind'] == 'call' and e.get('mut_paths'):
            for mp in e['mut_paths']:
                if mp[:n] == root:
                    yield None, e['callee'].split('::')[-1]
    # mutations inside loops show up as havocked store entries only; a loop body cannot be enumerated here
    if any(e['kind'] == 'loop_enter' for e in r.events):
        yield None, 'loop'


def check_clone_complete(ctx, F, adt):
    """A clone (and a `clone_from`) of a coder copies *every* field.  The derived impl does; a hand-written one is accepted when
    `clone` builds the literal from clones / copies of the same-named fields and `clone_from`, if it is overridden, assigns or
    `clone_from`s every field (the point of such an override is to reuse a buffer - the small fields are the ones forgotten)."""
    cl = [b for b in F.bodies if b.promoted is None and b.name == 'clone' and b.self_adt == adt and b.impl_trait == 'core::clone::Clone']
    key = 'R7/clone-derived/%s' % adt
    role = 'Clone copies every field'
    if not cl:
        return ctx.bad('R7', role, adt, 'no Clone impl found', key=key)
    if all(b.derived for b in cl):
        return ctx.ok('R7', role, adt, '#[derive(Clone)]', key=key)
    fields = [f['name'] for f in F.adts[adt]['variants'][0]['fields']] if adt in F.adts else []
    b = cl[0]
    ctx.touch(b)
    ev, paths = rules.evaluate(b)
    bad = unk = None
    for r in paths or []:
        if r.end != 'return' or r.ret is None:
            continue
        t = r.ret
        if not (t[0] == 'agg' and t[3]):
            unk = 'clone() does not return a literal'
            continue
        vals = dict(zip(t[3], t[2]))
        for f in fields:
            v = vals.get(f)
            src = ('in', (1, 'deref', ('f', f)))
            core = v
            while isinstance(core, tuple) and core and core[0] == 'call' and str(core[1]).endswith(('Clone::clone', '::clone', 'ToOwned::to_owned')) and core[2]:
                core = core[2][0]
            if isinstance(core, tuple) and core and core[0] == 'agg' and 'PhantomData' in str(core[1]):
                continue
            if core != src:
                bad = 'clone() fills field `%s` with %s, not with a copy of the same field' % (f, sym.show(v)[:60] if v is not None else 'nothing')
    cf = [x for x in F.bodies if x.promoted is None and x.name == 'clone_from' and x.self_adt == adt and x.impl_trait == 'core::clone::Clone']
    for x in cf:
        ctx.touch(x)
        evx, px = rules.evaluate(x)
        for r in px or []:
            if r.end != 'return':
                continue
            ops = {}
            for f, op in _field_ops(F, r, (1, 'deref'), 1):
                if f is None:
                    for g in fields:
                        ops.setdefault(g, set()).add(op)
                else:
                    ops.setdefault(f, set()).add(op)
            for f in fields:
                if 'PhantomData' in F.ty_s(next(fl['ty'] for fl in F.adts[adt]['variants'][0]['fields'] if fl['name'] == f)):
                    continue
                o = ops.get(f, set())
                if not o:
                    bad = 'clone_from() leaves field `%s` as it was: after `a.clone_from(&b)` the coder is a mixture of the two (b\'s buffer with a\'s %s), so a snapshot refreshed this way exports and continues differently from its source' % (f, f)
                elif o & {'assign', 'clone_from'}:
                    continue
                elif o <= _GROW_ONLY:
                    bad = 'clone_from() only overwrites and appends to field `%s` (%s): nothing on the path can shorten it, so refreshing from a shorter source leaves the old tail behind' % (f, ', '.join(sorted(o)))
                else:
                    unk = 'clone_from() rebuilds field `%s` through %s, a form the rule does not read' % (f, ', '.join(sorted(o)))
    if bad:
        return ctx.bad('R7', role, b.defpath, bad, key=key, loc=rules.loc(b))
    if unk:
        return ctx.unresolved('R7', role, b.defpath, unk, key=key)
    ctx.ok('R7', role, b.defpath, 'hand-written: clone() copies %d field(s)%s' % (len(fields), ', clone_from() refreshes all of them' if cf else ''), key=key)


def check_ctor_error_exits_clean(ctx, F, guard_adt, new, coder_root=(1, 'deref')):
    """A guard constructor that refuses (front-end error, e.g. get_binary() on a coder that does not hold whole words) has
    no guard to undo its work: on such an exit the coder must be exactly as it was."""
    if not guard_adt or new is None:
        return
    key = 'R1/ctor-error-exit-clean/' + guard_adt
    role = 'a refusing guard constructor leaves the coder untouched'
    ev, paths = rules.evaluate(new)
    n = 0
    for r in paths or []:
        if r.end != 'return' or r.ret is None or rules.ret_shape(r.ret)[0] != 'Err':
            continue
        if r.ret[0] == 'err_of' or sym.contains(r.ret, lambda x: isinstance(x, tuple) and x and x[0] == 'payload' and x[2] == 'Err' and sym.contains(x[1], lambda y: isinstance(y, tuple) and y and y[0] == 'call' and str(y[1]).endswith('WriteWords::write'))):
            continue          # a backend write error is passed on (by `?` or by hand): decided by the compensation rule for the ANS guard, outside the quantifier for the others
        n += 1
        dirty = [e for e in r.events if (e['kind'] == 'write' and e['path'][:len(coder_root)] == coder_root)
                 or (e['kind'] == 'call' and e.get('uid') is not None and any(p[:len(coder_root)] == coder_root for p in e['mut_paths']))]
        # a loop on the way to the exit may have written through the coder: its effect shows as a havocked final store
        st_fields = set()
        for path, v in r.store.items():
            if path[:len(coder_root)] == coder_root and v != ('in', path):
                st_fields.add(sym.path_str(path))
        if dirty or st_fields:
            what = ([_what(e) for e in dirty] + sorted(st_fields))[0] if (dirty or st_fields) else '?'
            return ctx.bad('R1', role, new.defpath, 'an exit that returns a front-end error is reached after the coder was modified (%s): no guard exists on that path, so nothing undoes it and the words stay in the buffer' % what, key=key, loc=rules.loc(new))
    if n:
        ctx.ok('R1', role, new.defpath, '%d refusing exit(s), none preceded by a write through the coder' % n, key=key)


def _what(e):
    return ('write to ' + sym.path_str(e['path'])) if e['kind'] == 'write' else ('call ' + e['callee'].rsplit('::', 1)[-1])


def check_failed_write_compensated(ctx, F, guard_adt, new):
    """The ANS guard appends the words of the state one by one.  When one of those writes is refused (bounded or failing
    backend) no guard exists yet, so nothing would undo the words that did get through: the constructor itself has to take
    them back, or a failed inspection leaves the coder longer than it was and everything encoded so far decodes to garbage.
    Template decided here: a counter starts at 0 and is incremented once per successful write; on the exit taken by a refused
    write a loop over `0..counter` pops one word per iteration and nothing else touches the coder."""
    if not guard_adt or new is None:
        return
    key = 'R5/failed-write-compensated/' + guard_adt
    role = 'a refused write in the guard constructor takes back the words already appended'
    ev, paths = rules.evaluate(new)
    if paths is None:
        return ctx.unresolved('R5', role, new.defpath, 'too many paths', key=key)
    BULK = (1, 'deref', ('f', 'bulk'))
    is_write = lambda e: is_call_on(e, 'WriteWords::write', BULK)
    is_read = lambda e: e['kind'] == 'call' and e['callee'].endswith('ReadWords::read') and any(p[:len(BULK)] == BULK for p in e['mut_paths'])
    # does a write happen inside a loop at all?  (otherwise at most one word is appended and nothing can be left behind... unless several straight-line writes)
    write_heads = set()
    for r in paths:
        if r.end == 'backedge':
            les = [(i, e) for i, e in enumerate(r.events) if e['kind'] == 'loop_enter']
            if les and any(is_write(e) for e in r.events[les[-1][0]:]):
                write_heads.add(les[-1][1]['head'])
    if not write_heads:
        return ctx.unresolved('R5', role, new.defpath, 'the constructor does not append words in a loop', key=key)
    verdict = None
    n_exits = 0
    for r in paths:
        if r.end != 'return' or r.ret is None or rules.ret_shape(r.ret)[0] != 'Err':
            continue
        failed = [i for i, e in enumerate(r.events) if e['kind'] == 'branch' and e['term'][0] == 'discr' and sym.contains(e['term'], lambda y: isinstance(y, tuple) and y and y[0] == 'call' and str(y[1]).endswith('WriteWords::write'))
                  and sym.discr_variant(e['term'], e['value']) in ('Err', 'Break')]
        if not failed:
            continue
        n_exits += 1
        after = r.events[failed[-1] + 1:]
        pop_loops = [e for e in after if e['kind'] == 'loop_enter']
        if not pop_loops and not any(is_read(e) for e in after):
            verdict = ('bad', 'when a write is refused the constructor returns at once: the words appended by the earlier iterations stay in the buffer (no guard exists on this exit), so a failed get_compressed()/get_binary() on a bounded backend leaves the coder longer than it was and corrupts what was encoded')
            continue
        if len(pop_loops) != 1:
            verdict = verdict or ('unresolved', 'the exit after a refused write has %d loops' % len(pop_loops))
            continue
        le = pop_loops[0]
        trip = None
        for pth, v in le['pre'].items():
            if v[0] == 'call' and 'into_iter' in v[1]:
                try:
                    trip = effects.IterModel(r).length(v)
                except Exception:
                    trip = None
        # the trip count must be a counter of the write loop: pre-loop 0, +1 on every iteration that wrote successfully
        if trip is not None:
            a = sym.affine(trip)
            if a is not None and a[1] == 0 and len(a[0]) == 1 and list(a[0].values())[0][0] == 1:
                trip = list(a[0].values())[0][1]          # `n - 0` is n
        ctr = trip if (isinstance(trip, tuple) and trip and trip[0] == 'loop' and trip[1] in write_heads) else None
        if ctr is None and trip is not None:
            a2 = sym.affine(trip)
            if a2 is not None and len(a2[0]) == 1 and list(a2[0].values())[0][0] == 1 and a2[1] != 0:
                base_t = list(a2[0].values())[0][1]
                if sym.show(base_t).endswith('.0') and sym.contains(base_t, lambda x: isinstance(x, tuple) and x and x[0] == 'call' and str(x[1]).endswith('Iterator::next')):
                    verdict = ('bad', 'after a refused write the constructor pops index %+d words, where index is the number of words written before the refused one: it takes back %s than it appended, so a failed view removes a genuine word of the compressed data (or leaves one behind)' % (a2[1], 'more' if a2[1] > 0 else 'fewer'))
                    continue
        if ctr is None and isinstance(trip, tuple) and trip and trip[0] in ('proj', 'payload') and sym.contains(trip, lambda x: isinstance(x, tuple) and x and x[0] == 'call' and str(x[1]).endswith('Iterator::next') and x[2] and isinstance(x[2][0], tuple) and x[2][0][0] == 'loop' and x[2][0][1] in write_heads):
            # the index that `.enumerate()` attaches to the refused item: the number of items before it, all of which were written
            enum_src = any(e2['kind'] == 'loop_enter' and e2['head'] in write_heads and any(isinstance(v2, tuple) and sym.contains(v2, lambda y: isinstance(y, tuple) and y and y[0] == 'call' and str(y[1]).endswith('Iterator::enumerate')) for v2 in e2['pre'].values()) for e2 in r.events)
            idx_field = (trip[0] == 'proj' and trip[2] == ('f', '0')) or (trip[0] == 'payload' and str(trip[-1]) == '0')
            if enum_src and sym.show(trip).endswith('.0'):
                per = []
                for q in paths:
                    if q.end == 'backedge':
                        les = [(i, e3) for i, e3 in enumerate(q.events) if e3['kind'] == 'loop_enter']
                        if les and les[-1][1]['head'] == le['head']:
                            body = q.events[les[-1][0]:]
                            per.append((sum(1 for e3 in body if is_read(e3)), sum(1 for e3 in body if is_write(e3))))
                if per and all(x == (1, 0) for x in per):
                    continue
                verdict = ('bad', 'the loop that should take the appended words back does not pop exactly one word per iteration')
                continue
        if ctr is None:
            verdict = verdict or ('unresolved', 'the number of words taken back (%s) is not a counter of the writing loop' % (sym.show(trip)[:60] if trip is not None else '?'))
            continue
        ok_ctr = True
        for q in paths:
            for e in q.events:
                if e['kind'] == 'loop_enter' and e['head'] == ctr[1] and e['pre'].get(ctr[2]) not in (sym.mk_int(0), None) :
                    ok_ctr = False
                if e['kind'] == 'loop_enter' and e['head'] == ctr[1] and e['pre'].get(ctr[2]) is None:
                    ok_ctr = False
            if q.end == 'backedge':
                les = [(i, e) for i, e in enumerate(q.events) if e['kind'] == 'loop_enter']
                if les and les[-1][1]['head'] == ctr[1]:
                    ws = [e for e in q.events[les[-1][0]:] if is_write(e)]
                    fin = ev.final_read(q, ctr[2])
                    if len(ws) != 1 or not effects.affine_eq(sym.affine(fin), sym.affine(sym.mk_bin('Add', ctr, sym.mk_int(1)))):
                        ok_ctr = False
        per_iter = []
        for q in paths:
            if q.end == 'backedge':
                les = [(i, e) for i, e in enumerate(q.events) if e['kind'] == 'loop_enter']
                if les and les[-1][1]['head'] == le['head']:
                    body = q.events[les[-1][0]:]
                    per_iter.append((sum(1 for e in body if is_read(e)), sum(1 for e in body if is_write(e))))
        if not ok_ctr:
            verdict = verdict or ('unresolved', 'the counter of successful writes is not `0, then +1 per written word`')
        elif not per_iter or any(x != (1, 0) for x in per_iter):
            verdict = ('bad', 'the loop that should take the appended words back does not pop exactly one word per iteration (%s reads/writes per iteration)' % per_iter)
    if n_exits == 0:
        return ctx.unresolved('R5', role, new.defpath, 'no exit for a refused write found', key=key)
    if verdict and verdict[0] == 'bad':
        return ctx.bad('R5', role, new.defpath, verdict[1], key=key, loc=rules.loc(new))
    if verdict:
        return ctx.unresolved('R5', role, new.defpath, verdict[1], key=key)
    ctx.ok('R5', role, new.defpath, '%d exit(s) after a refused write: each pops `counter` words, counter = number of successful writes' % n_exits, key=key)


def check_coder_guard(ctx, F):
    g, new, drop = anchors.guard_of(F, ANS, 'get_compressed')
    check_no_guard_dropped_in_ctor(ctx, F, g, new)
    check_ctor_error_exits_clean(ctx, F, g, new)
    check_failed_write_compensated(ctx, F, g, new)
    key = 'R5/guard-pairing/stream::stack::CoderGuard'
    role = 'guard pops exactly the words it appended'
    if not new or not drop:
        ctx.bad('R5', role, 'stream::stack::CoderGuard', 'guard constructor or Drop impl not found', key=key)
        return
    ctx.touch(new)
    ctx.touch(drop)
    evn, pn = rules.evaluate(new)
    evd, pd = rules.evaluate(drop)
    if pn is None or pd is None:
        ctx.unresolved('R5', role, new.defpath, 'too many paths', key=key)
        return
    bulk_n = (1, 'deref', ('f', 'bulk'))
    inner = (1, 'deref', ('f', 'inner'), 'deref')
    bulk_d = inner + (('f', 'bulk'),)
    try:
        sn = effects.summarise(evn, pn, lambda e: 1 if is_call_on(e, 'WriteWords::write', bulk_n) else None)
        pairs = 0
        bad = None
        for s in sn:
            if rules.ret_shape(s.ret)[0] != 'Ok':
                continue
            sd = effects.summarise(evd, pd, lambda e: 1 if is_call_on(e, 'ReadWords::read', bulk_d) else None,
                                   known_some={effects.reroot(t, (1, 'deref'), inner) for t in s.known_some})
            for d in sd:
                dp = {}
                for k, (t, v) in d.preds.items():
                    t2 = effects.reroot(t, inner, (1, 'deref'))
                    dp[sym.tkey(t2)] = (t2, v)
                if not effects.compatible(s.preds, dp):
                    continue
                pairs += 1
                dc = (dict((k2, (c, effects.reroot(at, inner, (1, 'deref')))) for k2, (c, at) in d.count[0].items()), d.count[1])
                dc = sym.affine(_affine_to_term(dc))
                if not effects.affine_eq(s.count, dc):
                    bad = 'creation appends %s words but drop pops %s (predicates: %s)' % (
                        sym.affine_str(s.count), sym.affine_str(dc), ', '.join('%s=%s' % (sym.show(t)[:50], v) for t, v in list(s.preds.values())[:3]))
        if bad:
            ctx.bad('R5', role, new.defpath, bad, loc=rules.loc(new), key=key)
        elif pairs < 2:
            ctx.unresolved('R5', role, new.defpath, 'fewer than two aligned path pairs (SEALED = false/true expected)', key=key)
        else:
            ctx.ok('R5', role, new.defpath, '%d aligned (creation, drop) path pairs: appended == popped for SEALED in {false,true}' % pairs, key=key)
    except Unresolved as u:
        ctx.unresolved('R5', role, new.defpath, str(u), key=key)
    # frame: neither side touches anything but bulk
    fv = frame_violations(pn, (1, 'deref'), {'bulk'}) + frame_violations(pd, inner, {'bulk'})
    k2 = 'R1/guard-frame/stream::stack::CoderGuard'
    if fv:
        ctx.bad('R1', 'guard creation/drop only touch the word buffer', new.defpath, '; '.join(fv), key=k2, loc=rules.loc(new))
    else:
        ctx.ok('R1', 'guard creation/drop only touch the word buffer', new.defpath, 'writes ⊆ {bulk} on all %d + %d paths' % (len(pn), len(pd)), key=k2)
    # view == export: same iterator source, items written unchanged
    into = anchors.method(F, ANS, 'into_compressed')
    k3 = 'R4/view-equals-export/AnsCoder::get_compressed'
    role3 = 'temporary view shows what into_compressed would append'
    if into is None:
        ctx.bad('R4', role3, ANS, 'into_compressed not found', key=k3)
        return
    evi, pi = rules.evaluate(into)
    ctx.touch(into)
    src_into = None
    for r in pi or []:
        for e in r.events:
            if e['kind'] == 'call' and e['callee'].endswith('WriteWords::extend_from_iter'):
                src_into = effects.strip_uid(e['args'][1])
    src_guard = None
    item_ok = False
    enumerated = False
    for r in pn:
        if r.end != 'backedge':
            continue
        if not any(t == ('c', 'SEALED') and v == 0 for t, v, _ in r.preds):
            continue
        for e in r.events:
            if e['kind'] == 'loop_enter':
                for p, v in e['pre'].items():
                    if v[0] == 'call' and 'into_iter' in v[1]:
                        src_guard = effects.strip_uid(v[2][0])
                        if src_guard[0] == 'call' and str(src_guard[1]).endswith('Iterator::enumerate') and src_guard[2]:
                            src_guard = src_guard[2][0]       # `.enumerate()` only numbers the items
                            enumerated = True
            if is_call_on(e, 'WriteWords::write', bulk_n):
                w = e['args'][1]
                if enumerated and w[0] == 'proj' and w[2] == ('f', '1'):
                    w = w[1]
                item_ok = w[0] == 'payload' and w[2] == 'Some' and w[1][0] == 'call' and w[1][1].endswith('Iterator::next')
    # coordinates: into_compressed has `self` by value (path (1,)), the guard has (1,'deref')
    if src_into is not None:
        src_into = effects.reroot(src_into, (1,), (1, 'deref')) if not _has_deref_root(src_into) else src_into
    if src_into is not None and src_guard is not None and src_into == src_guard and item_ok:
        ctx.ok('R4', role3, new.defpath, 'both emit %s, one word per item, unchanged' % sym.show(src_guard), key=k3)
    elif src_into is None or src_guard is None:
        ctx.unresolved('R4', role3, new.defpath, 'could not identify the word sources (into: %s, guard: %s)' % (src_into and sym.show(src_into), src_guard and sym.show(src_guard)), key=k3)
    else:
        ctx.bad('R4', role3, new.defpath, 'guard emits %s (items unchanged: %s) but into_compressed emits %s' % (sym.show(src_guard), item_ok, sym.show(src_into)), key=k3, loc=rules.loc(new))


def _has_deref_root(t):
    for x in sym.subterms(t):
        if isinstance(x, tuple) and x and x[0] == 'in':
            return len(x[1]) > 1 and x[1][1] == 'deref'
    return False


def _affine_to_term(a):
    t = sym.mk_int(a[1])
    for k, (c, at) in sorted(a[0].items()):
        t = sym.mk_bin('Add', t, sym.mk_bin('Mul', sym.mk_int(c), at) if c != 1 else at)
    return t


def check_encoder_guard(ctx, F):
    parts = anchors.range_encoder_parts(F)
    seal, nsw, unseal = parts['seal'], parts['num_seal_words'], parts['unseal']
    new, drop = parts['guard_new'], parts['guard_drop']
    isempty, into = parts['is_empty'], parts['into_compressed']
    base = 'stream::queue::EncoderGuard'
    missing = [n for n, b in (('seal', seal), ('num_seal_words', nsw), ('unseal', unseal), ('EncoderGuard::new', new), ('EncoderGuard::drop', drop), ('is_empty', isempty), ('into_compressed', into)) if b is None]
    if missing:
        ctx.bad('R5', 'anchor', base, 'missing: ' + ', '.join(missing), key='R5/anchor/' + base)
        return
    check_no_guard_dropped_in_ctor(ctx, F, parts.get('guard'), new)
    bulk = (1, 'deref', ('f', 'bulk'))
    uroot = tuple(parts.get('unseal_root') or (1, 'deref'))
    ubulk = uroot + (('f', 'bulk'),)
    evs, ps = rules.evaluate(seal)
    evn, pnsw = rules.evaluate(nsw)
    for b in (seal, nsw, unseal, new, drop, isempty, into):
        ctx.touch(b, calls=sum(1 for _ in b.calls()))
    # (a) count(seal) == num_seal_words() under every aligned valuation
    key = 'R5/seal-count/stream::queue::RangeEncoder'
    role = 'seal writes exactly num_seal_words() words'
    try:
        ss = effects.summarise(evs, ps, lambda e: 1 if is_call_on(e, 'WriteWords::write', bulk) else None)
        sn = effects.summarise(evn, pnsw, lambda e: None)
        pairs = 0
        bad = None
        for a in ss:
            if rules.ret_shape(a.ret)[0] != 'Ok':
                continue
            for b in sn:
                if not effects.compatible(a.preds, b.preds):
                    continue
                pairs += 1
                val = sym.affine(effects.strip_uid(b.ret))
                cnt = sym.affine(effects.strip_uid(_affine_to_term(a.count)))
                if not effects.affine_eq(cnt, val):
                    bad = 'seal writes %s words where num_seal_words() returns %s (path predicates: %s)' % (
                        sym.affine_str(cnt), sym.affine_str(val), '; '.join('%s=%s' % (sym.show(t)[:60], v) for t, v in b.preds.values()))
        ctx.extra['seal_pairs'] = pairs
        if bad:
            ctx.bad('R5', role, seal.defpath, bad, loc=rules.loc(seal), key=key)
        elif pairs < 5:
            ctx.unresolved('R5', role, seal.defpath, 'only %d aligned pairs' % pairs, key=key)
        else:
            ctx.ok('R5', role, seal.defpath, '%d aligned (seal path, num_seal_words path) pairs agree' % pairs, key=key)
    except Unresolved as u:
        ctx.unresolved('R5', role, seal.defpath, str(u), key=key)
    # (b) seal's frame ⊆ {bulk}
    fv = frame_violations(ps, (1, 'deref'), {'bulk'})
    k = 'R1/seal-frame/stream::queue::RangeEncoder'
    if fv:
        ctx.bad('R1', 'seal leaves state and situation untouched', seal.defpath, '; '.join(fv), key=k, loc=rules.loc(seal))
    else:
        ctx.ok('R1', 'seal leaves state and situation untouched', seal.defpath, 'writes ⊆ {bulk} on all %d paths' % len(ps), key=k)
    # (c) unseal pops num_seal_words() words and nothing else
    evu, pu = rules.evaluate(unseal)
    k = 'R5/unseal-count/stream::queue::RangeEncoder'
    try:
        su = effects.summarise(evu, pu, lambda e: 1 if is_call_on(e, '::pop', ubulk) else None)
        rets = [s for s in su if s.end == 'return']
        want = None
        ok = bool(rets)
        for s in rets:
            atoms = list(s.count[0].values())
            if s.count[1] != 0 or len(atoms) != 1 or atoms[0][0] != 1 or not (atoms[0][1][0] == 'call' and atoms[0][1][1] == nsw.defpath):
                ok = False
                want = sym.affine_str(s.count)
        fvu = frame_violations(pu, uroot, {'bulk'})
        if ok and not fvu:
            ctx.ok('R5', 'unseal pops exactly num_seal_words() words', unseal.defpath, 'loop 0..num_seal_words() with one pop per iteration; frame ⊆ {bulk}', key=k)
        else:
            ctx.bad('R5', 'unseal pops exactly num_seal_words() words', unseal.defpath, 'pops %s; frame: %s' % (want, fvu), key=k, loc=rules.loc(unseal))
    except Unresolved as u:
        ctx.unresolved('R5', 'unseal pops exactly num_seal_words() words', unseal.defpath, str(u), key=k)
    # (d) EncoderGuard::new seals iff !is_empty(); drop unseals exactly once; is_empty => num_seal_words()==0
    evg, pg = rules.evaluate(new)
    k = 'R5/guard-pairing/' + base
    bad = None
    n_seal_paths = 0
    for r in pg:
        if r.end != 'return':
            continue
        seals = [e for e in r.events if e['kind'] == 'call' and e['callee'] == seal.defpath]
        others = [e for e in r.events if e['kind'] == 'call' and e.get('uid') is not None and e['callee'] != seal.defpath]
        emp = [(t, v) for t, v, _ in r.preds if t[0] == 'call' and t[1] == isempty.defpath]
        if others:
            bad = 'guard creation calls %s with mutable access to the encoder' % others[0]['callee']
        if len(emp) != 1:
            bad = 'guard creation is not controlled by exactly one is_empty() test'
            continue
        if emp[0][1] == 0:
            n_seal_paths += 1
            if len(seals) != 1:
                bad = 'non-empty encoder: %d calls to seal (exactly one expected)' % len(seals)
        else:
            if seals:
                bad = 'empty encoder is sealed although drop will pop num_seal_words() == 0 words'
    evd, pdr = rules.evaluate(drop)
    dcalls = [e for r in pdr for e in r.events if e['kind'] == 'call' and e.get('uid') is not None]
    if unseal is not drop and (len(pdr) != 1 or len(dcalls) != 1 or dcalls[0]['callee'] != unseal.defpath):
        bad = 'drop is not exactly one call to unseal'
    # is_empty() true  =>  range == max  => num_seal_words path returning 0
    eve, pe = rules.evaluate(isempty)
    for r in pe:
        if r.end != 'return' or r.ret == sym.FALSE:
            continue
        pr = {sym.tkey(effects.strip_uid(t)): (effects.strip_uid(t), v) for t, v, _ in r.preds}
        for b in effects.summarise(evn, pnsw, lambda e: None):
            if effects.compatible(pr, b.preds) and b.ret != sym.mk_int(0):
                bad = 'is_empty() can hold while num_seal_words() = %s: an unsealed guard would pop words on drop' % sym.show(b.ret)
    if bad:
        ctx.bad('R5', 'guard seals iff it will unseal', new.defpath, bad, key=k, loc=rules.loc(new))
    else:
        ctx.ok('R5', 'guard seals iff it will unseal', new.defpath,
               'new: seal() exactly when !is_empty(); drop: one unseal(); is_empty() implies num_seal_words() == 0', key=k)
    # (e) view == export: into_compressed is seal() + return bulk
    evi, pi = rules.evaluate(into)
    k = 'R4/view-equals-export/RangeEncoder::get_compressed'
    okv = False
    for r in pi:
        if r.end == 'return' and rules.ret_shape(r.ret)[0] == 'Ok':
            cs = [e for e in r.events if e['kind'] == 'call' and e.get('uid') is not None]
            okv = len(cs) == 1 and cs[0]['callee'] == seal.defpath
    (ctx.ok if okv else ctx.bad)('R4', 'temporary view shows what into_compressed would return', into.defpath,
                                 'into_compressed = seal() then bulk; the guard calls the same seal()' if okv else 'into_compressed is not `seal()` followed by returning bulk', key=k)


def check_bit_guards(ctx, F):
    guards = []
    for m in [b for b in F.bodies if b.promoted is None and b.name == 'get_compressed' and b.self_adt == SYMC]:
        for cb, blk, t in anchors.local_callees(F, m):
            dr = [b for b in F.bodies if b.promoted is None and b.name == 'drop' and b.self_adt == cb.self_adt and b.impl_trait == 'core::ops::Drop']
            if cb.self_adt and dr:
                guards.append((cb.self_adt, cb, dr[0]))
    if len(guards) < 2:
        ctx.bad('R5', 'floor: bit-coder guards', SYMC, 'only %d view guards found behind SymbolCoder::get_compressed (2 expected)' % len(guards), key='R5/floor/bit-guards')
    for gname, new, drop in guards:
        key = 'R5/guard-pairing/' + gname
        role = 'guard pops exactly the words it pushed (and undoes the seal bit)'
        if not new or not drop:
            ctx.bad('R5', role, gname, 'guard constructor or Drop impl not found', key=key)
            continue
        ctx.touch(new)
        ctx.touch(drop)
        check_no_guard_dropped_in_ctor(ctx, F, gname, new)
        evn, pn = rules.evaluate(new)
        evd, pd = rules.evaluate(drop)
        inner = (1, 'deref', ('f', 'inner'), 'deref')
        backend_n = (1, 'deref', ('f', 'backend'))
        backend_d = inner + (('f', 'backend'),)
        fields = [f['name'] for f in F.adts[SYMC]['variants'][0]['fields']]
        bad = None
        pairs = 0
        seqs = set()
        for r in pn:
            if r.end != 'return':
                continue
            # rewrite new's predicates over the state the guard leaves behind (= the state drop starts from)
            m = {}
            for f in fields:
                p = (1, 'deref', ('f', f))
                fv = evn.final_read(r, p)
                if fv != ('in', p):
                    m[fv] = ('final', f)
            npreds = {}
            for t, v, _ in r.preds:
                t2 = sym.subst(t, m)
                t2 = sym.subst(t2, {('in', (1, 'deref', ('f', f))): ('final', f) for f in fields if ('in', (1, 'deref', ('f', f))) not in [k for k in m]})
                t2 = effects.strip_uid(t2)
                npreds[sym.tkey(t2)] = (t2, v)
            n_push = sum(1 for e in r.events if is_call_on(e, '::push', backend_n))
            seq_new = [('write_bit' if e['callee'].endswith('::write_bit') else 'push') for e in r.events
                       if e['kind'] == 'call' and e.get('uid') is not None and (e['callee'].endswith('::write_bit') or is_call_on(e, '::push', backend_n))]
            other_new = [e['callee'] for e in r.events if e['kind'] == 'call' and e.get('uid') is not None and not (e['callee'].endswith('::write_bit') or is_call_on(e, '::push', backend_n))]
            for d in pd:
                if d.end != 'return':
                    continue
                dpreds = {}
                for t, v, _ in d.preds:
                    t2 = sym.subst(t, {('in', inner + (('f', f),)): ('final', f) for f in fields})
                    t2 = effects.strip_uid(t2)
                    dpreds[sym.tkey(t2)] = (t2, v)
                if not effects.compatible(npreds, dpreds):
                    continue
                pairs += 1
                n_pop = sum(1 for e in d.events if is_call_on(e, '::pop', backend_d))
                seq_drop = [('read_bit' if e['callee'].endswith('::read_bit') else 'pop') for e in d.events
                            if e['kind'] == 'call' and e.get('uid') is not None and (e['callee'].endswith('::read_bit') or is_call_on(e, '::pop', backend_d))]
                other_drop = [e['callee'] for e in d.events if e['kind'] == 'call' and e.get('uid') is not None and not (e['callee'].endswith('::read_bit') or is_call_on(e, '::pop', backend_d))]
                inverse = {'write_bit': 'read_bit', 'push': 'pop'}
                seqs.add((tuple(seq_new), tuple(seq_drop)))
                if n_push != n_pop:
                    bad = 'creation pushes %d word(s) but the matching drop pops %d' % (n_push, n_pop)
                elif [inverse[x] for x in reversed(seq_new)] != seq_drop:
                    bad = 'drop %s is not the reverse of creation %s' % (seq_drop, seq_new)
                elif other_new or other_drop:
                    bad = 'unexpected mutation: %s' % (other_new + other_drop)
        if bad:
            ctx.bad('R5', role, new.defpath, bad, key=key, loc=rules.loc(new))
        elif pairs < 2:
            ctx.unresolved('R5', role, new.defpath, 'only %d aligned path pairs' % pairs, key=key)
        else:
            ctx.ok('R5', role, new.defpath, '%d aligned pairs; sequences %s' % (pairs, sorted(seqs)), key=key)
        # view == export: same call sequence under the same predicate as into_compressed
        into = [b for b in F.bodies if b.promoted is None and b.name == 'into_compressed' and b.self_adt == SYMC]
        k3 = 'R4/view-equals-export/%s' % gname
        role3 = 'temporary view shows what into_compressed would return'
        found = None
        for cand in into:
            evi, pi = rules.evaluate(cand)
            sig = _export_signature(pi, (1,), 'WriteWords::write')
            sign = _export_signature([r for r in pn if r.end == 'return'], (1, 'deref'), '::push')
            if sig is not None and sig == sign:
                found = cand
        if found:
            ctx.touch(found)
            ctx.ok('R4', role3, new.defpath, 'same (predicate, flushed word) structure as %s' % found.defpath, key=k3)
        else:
            ctx.bad('R4', role3, new.defpath, 'no into_compressed of SymbolCoder has the same flush structure as the guard constructor', key=k3, loc=rules.loc(new))


def _export_signature(paths, base, write_suffix):
    """Set of (has_write_bit, predicate-on-mask value, word written) per success path, coordinates normalised."""
    sig = set()
    for r in paths:
        if r.end != 'return':
            continue
        if rules.ret_shape(r.ret)[0] == 'Err' or (r.ret is not None and r.ret[0] == 'err_of'):
            continue
        wb = sum(1 for e in r.events if e['kind'] == 'call' and e['callee'].endswith('::write_bit'))
        words = []
        for e in r.events:
            if e['kind'] == 'call' and e['callee'].endswith(write_suffix) and e['args'] and e['args'][0][0] == 'ref' and e['args'][0][1][:len(base)] == base:
                words.append(_norm_state(e['args'][1], base))
        preds = []
        for t, v, _ in r.preds:
            nt = _norm_state(t, base)
            if any(isinstance(x, tuple) and x and x[0] == 'try' for x in sym.subterms(nt)):
                continue      # the `?` on the backend write itself (failure paths are excluded above)
            if any(isinstance(x, tuple) and x and x[0] == 'fld' for x in sym.subterms(nt)):
                if isinstance(nt, tuple) and nt and nt[0] == 'bin' and nt[1] == 'Eq' and not isinstance(v, tuple):
                    nt, v = ('bin', 'Ne') + nt[2:], 0 if v else 1        # one spelling for `x == c` taken / `x != c` not taken
                preds.append((nt, v))
        sig.add((wb, tuple(sorted(map(repr, preds))), tuple(map(repr, words))))
    return sig


def _norm_state(t, base):
    n = len(base)

    def f(x):
        if x and x[0] == 'in' and x[1][:n] == base and len(x[1]) > n:
            return ('fld',) + x[1][n:]
        if x and x[0] == 'proj' and x[1][0] == 'post':
            return ('fld', x[2])
        if x and x[0] == 'try':
            return x
        return None
    t = effects.rebuild(effects.strip_uid(t), f)
    return t


def check_no_effect_in_debug_assert(ctx, F):
    """`debug_assert!(..)` (and its _eq/_ne forms) vanishes in builds without debug assertions, operands included.  A call inside
    it that takes `&mut` to anything but a temporary is a side effect that exists in test builds only: the pinned suite runs with
    debug assertions and sees the effect, a release build does not (an `unseal` whose pop sits inside the assertion leaves the
    seal words behind).  The region is read off the MIR: the blocks reached through the taken side of the `cfg!(debug_assertions)`
    switch that the macro expands to, up to its join block."""
    import os
    n = 0
    src_cache = {}

    def src_at(at):
        try:
            f, l, c = at.split('-')[0].rsplit(':', 2)
            path = f if os.path.isabs(f) else os.path.join(F.info.get('repo', '/repo') if hasattr(F, 'info') and isinstance(F.info, dict) else os.environ.get('VERIF_REPO', '/repo'), f)
            if path not in src_cache:
                src_cache[path] = open(path, encoding='utf-8', errors='replace').read().splitlines()
            return src_cache[path][int(l) - 1][int(c) - 1:]
        except Exception:
            return ''
    for b in F.bodies:
        if b.promoted is not None or '::tests::' in b.defpath or b.dk not in ('Fn', 'AssocFn', 'Closure'):
            continue
        for i, bl in enumerate(b.blocks):
            t = bl['term']
            sp = t.get('span') or {}
            if t['k'] != 'switch' or not sp.get('exp') or 'core/src/macros' not in (sp.get('inner') or ''):
                continue
            if not src_at(sp['at']).startswith('debug_assert'):
                continue
            targets = [tb for v, tb in t['targets']]
            if len(targets) != 1:
                continue
            join, inside = targets[0], t['otherwise']          # switchInt(flag) -> [0: join, otherwise: inside]
            n += 1
            key = 'R1/no-effect-in-debug-assert/%s#%d' % (b.defpath, n)
            from vlib import cfg as cfgmod
            g = cfgmod.CFG(b)
            dom = g.dominators()
            seen = {x for x in dom if inside in dom[x]}
            bad = None
            if len(g.pred[inside]) != 1:
                seen = set()
            for x in sorted(seen):
                tt = b.blocks[x]['term']
                if tt['k'] in ('call', 'tailcall'):
                    c = facts_callee_def(tt)
                    for a in tt['args']:
                        if a.get('k') in ('move', 'copy') and not a['place']['p']:
                            ty = b.facts.ty(b.local_ty(a['place']['l']))
                            if ty.get('k') == 'ref' and ty.get('mut') and not (c or '').startswith(('core::fmt', 'core::panicking')):
                                bad = (c, tt['span']['at'].split('-')[0])
            role = 'nothing inside debug_assert! takes `&mut`'
            if bad:
                ctx.bad('R1', role, b.defpath, 'the call %s inside a debug_assert! receives a mutable reference: it is executed only in builds with debug assertions (the test suite), so release builds skip the effect' % bad[0], key='R1/no-effect-in-debug-assert/' + b.defpath, loc=bad[1])
            else:
                ctx.ok('R1', role, b.defpath, '%d block(s) inside the assertion, no call with a `&mut` argument' % len(seen), key=key)
    ctx.extra['debug_assert_regions'] = n


def facts_callee_def(t):
    from vlib import facts
    return facts.callee_def(t)


def run(ctx):
    F = ctx.F
    check_inspectors(ctx, F)
    check_coder_guard(ctx, F)
    check_encoder_guard(ctx, F)
    check_bit_guards(ctx, F)
    check_no_effect_in_debug_assert(ctx, F)
    if ctx.tier == 'thorough':
        from vlib import witness
        witness.run(ctx, 'C08')
    ctx.assume('a guard holds `&mut` to its coder: the coder state cannot change between guard creation and drop (Rust aliasing; witnessed by compile-fail tests in the thorough tier)')
    ctx.assume('backends honour WriteWords/ReadWords: a successful write appends one word, a read pops one (C17 for the provided backends)')
    ctx.assume('fault-injected partial writes inside a guard constructor are outside the quantifier of C08')
    ctx.assume('bit-level coders: write_bit / read_bit are treated as an opaque inverse pair (their bit arithmetic is C16, not decided)')
    return {
        'level': 'other',
        'explanation': 'Static analysis over extracted MIR: receiver kinds + interior-mutability scan for the inspection API; path-sensitive effect counting with loop summarisation and predicate alignment '
                       'for the four guard types (words appended on creation == words popped on drop for every aligned valuation; frames restricted to the word buffer); same-source comparison of guard '
                       'constructor and into_compressed. Holds for every history by induction (each inspection is a no-op on the coder state and restores the buffer). Not decided here: bit arithmetic '
                       'of write_bit/read_bit, backend failures in the middle of a guard constructor.',
        'trusted_base': ['rustc type checker + MIR construction', 'cfacts extractor', 'Rust aliasing rules', 'std Vec push/pop contract', 'iterator length algebra of vlib/effects.py (rev/map/into_iter preserve length; Range length = end - start)'],
    }
