"""C19 — model constructors reject invalid input instead of building a broken model (partial).

Statically decided clauses:
  1. validator reachability: every literal of a model type is produced (a) after the Ok arm of one of the
     shared validators, (b) by a view/conversion of an existing model value, or (c) behind inline
     rejecting guards; private producers pass the obligation to their callers                  (R7)
  2. sibling agreement of argument checks among the float-table ingesters and the
     (symbols, probabilities) constructors: sign per element, length >= 2, count match both ways (R4)
  3. success paths stay live in every allowed configuration: no ordering comparison against a
     possibly wrapped power of two (wrapping_pow2(PRECISION) is 0 at PRECISION == BITS) without a
     zero / precision test on the same path                                                     (R2, two-point constants)
  4. the final accept/reject decision of the fixed-point validator depends on every accumulator (R3)
  5. PRECISION bounds (compile-fail witnesses, thorough tier)                                   (R9)
  6. Python front end maps constructor errors to ValueError (thorough tier, pybindings config)   (R2)
Not decided: that an accepted table satisfies C03 numerically.
"""
from vlib import sym, rules, effects, anchors
from vlib.facts import callee

MODEL_PREFIX = 'stream::model::'
VALIDATOR_ROLES = ('fixed_point', 'float_fast', 'float_perfect')


def model_adts(F):
    out = set()
    for imp in F.impls:
        if imp.get('trait') == 'stream::model::EntropyModel':
            a = F.ty_adt(imp['self'])
            if a and a.startswith(MODEL_PREFIX):
                out.add(a)
    out.add('stream::model::quantize::LeakyQuantizer')
    return out


def is_test(b):
    return '::tests::' in b.defpath or b.defpath.startswith(('pybindings', '<pybindings'))


def has_model_param(F, b, adts):
    for l in range(1, b.arg_count + 1):
        a = F.ty_adt(b.local_ty(l))
        if a in adts:
            return True
    # a generic `M: IterableEntropyModel` whose symbol_table() is copied: conversion of "a model"
    # (validity of user implementations is an assumption of C19; the memory-safety side is C20's)
    for _, t in b.calls():
        c = callee(t)
        if c and c['def'] == 'stream::model::IterableEntropyModel::symbol_table':
            return True
    return False


def rejecting_guards_before(res, upto_event_index, paths, body):
    """Number of branch decisions on this path (before the event) whose other arm reaches Err / panic."""
    n = 0
    for e in res.events[:upto_event_index]:
        if e['kind'] == 'branch':
            n += 1
        if e['kind'] == 'assert':
            n += 1
    return n


_VDEFS = {}


def vdefs(F):
    k = id(F)
    if k not in _VDEFS:
        _VDEFS[k] = anchors.validator_defs(F)
    return _VDEFS[k]


def validator_ok_before(res, idx, F=None):
    """Role ('fixed_point' | 'float_fast' | 'float_perfect') of a shared validator whose Ok arm was passed before event idx."""
    defs = vdefs(F) if F is not None else {}
    for e in res.events[:idx]:
        if e['kind'] == 'call' and e['callee'] in defs:
            rt = e['result']
            for t, v, _ in res.preds:
                if t[0] == 'discr' and sym.contains(t[1], lambda x: x == rt):
                    vn = sym.discr_variant(t, v)
                    if vn in ('Continue', 'Ok'):
                        return defs[e['callee']]
    return None


def check_validator_reachability(ctx, F):
    adts = model_adts(F)
    validators = anchors.validators(F)
    for v in VALIDATOR_ROLES:
        if v not in validators:
            ctx.bad('R7', 'anchor: shared validator', v, 'no private `fn .. -> Result<_, ()>` of the categorical module plays the role `%s`' % v, key='R7/anchor/validator-' + v)
    # producers
    info = {}
    for b in F.bodies:
        if b.promoted is not None or b.derived or is_test(b) or b.dk not in ('Fn', 'AssocFn'):
            continue
        has_lit = any(s['k'] == 'assign' and s['rv']['k'] == 'agg' and s['rv'].get('adt') in adts for bl in b.blocks if not bl['cleanup'] for s in bl['stmts'])
        if has_lit:
            info[b.defpath] = {'body': b, 'sites': []}
    # helper calls: functions calling a private producer and returning a model
    changed = True
    private = lambda b: not (b.vis == 'pub') and b.impl_trait is None
    rounds = 0
    while changed and rounds < 3:
        changed = False
        rounds += 1
        priv = {d for d, i in info.items() if private(i['body'])}
        for b in F.bodies:
            if b.promoted is not None or b.derived or is_test(b) or b.dk not in ('Fn', 'AssocFn') or b.defpath in info:
                continue
            if any((callee(t) or {}).get('def') in priv for _, t in b.calls()):
                info[b.defpath] = {'body': b, 'sites': []}
                changed = True
    n_sites = 0
    verdicts = {}
    priv = {d for d, i in info.items() if private(i['body'])}
    for dp, inf in sorted(info.items()):
        b = inf['body']
        ev, paths = rules.evaluate(b)
        ctx.touch(b, calls=sum(1 for _ in b.calls()))
        if paths is None:
            verdicts[dp] = ('unresolved', 'too many paths')
            continue
        conv = has_model_param(F, b, adts)
        status = None
        detail = None
        n_here = 0
        for r in paths:
            for i, e in enumerate(r.events):
                site = None
                if e['kind'] == 'literal' and e['adt'] in adts:
                    site = 'literal ' + e['adt'].rsplit('::', 1)[-1]
                elif e['kind'] == 'call' and e['callee'] in priv:
                    site = 'call ' + e['callee'].rsplit('::', 1)[-1]
                if site is None:
                    continue
                n_here += 1
                v = validator_ok_before(r, i, F)
                if v:
                    why = 'after Ok of the %s validator' % v
                elif conv:
                    why = 'view/conversion of an existing model value'
                elif rejecting_guards_before(r, i, paths, b) >= 1 and not private(b):
                    why = 'behind %d inline guard(s)' % rejecting_guards_before(r, i, paths, b)
                elif private(b):
                    why = None      # obligation passes to the callers
                    status = status or 'passes'
                    continue
                else:
                    status = 'bad'
                    detail = '%s at %s is reached without passing a validator, a guard or a source model' % (site, e['span'].split('-')[0])
                    continue
                if status != 'bad':
                    status = 'ok'
                    detail = why
        n_sites += n_here
        verdicts[dp] = (status, detail, n_here)
    for dp, v in sorted(verdicts.items()):
        b = info[dp]['body']
        key = 'R7/validated-construction/' + dp
        role = 'model value is only built from validated data'
        if v[0] == 'ok':
            ctx.ok('R7', role, dp, '%d production site(s): %s' % (v[2], v[1]), key=key)
        elif v[0] == 'passes':
            callers = [c for c in info if any((callee(t) or {}).get('def') == dp for _, t in info[c]['body'].calls())]
            if callers:
                ctx.ok('R7', role, dp, 'private producer; obligation discharged at its %d caller(s): %s' % (len(callers), [c.rsplit('::', 1)[-1] for c in callers][:4]), key=key)
            else:
                ctx.unresolved('R7', role, dp, 'private producer without analysed callers', key=key)
        elif v[0] == 'bad':
            ctx.bad('R7', role, dp, v[1], key=key, loc=rules.loc(b))
        elif v[0] == 'unresolved':
            ctx.unresolved('R7', role, dp, v[1], key=key)
        else:
            ctx.unresolved('R7', role, dp, 'no production site reached by an enumerated path', key=key)
    ctx.extra['model_production_sites'] = n_sites
    ctx.extra['model_producers'] = len(info)
    ctx.floor('R7', 'floor: model-producing functions', 'stream::model', len(info), 25, 'only %d found (>= 25 on the reference tree)' % len(info), key='R7/floor/model-producers')


# ---------------------------------------------------------------- clause 2

def closure_closure(F, b, depth=2):
    out = [b]
    if depth:
        for c in F.closures_of(b):
            out += closure_closure(F, c, depth - 1)
    return out


def has_sign_check(F, b):
    """'nan-safe' if some element is required to satisfy `0 <= x` (false for NaN, so NaN is rejected too);
    'nan-unsafe' if elements are only tested with `x < 0` (NaN slips through); None if no element-wise sign test."""
    best = None
    for x in closure_closure(F, b):
        ev, paths = rules.evaluate(x)
        for r in paths or []:
            terms = [t for t, v, _ in r.preds]
            for e in r.events:
                if e['kind'] == 'call':
                    terms.append(e['result'])
            if r.ret is not None:
                terms.append(r.ret)
            for t in terms:
                for y in sym.subterms(t):
                    if isinstance(y, tuple) and y and y[0] == 'bin' and y[1].split('.')[0] in ('Lt', 'Le'):
                        ops = (y[2], y[3])
                        if any(o[0] == 'k' and o[1] == 'zero' for o in ops):
                            zero_left = ops[0][0] == 'k' and ops[0][1] == 'zero'
                            other = ops[1] if zero_left else ops[0]
                            if other[0] == 'k' or sym.is_int(other):
                                continue
                            # Le(zero, x) / Lt(zero, x): "x is (strictly) non-negative" - NaN fails it
                            kind = 'nan-safe' if zero_left else 'nan-unsafe'
                            if kind == 'nan-safe' or best is None:
                                best = kind
    return best


def has_len_guard(F, b):
    ev, paths = rules.evaluate(b)
    for r in paths or []:
        for t, v, _ in r.preds:
            for y in sym.subterms(t):
                if isinstance(y, tuple) and y and y[0] == 'bin' and y[1] in ('Lt', 'Le') and sym.mk_int(2) in (y[2], y[3]):
                    if any(o[0] == 'len' for o in (y[2], y[3])):
                        return True
    return False


def output_validated(F, b):
    """Does the ingester (or every constructor that uses it) pass the result through the fixed-point validator?"""
    fp = anchors.validators(F).get('fixed_point')
    return fp is not None and any((callee(t) or {}).get('def') == fp.defpath for _, t in b.calls())


ORDER_OPS = ('Lt', 'Le', 'Gt', 'Ge')


def check_nondegenerate_support(ctx, F):
    """A quantizer over a support `a..=b` is only constructed for a < b: a one-symbol support would give that symbol the whole
    interval [0, 2^PRECISION), i.e. probability one, which the models and coders exclude ("no symbol has probability one").
    Rule: every returning path of the public constructors that take a `RangeInclusive` support carries a *strict* comparison
    start < end of that argument.  `!support.is_empty()` only gives start <= end."""
    n = 0
    for b in F.bodies:
        if b.promoted is not None or is_test(b) or b.dk != 'AssocFn' or b.vis != 'pub' or not (b.self_adt or '').startswith('stream::model::quantize::') or 'RangeInclusive<' not in (b.raw.get('sig') or ''):
            continue
        if 'Self' not in (b.raw.get('sig') or '').split('->')[-1] and (b.self_adt.split('::')[-1] not in (b.raw.get('sig') or '').split('->')[-1]):
            continue
        ev, paths = rules.evaluate(b)
        if not paths:
            continue
        n += 1
        ctx.touch(b)
        key = 'R6/non-degenerate-support/' + b.defpath
        role = 'the support has at least two symbols'
        is_end = lambda x: isinstance(x, tuple) and x and sym.contains(x, lambda y: isinstance(y, tuple) and y and y[0] == 'call' and str(y[1]).endswith('RangeInclusive::<Idx>::end'))
        is_start = lambda x: isinstance(x, tuple) and x and sym.contains(x, lambda y: isinstance(y, tuple) and y and y[0] == 'call' and str(y[1]).endswith('RangeInclusive::<Idx>::start'))
        bad = None
        n_ret = 0
        for r in paths:
            if r.end != 'return':
                continue
            n_ret += 1
            strict = weak = False
            for t, v, _ in r.preds:
                if isinstance(v, tuple):
                    continue
                tt, vv = t, bool(v)
                while isinstance(tt, tuple) and tt and tt[0] == 'not':
                    tt, vv = tt[1], not vv
                if isinstance(tt, tuple) and tt and tt[0] == 'bin' and tt[1].split('.')[0] in ('Lt', 'Le', 'Gt', 'Ge'):
                    op = tt[1].split('.')[0]
                    a, c = tt[2], tt[3]
                    if op in ('Gt', 'Ge'):
                        a, c = c, a
                        op = {'Gt': 'Lt', 'Ge': 'Le'}[op]
                    # now  a op c
                    if is_start(a) and is_end(c) and not is_end(a) and not is_start(c):
                        if (op == 'Lt' and vv):
                            strict = True
                        elif op == 'Le' and vv:
                            weak = True
                    if is_end(a) and is_start(c) and not is_start(a) and not is_end(c):
                        if op == 'Le' and not vv:      # !(end <= start)
                            strict = True
                        elif op == 'Lt' and not vv:    # !(end < start)  => start <= end
                            weak = True
                if isinstance(tt, tuple) and tt and tt[0] == 'call' and str(tt[1]).endswith('RangeInclusive::<Idx>::is_empty') and not vv:
                    weak = True
            if not strict:
                bad = ('a returning path only knows start <= end (%s): `x..=x` is accepted, and the single symbol of such a support receives the whole probability mass' % ('is_empty() is false' if weak else 'no comparison of the two ends at all')) if weak \
                    else 'a returning path carries no comparison of the two ends of the support: a one-symbol (or reversed) support is accepted'
        if n_ret == 0:
            continue
        if bad:
            ctx.bad('R6', role, b.defpath, bad, key=key, loc=rules.loc(b))
        else:
            ctx.ok('R6', role, b.defpath, 'every returning path carries start < end', key=key)
    if n == 0:
        ctx.unresolved('R6', 'the support has at least two symbols', 'stream::model::quantize', 'no public constructor taking a RangeInclusive support found', key='R6/floor/non-degenerate-support')


def check_duplicate_symbols(ctx, F):
    """Constructors that build a symbol -> interval table must reject a repeated symbol (otherwise the later entry overwrites
    the earlier one and the remaining intervals no longer tile [0, 2^PRECISION)).  Rule: every insertion into such a map
    inside a model constructor either goes through `entry()` with the Occupied arm returning Err, or examines what
    `insert` returns; a plain `insert(..)` whose result is dropped is refuted."""
    n = 0
    for b in F.bodies:
        if b.promoted is not None or is_test(b) or b.dk not in ('Fn', 'AssocFn', 'Closure') or 'stream::model' not in b.defpath:
            continue
        if not any(((callee(t) or {}).get('def') or '').endswith(('::entry',)) or ('HashMap' in ((callee(t) or {}).get('def') or '') and ((callee(t) or {}).get('def') or '').endswith('::insert')) for _, t in b.calls()):
            continue
        ev, paths = rules.evaluate(b)
        if not paths:
            continue
        sites = {}
        for r in paths:
            if r.end not in ('return', 'backedge'):
                continue
            terms = [t for t, v, _ in r.preds] + ([r.ret] if r.ret is not None else [])
            for e in r.events:
                if e['kind'] != 'call':
                    continue
                if e['callee'].endswith('::entry'):
                    # Occupied must lead to Err: on paths that go on, the entry was Vacant
                    k = ('entry', (e.get('span') or '').split('-')[0])
                    vac = any(t[0] == 'discr' and sym.contains(t[1], lambda x, res=e['result']: x == res) and sym.discr_variant(t, v) == 'Vacant' for t, v, _ in r.preds)
                    occ = any(t[0] == 'discr' and sym.contains(t[1], lambda x, res=e['result']: x == res) and sym.discr_variant(t, v) == 'Occupied' for t, v, _ in r.preds)
                    ok = vac or (occ and r.end == 'return' and rules.ret_shape(r.ret)[0] == 'Err')
                    sites[k] = sites.get(k, True) and ok
                elif e['callee'].endswith('::insert') and 'HashMap' in e['callee'] and not e['callee'].endswith('VacantEntry<\'a, K, V>::insert'):
                    k = ('insert', (e.get('span') or '').split('-')[0])
                    used = any(sym.contains(x, lambda y, res=e['result']: y == res) for x in terms)
                    sites[k] = sites.get(k, True) and used
        for i, ((kind, where), ok) in enumerate(sorted(sites.items())):
            n += 1
            ctx.touch(b)
            key = 'R2/duplicate-symbol/%s/%s#%d' % (b.defpath, kind, i)
            role = 'a repeated symbol is detected when the symbol table is filled'
            if ok:
                ctx.ok('R2', role, b.defpath, '%s at %s: an occupied slot ends in Err / the previous value is examined' % (kind, where), key=key)
            else:
                ctx.bad('R2', role, b.defpath, 'the table is filled with a plain `insert` whose result is dropped (at %s): a repeated symbol silently replaces the earlier entry, the constructor returns Ok and the remaining intervals no longer tile [0, 2^PRECISION)' % where,
                        key=key, loc=where)
    ctx.extra['map_insert_sites'] = n


LAZY = 'stream::model::categorical::lazy_contiguous::LazyContiguousCategoricalEntropyModel'


def _float_to_fixed_sites(F, b):
    """[(clamped?, text)] for every conversion `as_(float product) -> Probability` in body b (pure private helpers opened)"""
    out = []
    try:
        ev, paths = rules.evaluate(b)
    except sym.TooManyPaths:
        return None
    seen = set()

    def visit(t, under_min):
        if not isinstance(t, tuple) or not t:
            return
        if t[0] == 'cast' and len(t) >= 5 and t[1] == 'as_' and t[4] in ('F', 'f32', 'f64') and sym.contains(t[2], lambda x: isinstance(x, tuple) and x and x[0] == 'bin' and x[1].split('.')[0] == 'Mul'):
            k = (repr(effects.strip_uid(t)), under_min)
            if k not in seen:
                seen.add(k)
            out.append((under_min, sym.show(t)[:70], repr(effects.strip_uid(t))))
            return
        if t[0] == 'call' and str(t[1]).endswith(('Ord::min', 'cmp::min')) and len(t[2]) == 2:
            for a in t[2]:
                visit(a, True)
            return
        if t[0] == 'call' and str(t[1]).endswith(('Ord::max', 'cmp::max')) and len(t[2]) == 2:
            # a lower clamp (`max` with the previous entry) passes its operand on: what bounds the result from above
            # bounds the operand's contribution too
            for a in t[2]:
                visit(a, under_min)
            return
        for c in t[1:]:
            if isinstance(c, tuple):
                if c and isinstance(c[0], str):
                    visit(c, False)
                else:
                    for d in c:
                        if isinstance(d, tuple):
                            visit(d, False)
    is_cast = lambda t: isinstance(t, tuple) and len(t) >= 5 and t[0] == 'cast' and t[1] == 'as_' and t[4] in ('F', 'f32', 'f64') and sym.contains(t[2], lambda x: isinstance(x, tuple) and x and x[0] == 'bin' and x[1].split('.')[0] == 'Mul')
    def lifted(t):
        """the conversions whose upper bound a bound on t implies: t itself, or the operands of a lower clamp `max(conversion, x)`"""
        if is_cast(t):
            return [t]
        if isinstance(t, tuple) and t and t[0] == 'call' and str(t[1]).endswith(('Ord::max', 'cmp::max')) and len(t[2]) == 2:
            return [x for a in t[2] for x in lifted(a)]
        return []
    for r in paths or []:
        # the clamp written as a branch: on this path the conversion is decided to lie below an integer bound
        guarded = set()
        preds = [(rules.inline_pure(F, t), v) for t, v, _ in r.preds]
        for t, v in preds:
            if t[0] == 'bin' and t[1] in ('Lt', 'Le', 'Gt', 'Ge'):
                a, c = t[2], t[3]
                ca, cc = lifted(a), lifted(c)
                if ca and not cc and ((t[1] in ('Lt', 'Le')) == bool(v)):
                    guarded.update(repr(effects.strip_uid(x)) for x in ca)
                if cc and not ca and ((t[1] in ('Gt', 'Ge')) == bool(v)):
                    guarded.update(repr(effects.strip_uid(x)) for x in cc)
        # where the value ends up: the result, stores, decisions, and what is handed to other functions (the clamp itself excepted)
        terms = ([r.ret] if r.ret is not None else []) + [e['value'] for e in r.events if e['kind'] in ('write', 'write_ref')]
        for t, v in preds:
            if t[0] == 'bin' and t[1] in ('Lt', 'Le', 'Gt', 'Ge') and (lifted(t[2]) or lifted(t[3])):
                continue          # the comparison that clamps (or fails to): judged through `guarded`
            terms.append(t)
        for e in r.events:
            if e['kind'] == 'call' and not str(e['callee']).endswith(('Ord::min', 'cmp::min', 'Ord::max', 'cmp::max', 'Ord::clamp', 'AsPrimitive::as_', 'ops::Mul::mul', 'PartialOrd::lt', 'PartialOrd::le', 'PartialOrd::gt', 'PartialOrd::ge')):
                res = e.get('result')
                if isinstance(res, tuple) and res and res[0] == 'call':
                    inl = rules.inline_pure(F, ('call', res[1], res[2], None))
                    if not (isinstance(inl, tuple) and inl and inl[0] == 'call' and inl[1] == res[1]):
                        continue          # a crate-local helper that inlines to plain terms (a hand-written min / max / clamp): judged where its result goes
                terms += list(e.get('args_val', e['args']))
        n0 = len(out)
        for t in terms:
            visit(rules.inline_pure(F, t), False)
        # occurrences found on this path that the path's own decision bounds
        for i in range(n0, len(out)):
            c, txt, key = out[i]
            if not c and key in guarded:
                out[i] = (True, txt, key)
    # a conversion counts as clamped only if it never also occurs unclamped
    res = {}
    for c, txt, _ in out:
        res[txt] = res.get(txt, True) and c
    return sorted(res.items())


def lazy_lookups_clamped(F):
    """(all clamped?, number of conversions) over the methods of the lazy categorical model"""
    n = 0
    allc = True
    for b in F.bodies:
        if b.promoted is not None or is_test(b) or b.self_adt != LAZY or b.dk != 'AssocFn' or b.name == 'from_floating_point_probabilities_fast':
            continue
        for txt, c in _float_to_fixed_sites(F, b) or []:
            n += 1
            allc = allc and c
    return allc and n > 0, n


def check_scaled_cumulative_clamped(ctx, F):
    """A cumulative that is computed in floating point (`prefix_sum * scale`) and converted to fixed point cannot be trusted to
    stay below the integer bound it was scaled to: `scale` is itself a rounded quotient, the product is rounded again, and
    for PRECISION above the mantissa width the free weight is not even representable (f32: [106.71429, 118.14286, 0.0] at
    PRECISION 24 gives the last symbol probability zero; [1.0, 0.0] at PRECISION 26 gives the cdf [0, 2^26 + 1, 2^26]).  So
    every such conversion that feeds a cdf is clamped in *integer* arithmetic (`min` with the free weight) before the
    per-symbol slack is added; the consumers wrap the differences into NonZero without a check."""
    ff = anchors.validators(F).get('float_fast')
    fpq = anchors.validators(F).get('float_perfect')
    bodies = []
    if ff is not None:
        bodies += [(c, 'eager') for c in F.closures_of(ff)]
    if fpq is not None:
        # the `_perfect` quantiser: each symbol's share of the free weight is a float product too, and it is subtracted from an
        # integer budget with overflow-checked arithmetic (a panic in debug builds, a wrap in release builds)
        bodies += [(c, 'perfect') for c in F.closures_of(fpq)] + [(fpq, 'perfect')]
    bodies += [(b, 'lazy') for b in F.bodies if b.promoted is None and not is_test(b) and b.self_adt == LAZY and b.dk == 'AssocFn' and b.name != 'from_floating_point_probabilities_fast']
    n = 0
    for b, kind in bodies:
        sites = _float_to_fixed_sites(F, b)
        if not sites:
            continue
        ctx.touch(b)
        for i, (txt, clamped) in enumerate(sites):
            n += 1
            key = 'R10/scaled-cumulative-clamped/%s#%d' % (b.defpath, i)
            role = 'a float-scaled cumulative is clamped in integer arithmetic before it enters the cdf'
            if clamped:
                ctx.ok('R10', role, b.defpath, '`%s` only occurs under `min(.., bound)`' % txt, key=key)
            else:
                ctx.bad('R10', role, b.defpath, '`%s` goes into the cumulative as it comes out of the float arithmetic (a bound applied in floating point does not help: the float image of the free weight is itself rounded): rounding (of the scale, of the product, of a free weight that f32 cannot represent for PRECISION > 24) can lift it past the free weight, so trailing symbols get probability zero or the cdf passes 1 << PRECISION' % txt, key=key, loc=rules.loc(b))
    ctx.extra['float_to_fixed_conversions'] = n
    ctx.floor('R10', 'floor: float-to-fixed conversions of cumulatives', 'stream::model::categorical', n, 2, 'only %d conversions `as_(prefix_sum * scale)` found in the fast quantiser and the lazy model' % n, key='R10/floor/scaled-cumulative')


def check_float_table_monotone(ctx, F):
    """The consumers of the fast quantiser (the contiguous, non-contiguous-decoder and contiguous-lookup `_fast` constructors)
    store its table without validation and later read it with get_unchecked / into_nonzero_unchecked.  The float type `F` is
    a type parameter bounded by safe traits only, so what the unchecked code needs - the table starts at zero and strictly
    increases - may not rest on `F`'s arithmetic: a float-to-fixed conversion enters the table only through a *lower* clamp
    against the running integer value (`max(converted, running)` or the branch form), that running value is what the clamp
    is stored back into, and the entry handed out is built from integer state that starts at zero."""
    ff = anchors.validators(F).get('float_fast')
    if ff is None:
        return
    is_cast = lambda t: isinstance(t, tuple) and len(t) >= 5 and t[0] == 'cast' and t[1] == 'as_' and t[4] in ('F', 'f32', 'f64')
    is_state = lambda t: isinstance(t, tuple) and len(t) == 2 and t[0] == 'in' and isinstance(t[1], tuple) and len(t[1]) >= 3 and t[1][0] == 1 and isinstance(t[1][2], tuple) and t[1][2][0] == 'f'
    caps = {}
    try:
        _, pp = rules.evaluate(ff)
    except sym.TooManyPaths:
        pp = []
    for r in pp or []:
        for t in ([r.ret] if r.ret is not None else []):
            for x in sym.subterms(t):
                if isinstance(x, tuple) and x and x[0] == 'agg' and isinstance(x[1], tuple) and x[1][0] == 'closure':
                    caps[x[1][1]] = x[2]
    n = 0
    for b in F.closures_of(ff):
        try:
            _, paths = rules.evaluate(b)
        except sym.TooManyPaths:
            continue
        if not any(sym.contains(t, is_cast) for r in paths or [] for t in ([r.ret] if r.ret is not None else []) + [e['value'] for e in r.events if e['kind'] == 'write']):
            continue
        ctx.touch(b)
        n += 1
        key = 'R10/float-table-monotone/' + b.defpath
        role = 'a table that unchecked code reads is monotone by integer arithmetic, not by the float type\'s'
        bad = None
        unres = None
        for r in paths or []:
            if r.end != 'return':
                continue
            preds = [(rules.inline_pure(F, t), v) for t, v, _ in r.preds]
            above = set()      # (cast, state field) pairs decided cast >= field on this path
            for t, v in preds:
                if t[0] == 'bin' and t[1] in ('Lt', 'Le', 'Gt', 'Ge'):
                    a, c = t[2], t[3]
                    if is_cast(a) and is_state(c) and ((t[1] in ('Gt', 'Ge')) == bool(v)):
                        above.add((repr(effects.strip_uid(a)), c[1]))
                    if is_cast(c) and is_state(a) and ((t[1] in ('Lt', 'Le')) == bool(v)):
                        above.add((repr(effects.strip_uid(c)), a[1]))
            writes = {e['path']: rules.inline_pure(F, e['value']) for e in r.events if e['kind'] == 'write' and isinstance(e.get('path'), tuple)}
            sinks = [('the entry handed out', rules.inline_pure(F, r.ret))] if r.ret is not None else []
            sinks += [('the running value', v) for pth, v in writes.items()]

            def visit(t, lower):
                """lower = the state field this subterm is already clamped against from below (or None)"""
                nonlocal bad
                if not isinstance(t, tuple) or not t:
                    return
                if is_cast(t):
                    k = repr(effects.strip_uid(t))
                    fld = lower if lower is not None else next((f for c, f in above if c == k), None)
                    if fld is None:
                        bad = bad or ('`%s` enters the table without a lower clamp against the running value' % sym.show(t)[:70])
                    elif fld not in writes or not sym.contains(writes[fld], lambda y: y == t):
                        bad = bad or ('`%s` is clamped against a value that is not where the clamped result is kept' % sym.show(t)[:70])
                    return
                if t[0] == 'call' and str(t[1]).endswith(('Ord::max', 'cmp::max')) and len(t[2]) == 2:
                    st = [a for a in t[2] if is_state(a)]
                    for a in t[2]:
                        visit(a, st[0][1] if (len(st) == 1 and a is not st[0]) else lower)
                    return
                if t[0] == 'call' and str(t[1]).endswith(('Ord::min', 'cmp::min')) and len(t[2]) == 2:
                    for a in t[2]:
                        visit(a, lower)
                    return
                for c in t[1:]:
                    if isinstance(c, tuple):
                        if c and isinstance(c[0], str):
                            visit(c, None)
                        else:
                            for d in c:
                                if isinstance(d, tuple):
                                    visit(d, None)
            for what, t in sinks:
                if sym.contains(t, is_cast):
                    if what == 'the entry handed out':
                        unres = unres or 'the entry handed out contains a float conversion itself: whether the first entry is zero is not decided here'
                    visit(t, None)
            # the first entry: built from state only, and that state starts at zero
            if r.ret is not None and not sym.contains(r.ret, is_cast):
                cp = caps.get(b.defpath)
                for x in sym.subterms(rules.inline_pure(F, r.ret)):
                    if is_state(x):
                        k = int(x[1][2][1])
                        if cp is None or k >= len(cp) or not (isinstance(cp[k], tuple) and cp[k][:2] == ('k', 'zero')):
                            unres = unres or 'the state the first entry is built from is not initialised with a literal zero'
        if bad:
            ctx.bad('R10', role, b.defpath, bad + ': the table of the `_fast` constructors is then only as monotone as the arithmetic of the float type parameter `F` (a safe trait a caller can implement), while its consumers index with it unchecked and wrap the differences into NonZero without a test', key=key, loc=rules.loc(b))
        elif unres:
            ctx.unresolved('R10', role, b.defpath, unres, key=key)
        else:
            ctx.ok('R10', role, b.defpath, 'every float-to-fixed conversion is clamped from below against the running integer value it is stored back into; the entries are sums of integer state that starts at zero', key=key)
    ctx.floor('R10', 'floor: the fast quantiser converts floats to table entries', 'stream::model::categorical', n, 1, 'no closure of the fast quantiser with a float-to-fixed conversion was found', key='R10/floor/float-table-monotone')


def check_supplied_normalization(ctx, F, b, role_name):
    """A caller-supplied scalar that stands in for a quantity the function could compute from its other argument (the
    `normalization: Option<F>` of the float-table ingesters, documented as "the sum of the probabilities") is redundant
    input.  If it is only checked in isolation (finite, positive), a value smaller than the real sum scales the table past
    1 << PRECISION: the last symbols get zero or wrapped probabilities (the models then call into_nonzero_unchecked(0)).
    Rule: on every accepting path whose result depends on the supplied value, some ordering comparison relates it to a
    data-dependent term."""
    sig = b.raw.get('sig') or ''
    if 'Option<' not in sig:
        return
    key = 'R4/supplied-normalization/' + (('validator:' + role_name) if role_name else b.defpath)
    role = 'a caller-supplied normalization is related to the table it is supposed to normalize'
    opt_args = [i for i in range(1, b.arg_count + 1) if 'Option<' in F.ty_s(b.local_ty(i))]
    if len(opt_args) != 1:
        return ctx.unresolved('R4', role, b.defpath, 'expected one Option argument', key=key)
    k = opt_args[0]
    is_arg = lambda x: isinstance(x, tuple) and x and ((x[0] == 'arg' and x[1] == k) or (x[0] == 'in' and x[1][0] == k))
    is_data = lambda x: isinstance(x, tuple) and x and ((x[0] in ('arg',) and x[1] != k) or (x[0] == 'in' and x[1][0] != k) or x[0] == 'loop')
    ev, paths = rules.evaluate(b)
    n_dep = 0
    verdicts = []
    tolerant_sites = []
    for r in paths or []:
        if r.end != 'return' or r.ret is None or rules.ret_shape(r.ret)[0] != 'Ok':
            continue
        if not sym.contains(r.ret, is_arg):
            continue
        n_dep += 1
        related = False
        in_closure = False
        tolerant = None
        for t, v, _ in r.preds:
            for y in sym.subterms(t):
                if isinstance(y, tuple) and y and y[0] == 'bin' and y[1].split('.')[0] in ORDER_OPS:
                    a_has = sym.contains(y[2], is_arg), sym.contains(y[3], is_arg)
                    d_has = sym.contains(y[2], is_data), sym.contains(y[3], is_data)
                    if (a_has[0] and d_has[1]) or (a_has[1] and d_has[0]):
                        related = True
                        # the comparison must be against the table's sum itself: a sum scaled *down* (`sum * (1 - eps)`,
                        # a "rounding tolerance") again admits values below the sum
                        data_side = y[3] if a_has[0] else y[2]
                        if data_side[0] == 'bin' and data_side[1].split('.')[0] == 'Mul':
                            for fac in (data_side[2], data_side[3]):
                                if fac[0] == 'bin' and fac[1].split('.')[0] == 'Sub' and fac[2][0] == 'k' and fac[2][1] == 'one' and not sym.contains(fac, is_data):
                                    tolerant = sym.show(data_side)[:90]
                if isinstance(y, tuple) and y and y[0] == 'call' and any(isinstance(a, tuple) and a and a[0] == 'agg' and isinstance(a[1], tuple) and a[1][0] == 'closure' and sym.contains(a, is_arg) for a in y[2]):
                    in_closure = True
        if tolerant:
            tolerant_sites.append(tolerant)
        verdicts.append('ok' if related else ('unres' if in_closure else 'bad'))
    if tolerant_sites:
        return ctx.bad('R4', role, b.defpath, 'the supplied normalization is compared with `%s`, a value *below* the sum of the table: a normalization one or two ulp under the sum is accepted again, and for tables with a negligible tail '
                       'the last cumulative reaches or passes 1 << PRECISION (zero or negative probability for the last symbol)' % tolerant_sites[0], key=key, loc=rules.loc(b))
    if not n_dep:
        return ctx.ok('R4', role, b.defpath, 'no accepting path depends on the supplied value', key=key)
    if 'bad' in verdicts and b.self_adt == LAZY:
        allc, nconv = lazy_lookups_clamped(F)
        if allc:
            return ctx.ok('R4', role, b.defpath, 'the supplied value is not compared with the table, but all %d float-to-fixed conversions of the lookups clamp the scaled cumulative to the free weight: a normalization below the sum distorts the model and cannot lift a cumulative past 1 << PRECISION' % nconv, key=key)
    if 'bad' in verdicts:
        return ctx.bad('R4', role, b.defpath, 'the supplied normalization is only checked in isolation (is_normal, is_sign_positive); nothing compares it with the probabilities: a value below their sum '
                       '(e.g. [1.0, 1.0] with Some(0.9999999)) scales the cumulative table past 1 << PRECISION, so the last symbol gets probability zero (or the table wraps)', key=key, loc=rules.loc(b))
    if 'unres' in verdicts:
        return ctx.unresolved('R4', role, b.defpath, 'the supplied value is handed to a closure', key=key)
    return ctx.ok('R4', role, b.defpath, '%d accepting path(s) depend on the supplied value; each compares it with a data-dependent term' % n_dep, key=key)


def _next_is_some(t, v):
    """the outcome `iterator.next()` yielded an item, in any spelling: is_some() taken, is_none() not taken, a match arm."""
    if isinstance(v, tuple):
        return False
    v = bool(v)
    while isinstance(t, tuple) and t and (t[0] == 'not' or (t[0] == 'un' and t[1] == 'Not')):
        t, v = (t[1] if t[0] == 'not' else t[2]), not v
    if isinstance(t, tuple) and t and t[0] == 'is' and t[2][0] == 'call' and t[2][1] == 'core::iter::Iterator::next':
        return (t[1] == 'Some') == v
    if isinstance(t, tuple) and t and t[0] == 'discr' and isinstance(t[1], tuple) and t[1] and t[1][0] == 'call' and t[1][1] == 'core::iter::Iterator::next':
        return sym.discr_variant(t, 1 if v else 0) == 'Some' or sym.discr_variant(t, v) == 'Some'
    return False


def _float_class_tests(F, b):
    """names of the float classification methods (is_normal, is_finite, ...) that decide a rejecting exit of b."""
    out = set()
    ev, paths = rules.evaluate(b)
    for r in paths or []:
        for t, v, _ in r.preds:
            for x in sym.subterms(t):
                if isinstance(x, tuple) and x and x[0] == 'call' and isinstance(x[1], str):
                    nm = x[1].split('::')[-1]
                    if nm in ('is_normal', 'is_finite', 'is_nan', 'is_infinite', 'is_sign_positive', 'is_sign_negative', 'is_subnormal'):
                        out.add(nm)
    return out


def _check_free_weight_positive(ctx, F, b, role_name):
    """"More symbols than representable": every symbol gets one unit of probability up front and the rest, the free weight
    2^PRECISION - len, is distributed in proportion to the float weights.  The table size guard must leave that free weight
    positive (len < 2^PRECISION): with len == 2^PRECISION the scale is 0, the eager models degenerate to uniform and the lazy
    decoder divides by zero.  Decided with difference bounds over the atoms len and wrapping_pow2(PRECISION) on every accepting
    path (the subtraction `wrapping_pow2(P) - c` in a guard is read as plain `Q - c`; for PRECISION == usize::BITS, where Q wraps
    to 0, a slice cannot reach that length anyway)."""
    from vlib import dbm as dbmmod
    key = 'R6/free-weight-positive/' + (('validator:' + role_name) if role_name else b.defpath)
    role = 'the table size guard leaves a positive free weight (len < 2^PRECISION)'
    ev, paths = rules.evaluate(b)
    is_q = lambda x: isinstance(x, tuple) and x and x[0] == 'call' and str(x[1]).endswith('wrapping_pow2')

    def plain(t):
        def f(n):
            if n and n[0] == 'bin' and n[1] in ('Sub.w', 'Add.w') and (is_q(n[2]) or is_q(n[3])) and (sym.is_int(n[2]) or sym.is_int(n[3])):
                return ('bin', n[1][:-2], plain(n[2]), plain(n[3]))
            return None
        return effects.rebuild(t, f)
    n_ok = 0
    bad = None
    for r in paths or []:
        if r.end != 'return' or rules.ret_shape(r.ret)[0] == 'Err':
            continue
        n_ok += 1
        preds = [(plain(rules.inline_pure(F, t)), v, bb) for t, v, bb in r.preds]
        qs = {x for t, v, _ in preds for x in sym.subterms(t) if is_q(x)}
        lens = {x for t, v, _ in preds for x in sym.subterms(t) if isinstance(x, tuple) and x and x[0] == 'len'}
        d = dbmmod.DBM()
        dbmmod.harvest(d, preds)
        if not qs or not lens:
            bad = bad or ('unresolved', 'no comparison of the table length with wrapping_pow2(PRECISION) on an accepting path')
        elif not any(d.entails_le(L, Q, strict=True) for L in lens for Q in qs):
            bad = ('bad', 'an accepting path only knows len <= 2^PRECISION (or less): a table with exactly 2^PRECISION entries is accepted, its free weight 2^PRECISION - len is zero, so the scale is 0 - the lazy decoder divides by it and returns the last symbol for every quantile')
    if n_ok == 0:
        return
    def callers_validated():
        fp = anchors.validators(F).get('fixed_point')
        cs = [c for c in F.bodies if c.promoted is None and not is_test(c) and any((callee(t) or {}).get('def') == b.defpath for _, t in c.calls())]
        def reaches(c, depth=2):
            for x in closure_closure(F, c):
                for _, t in x.calls():
                    d = (callee(t) or {}).get('def')
                    if d == fp.defpath:
                        return True
                    nb = F.by_def.get(d)
                    if depth and nb is not None and nb is not c and nb.defpath != b.defpath and reaches(nb, depth - 1):
                        return True
            return False
        return fp is not None and cs and all(reaches(c) for c in cs)
    if bad and (output_validated(F, b) or callers_validated()):
        return ctx.ok('R6', role, b.defpath, 'the quantised table passes the fixed-point validator (total exactly 2^PRECISION, no zero entry), which refuses an over-long table', key=key)
    if bad and bad[0] == 'unresolved':
        fp = anchors.validators(F).get('fixed_point')
        cs = [c for c in F.bodies if c.promoted is None and not is_test(c) and any((callee(t) or {}).get('def') == b.defpath for _, t in c.calls())]
        loose = [c for c in cs if fp is None or not any((callee(t) or {}).get('def') == fp.defpath or ((F.by_def.get((callee(t) or {}).get('def')) is not None) and any((callee(t2) or {}).get('def') == fp.defpath for y in closure_closure(F, F.by_def[(callee(t) or {}).get('def')]) for _, t2 in y.calls())) for x in closure_closure(F, c) for _, t in x.calls())]
        if loose:
            return ctx.bad('R6', role, b.defpath, 'this quantiser bounds the table only by the largest value of the probability type, not by 2^PRECISION, and relies on the fixed-point validator behind it to refuse an over-long table; %s uses its result without that validation, so a table with more than 2^PRECISION entries yields a wrapped, non-monotonic cdf' % loose[0].defpath.rsplit('::', 1)[-1], key=key, loc=rules.loc(loose[0]))
    if bad and bad[0] == 'bad':
        ctx.bad('R6', role, b.defpath, bad[1], key=key, loc=rules.loc(b))
    elif bad:
        ctx.unresolved('R6', role, b.defpath, bad[1], key=key)
    else:
        ctx.ok('R6', role, b.defpath, 'every accepting path entails len < wrapping_pow2(PRECISION)', key=key)


def check_stored_budget_not_wrapped(ctx, F):
    """A probability budget that a constructor stores in the model (the free weight of a quantizer) is not the result of a
    wrap-around: when it is computed with `wrapping_sub`, the path has decided `subtrahend <= minuend` on those very terms (a
    check on differently computed - e.g. widened - copies does not bound the narrowed value that is subtracted), or the minuend
    is `wrapping_pow2(..)`, the two's-complement spelling of 2^PRECISION at full width, whose callers are covered by the
    free-weight rules.  `checked_sub` and a plain `-` behind a guard are not wrapping subtractions and need nothing."""
    adts = model_adts(F)
    n = 0
    for b in F.bodies:
        if b.promoted is not None or b.derived or is_test(b) or b.dk not in ('Fn', 'AssocFn'):
            continue
        if not any(s['k'] == 'assign' and s['rv']['k'] == 'agg' and s['rv'].get('adt') in adts for bl in b.blocks if not bl['cleanup'] for s in bl['stmts']):
            continue
        try:
            ev, paths = rules.evaluate(b)
        except sym.TooManyPaths:
            continue
        sites = {}
        for r in paths or []:
            for e in r.events:
                if e['kind'] != 'literal' or e['adt'] not in adts:
                    continue
                for fname, val in zip(e['fnames'], e['vals']):
                    core = effects.strip_uid(val)
                    while isinstance(core, tuple) and core and ((core[0] == 'call' and str(core[1]).endswith(('Into::into', 'From::from', 'AsPrimitive::as_')) and core[2]) or core[0] == 'cast'):
                        core = core[2][0] if core[0] == 'call' else core[2]
                    if not (isinstance(core, tuple) and core and core[0] == 'bin' and core[1] == 'Sub.w'):
                        continue
                    A, B = core[2], core[3]
                    if isinstance(A, tuple) and A and A[0] == 'call' and str(A[1]).endswith('wrapping_pow2'):
                        continue
                    d = rules.path_dbm(r, upto=e['npreds'])
                    ok = d.entails_le(B, A)
                    k = fname
                    sites[k] = sites.get(k, True) and ok
        for fname, ok in sorted(sites.items()):
            n += 1
            key = 'R11/stored-budget-not-wrapped/%s/%s' % (b.defpath, fname)
            role = 'a stored probability budget computed with wrapping_sub is guarded on the terms that are subtracted'
            ctx.touch(b)
            if ok:
                ctx.ok('R11', role, b.defpath, 'field `%s`: every path to the literal entails subtrahend <= minuend' % fname, key=key)
            else:
                ctx.bad('R11', role, b.defpath, 'field `%s` is `minuend.wrapping_sub(subtrahend)` and no decision on the path bounds that subtrahend by that minuend (a check on a widened copy of the operands does not bound the narrowed, possibly sign-extended value): an oversized subtrahend wraps to a huge budget and the model hands out intervals beyond 1 << PRECISION' % fname, key=key, loc=rules.loc(b))
    ctx.extra['stored_wrapping_budgets'] = n


def check_table_growth_bounded(ctx, F):
    """The fixed-point validator hands every entry to a callback *before* it knows whether the list is valid (the total is
    checked after the last entry).  A callback that sizes a table by the entry (`lookup_table.resize(len + probability, ..)`)
    therefore allocates for invalid input too: one oversized entry asks for terabytes and aborts the process (no error value,
    no panic), a few thousand invalid 16-bit entries allocate hundreds of megabytes.  Rule: in every such callback the new
    length is decided to be at most 1 << PRECISION before the table grows - by a decision on the path, or by an
    `Option::filter` on the checked sum whose predicate compares with 1 << PRECISION."""
    fp = anchors.validators(F).get('fixed_point')
    if fp is None:
        return
    n = 0
    users = [c for c in F.bodies if c.promoted is None and not is_test(c) and c.dk in ('Fn', 'AssocFn') and any((callee(t) or {}).get('def') == fp.defpath for _, t in c.calls())]
    is_pow = lambda t: isinstance(t, tuple) and t and ((t[0] == 'bin' and t[1] == 'Shl' and t[3] == ('c', 'PRECISION') and (t[2] == sym.mk_int(1) or (t[2][0] == 'k' and t[2][1] == 'one'))) or (t[0] == 'call' and str(t[1]).endswith('wrapping_pow2')))
    for u in users:
        # values captured by the callbacks (a table size kept in a local of the constructor)
        caps = {}
        try:
            uev, upaths = rules.evaluate(u)
        except sym.TooManyPaths:
            uev, upaths = None, None
        for r0 in upaths or []:
            terms0 = ([r0.ret] if r0.ret is not None else []) + [a for e in r0.events if e['kind'] == 'call' for a in e.get('args_val', e['args'])]
            for t0 in terms0:
                for x in sym.subterms(t0):
                    if isinstance(x, tuple) and x and x[0] == 'agg' and isinstance(x[1], tuple) and x[1][0] == 'closure' and x[1][1] not in caps:
                        vals = []
                        for c in x[2]:
                            if isinstance(c, tuple) and c and c[0] == 'ref' and uev is not None:
                                vals.append(effects.strip_uid(uev.final_read(r0, tuple(c[1]))))
                            else:
                                vals.append(effects.strip_uid(c) if isinstance(c, tuple) else c)
                        caps[x[1][1]] = vals

        def resolve(cb, t):
            # `*(captured reference)` / captured value -> what the constructor stored there
            vals = caps.get(cb.defpath)
            if not vals or not (isinstance(t, tuple) and t and t[0] == 'in' and t[1][:2] == (1, 'deref') and len(t[1]) >= 3 and isinstance(t[1][2], tuple) and t[1][2][0] == 'f'):
                return t
            k = int(t[1][2][1])
            rest = t[1][3:]
            if k < len(vals) and (not rest or rest == ('deref',)):
                return vals[k]
            return t
        for cb in F.closures_of(u):
            try:
                ev, paths = rules.evaluate(cb)
            except sym.TooManyPaths:
                continue
            sites = {}
            for r in paths or []:
                for i, e in enumerate(r.events):
                    if e['kind'] != 'call' or not e['callee'].endswith('::resize') or len(e['args']) < 2:
                        continue
                    target = effects.strip_uid(e['args'][1])
                    # does the new length depend on the entry (an argument of the callback)?
                    if not sym.contains(target, lambda x: isinstance(x, tuple) and x and (x[0] == 'arg' or (x[0] == 'in' and isinstance(x[1][0], int) and x[1][0] >= 2))):
                        continue
                    ok = False
                    for t, v, _ in r.preds[:rules.preds_before(r, i)]:
                        if isinstance(v, tuple) or t[0] != 'bin' or t[1] not in ('Le', 'Lt', 'Ge', 'Gt'):
                            continue
                        op = t[1] if v else {'Lt': 'Ge', 'Le': 'Gt', 'Gt': 'Le', 'Ge': 'Lt'}[t[1]]
                        a, b_ = effects.strip_uid(t[2]), effects.strip_uid(t[3])
                        a, b_ = (a if not is_pow(resolve(cb, a)) else resolve(cb, a)), (b_ if not is_pow(resolve(cb, b_)) else resolve(cb, b_))
                        if (op in ('Le', 'Lt') and is_pow(b_) and sym.contains(target, lambda x: x == a)) or (op in ('Ge', 'Gt') and is_pow(a) and sym.contains(target, lambda x: x == b_)):
                            ok = True
                    for x in sym.subterms(target):
                        if isinstance(x, tuple) and x and x[0] == 'call' and str(x[1]).endswith('Option::<T>::filter') and len(x[2]) == 2 and x[2][1][0] == 'agg' and isinstance(x[2][1][1], tuple) and x[2][1][1][0] == 'closure':
                            fb = F.by_def.get(x[2][1][1][1])
                            if fb is not None:
                                _, fpaths = rules.evaluate(fb)
                                rets = [q for q in fpaths or [] if q.end == 'return']
                                if len(rets) == 1 and rets[0].ret is not None and rets[0].ret[0] == 'bin' and rets[0].ret[1] in ('Le', 'Lt', 'Ge', 'Gt'):
                                    c = rets[0].ret
                                    if (c[1] in ('Le', 'Lt') and is_pow(c[3])) or (c[1] in ('Ge', 'Gt') and is_pow(c[2])):
                                        ok = True
                    k = e['span'].split('-')[0]
                    sites[k] = sites.get(k, True) and ok
            for j, (where, ok) in enumerate(sorted(sites.items())):
                n += 1
                ctx.touch(cb)
                key = 'R12/table-growth-bounded/%s#%d' % (cb.defpath, j)
                role = 'a table sized by an entry that is not validated yet grows to at most 1 << PRECISION'
                if ok:
                    ctx.ok('R12', role, cb.defpath, 'the new length is decided <= 1 << PRECISION before the resize', key=key)
                else:
                    ctx.bad('R12', role, cb.defpath, 'the callback of the fixed-point validator resizes a table to a length computed from the entry, and nothing bounds that length before the allocation: the validator checks the total only after the last entry, so an oversized entry (or a long invalid list) makes the constructor allocate without limit - the process aborts on the failed allocation instead of returning Err(())', key=key, loc=where)
    ctx.extra['validator_callback_resizes'] = n
    ctx.floor('R12', 'floor: validator callbacks that size a table', 'stream::model::categorical', n, 2, 'only %d callbacks of the fixed-point validator resize a table (the two lookup constructors are expected)' % n, key='R12/floor/table-growth')


def check_sibling_agreement(ctx, F):
    _norm_tests = {}
    ingesters = []
    for b in F.bodies:
        if b.promoted is not None or is_test(b) or b.dk not in ('Fn', 'AssocFn'):
            continue
        if b.defpath in [v.defpath for r_, v in anchors.validators(F).items() if r_ in ('float_fast', 'float_perfect')]:
            ingesters.append(b)
        if b.name == 'from_floating_point_probabilities_fast' and b.self_adt == 'stream::model::categorical::lazy_contiguous::LazyContiguousCategoricalEntropyModel':
            ingesters.append(b)
    if len(ingesters) < 3:
        ctx.bad('R4', 'floor: float-table ingesters', 'stream::model::categorical', 'only %d of the 3 float-table ingesters found' % len(ingesters), key='R4/floor/ingesters')
    for b in ingesters:
        ctx.touch(b, calls=sum(1 for _ in b.calls()))
        role_name = vdefs(F).get(b.defpath)
        key = 'R4/sign-check/' + (('validator:' + role_name) if role_name else b.defpath)
        role = 'monotonicity is enforced: every weight passes a sign test (or the fixed-point cdf is validated)'
        sc = has_sign_check(F, b)
        takes_normalization = role_name == 'float_fast' or 'Option<' in (b.raw.get('sig') or '')
        if output_validated(F, b):
            ctx.ok('R4', role, b.defpath, 'output passes the fixed-point validator', key=key)
        elif sc == 'nan-safe' or (sc == 'nan-unsafe' and not takes_normalization):
            ctx.ok('R4', role, b.defpath, 'element-wise test `0 <= x` (rejects negative and NaN entries)' if sc == 'nan-safe'
                   else 'element-wise test `x < 0`; NaN entries are caught by the normalization, which is always computed from the entries here', key=key)
        elif sc == 'nan-unsafe':
            ctx.bad('R4', role, b.defpath, 'entries are only tested with `x < 0`, which a NaN entry passes, while the normalization may be supplied by the caller (so it does not catch the NaN either): the resulting cdf is not monotone', key=key, loc=rules.loc(b))
        else:
            ctx.bad('R4', role, b.defpath, 'no element is ever compared with zero and the resulting cdf is not validated: a negative weight (e.g. [3.0, -2.0, 1.0], positive sum) yields a non-monotone cdf', key=key, loc=rules.loc(b))
        check_supplied_normalization(ctx, F, b, role_name)
        _norm_tests[b.defpath] = _float_class_tests(F, b)
        _check_free_weight_positive(ctx, F, b, role_name)
        k2 = 'R4/length-guard/' + (('validator:' + role_name) if role_name else b.defpath)
        (ctx.ok if has_len_guard(F, b) else ctx.bad)('R4', 'tables with fewer than two entries are rejected', b.defpath,
                                                     'len < 2 guard present' if has_len_guard(F, b) else 'no `len < 2` rejection found', key=k2)
    # all ingesters classify the normalization with the same float tests; `is_normal` (finite, non-zero, not subnormal) is what
    # keeps  scale = free_weight / normalization  finite
    if _norm_tests:
        ref = {}
        for dp, ts in _norm_tests.items():
            ref[frozenset(ts)] = ref.get(frozenset(ts), 0) + 1
        for dp, ts in sorted(_norm_tests.items()):
            k3 = 'R4/normalization-class/' + (('validator:' + vdefs(F).get(dp)) if vdefs(F).get(dp) else dp)
            role3 = 'the normalization is required to be a normal positive float'
            if 'is_normal' in ts:
                ctx.ok('R4', role3, dp, 'tests: %s' % sorted(ts), key=k3)
            elif ts & {'is_finite', 'is_nan', 'is_infinite'}:
                ctx.bad('R4', role3, dp, 'the normalization is only tested with %s (siblings require is_normal): zero and subnormal totals pass, `free_weight / normalization` overflows to infinity and the constructor hands out a model whose every lookup panics or is garbage' % sorted(ts), key=k3)
            else:
                ctx.unresolved('R4', role3, dp, 'no float classification test of the normalization recognised (%s)' % sorted(ts), key=k3)
    # (symbols, probabilities) constructors: no silent truncation through zip
    n = 0
    for b in F.bodies:
        if b.promoted is not None or is_test(b) or b.dk != 'AssocFn' or not b.name or not b.name.startswith('from_symbols_and_'):
            continue
        names = b.names()
        sym_arg = [l for l, nme in names.items() if nme == 'symbols' and 1 <= l <= b.arg_count]
        if not sym_arg:
            continue
        n += 1
        ctx.touch(b)
        key = 'R4/count-match/' + b.defpath
        role = 'symbol and probability counts are matched in both directions'
        zips = []
        for x in closure_closure(F, b):
            ev, paths = rules.evaluate(x)
            for r in paths or []:
                for e in r.events:
                    if e['kind'] == 'call' and e['callee'] == 'core::iter::Iterator::zip':
                        if any(sym.contains(a, lambda y: y == ('arg', sym_arg[0])) for a in e['args']) and x is b:
                            zips.append(e['span'].split('-')[0])
        # a zip is fine when both directions are checked afterwards: a length comparison against the number of
        # probabilities (too few symbols) and `symbols.next().is_some()` (too many), each leading to Err
        too_few = too_many = False
        ev, paths = rules.evaluate(b)
        for r in paths or []:
            if r.end != 'return' or rules.ret_shape(r.ret)[0] != 'Err':
                continue
            for t, v, _ in r.preds:
                if t[0] == 'bin' and t[1] in ('Eq', 'Ne') and all(sym.contains(o, lambda y: isinstance(y, tuple) and y and y[0] == 'len') for o in (t[2], t[3])):
                    too_few = True
                if _next_is_some(t, v):
                    too_many = True
        if zips and not (too_few and too_many):
            ctx.bad('R4', role, b.defpath, 'pairs `symbols` with the probabilities through Iterator::zip at %s, which silently truncates to the shorter side, and does not reject %s (siblings reject a count mismatch)' % (
                zips[0], 'too few symbols' if not too_few else 'surplus symbols'), key=key, loc=zips[0])
        elif zips:
            ctx.ok('R4', role, b.defpath, 'zip followed by a length comparison and a surplus test, both leading to Err', key=key)
        else:
            ctx.ok('R4', role, b.defpath, 'no silent zip of the symbols iterator; pairing goes through a checked helper', key=key)
    ctx.extra['symbol_probability_constructors'] = n
    # the checked helpers themselves: too few symbols -> Err, too many -> Err
    for b in F.bodies:
        if b.promoted is not None or is_test(b) or b.name not in ('from_symbols_and_cdf', 'from_symbols_and_nonzero_fixed_point_probabilities'):
            continue
        ev, paths = rules.evaluate(b)
        ctx.touch(b)
        key = 'R4/exhaustion-check/' + b.defpath
        too_many = False
        for r in paths or []:
            if r.end != 'return':
                continue
            for t, v, _ in r.preds:
                if _next_is_some(t, v) and rules.ret_shape(r.ret)[0] == 'Err':
                    too_many = True
        (ctx.ok if too_many else ctx.bad)('R4', 'surplus symbols are rejected', b.defpath,
                                          '`symbols.next().is_some()` => Err present' if too_many else 'no rejection of surplus symbols found', key=key)


# ---------------------------------------------------------------- clause 3, 4

def bare_pow2(t):
    return isinstance(t, tuple) and t and t[0] == 'call' and t[1].endswith('wrapping_pow2')


def check_two_point(ctx, F):
    n = 0
    for b in F.bodies:
        if b.promoted is not None or is_test(b) or b.dk not in ('Fn', 'AssocFn', 'Closure'):
            continue
        if not any((callee(t) or {}).get('name') == 'wrapping_pow2' for _, t in b.calls()):
            continue
        ev, paths = rules.evaluate(b)
        if paths is None:
            ctx.unresolved('R2', 'ordering comparison against a possibly wrapped power of two', b.defpath, 'too many paths', key='R2/two-point/' + b.defpath)
            continue
        found = {}
        for r in paths:
            for i, (t, v, blk) in enumerate(r.preds):
                for x in sym.subterms(t):
                    if isinstance(x, tuple) and x and x[0] == 'bin' and x[1] in ('Lt', 'Le') and (bare_pow2(x[2]) or bare_pow2(x[3])):
                        pw = x[2] if bare_pow2(x[2]) else x[3]
                        if x is not t:
                            continue
                        # with pow2 == 0: Lt(y, pow2) is always false, Le(pow2, y) always true. Only the forced
                        # outcome needs a guard; the other outcome is simply infeasible in that configuration.
                        forced = (x[1] == 'Lt' and bare_pow2(x[3]) and v == 0) or (x[1] == 'Le' and bare_pow2(x[2]) and v == 1)
                        if not forced:
                            continue
                        guarded = False
                        for t2, v2, _ in r.preds:
                            for y in sym.subterms(t2):
                                if isinstance(y, tuple) and y and y[0] == 'bin' and y[1] in ('Eq', 'Ne'):
                                    ops = (y[2], y[3])
                                    if pw in ops and any(o[0] == 'k' and o[1] == 'zero' for o in ops):
                                        guarded = True
                                    if any(o == ('c', 'PRECISION') for o in ops) and any(o[0] == 'c' and 'BITS' in o[1] for o in ops):
                                        guarded = True
                        import re
                        k = re.sub(r'loop@bb\d+:_\d+', 'loopvar', sym.show(effects.strip_uid(x)))[:120]
                        found[k] = found.get(k, True) and guarded
        for k, guarded in sorted(found.items()):
            n += 1
            key = 'R2/two-point/%s/%s' % (('validator:' + vdefs(F)[b.defpath]) if b.defpath in vdefs(F) else b.defpath, k)
            role = 'decision stays meaningful at PRECISION == BITS'
            if guarded:
                ctx.ok('R2', role, b.defpath, '`%s` is accompanied by a zero / precision test on every path' % k, key=key)
            else:
                ctx.bad('R2', role, b.defpath, '`%s` compares against wrapping_pow2(..), which is 0 when PRECISION equals the bit width: the comparison degenerates (always/never true) and the guarded exit becomes unconditional' % k,
                        key=key, loc=rules.loc(b))
    ctx.extra['two_point_comparisons'] = n


def check_final_decision(ctx, F):
    fp = anchors.validators(F).get('fixed_point')
    b = [fp] if fp is not None else []
    key = 'R3/final-decision-uses-accumulators/validator:fixed_point'
    role = 'accept decision depends on the running sum, the total and the wrap/zero counter'
    if not b:
        ctx.bad('R3', role, 'accumulate_nonzero_probabilities', 'validator not found', key=key)
        return
    b = b[0]
    ev, paths = rules.evaluate(b)
    ctx.touch(b)
    oks = [r for r in paths or [] if r.end == 'return' and rules.ret_shape(r.ret)[0] == 'Ok']
    if not oks:
        ctx.unresolved('R3', role, b.defpath, 'no accepting path', key=key)
        return
    # accumulators = loop-carried plain locals that are never handed out by &mut inside the loop (those are the iterators)
    want = {}
    names = b.names()
    for r in paths or []:
        if r.end != 'backedge':
            continue
        muts = set()
        for e in r.events:
            if e['kind'] == 'call':
                for a in e['args']:
                    if a[0] == 'ref' and a[2] and len(a[1]) == 1:
                        muts.add(a[1][0])
        for e in r.events:
            if e['kind'] == 'loop_enter':
                for path in e['pre']:
                    if len(path) == 1 and isinstance(path[0], int) and path[0] not in muts and path[0] > b.arg_count:
                        # only locals that the loop body really updates from their own previous value
                        fin = ev.final_read(r, path)
                        if sym.contains(fin, lambda y: isinstance(y, tuple) and y and y[0] == 'loop' and y[2] == path) and fin != ('loop', e['head'], path):
                            want[names.get(path[0], '_%d' % path[0])] = path[0]
    bad = None
    for r in oks:
        txt = ' '.join(sym.show(t) for t, v, _ in r.preds)
        for nme, l in want.items():
            if (':_%d' % l) not in txt:
                bad = 'an accepting path does not test the accumulator `%s`' % nme
        if 'wrapping_pow2' not in txt:
            bad = 'an accepting path does not compare with the total 2^PRECISION'
    if bad or len(want) < 2:
        ctx.bad('R3', role, b.defpath, bad or 'accumulator locals not found', key=key, loc=rules.loc(b))
    else:
        ctx.ok('R3', role, b.defpath, '%d accepting path(s), each controlled by the total and all %d loop accumulators (%s)' % (len(oks), len(want), ', '.join(sorted(want))), key=key)


def check_zero_entry_counted(ctx, F):
    """An explicit zero entry in a fixed-point table is noticed by the shared validator.  The loop is branchless: a counter is
    stepped by the truth value of a comparison between the running sum after and before the entry.  At entry == 0 the two sums
    are equal, so the comparison must hold at equality (or the entry is tested against zero by itself); with a strict
    comparison only wrap-arounds are counted and a table with a zero entry whose other entries add up passes - a symbol with an
    empty interval."""
    fp = anchors.validators(F).get('fixed_point')
    key = 'R9/zero-entry-counted/validator:fixed_point'
    role = 'an explicit zero entry steps the wrap-or-zero counter (or is refused directly)'
    if fp is None:
        return ctx.bad('R9', role, 'accumulate_nonzero_probabilities', 'validator not found', key=key)
    b = fp
    ev, paths = rules.evaluate(b)
    ctx.touch(b)

    def at_zero(t, item, acc):
        """truth value of boolean term t when item == 0 (so acc + item == acc), or None"""
        if not isinstance(t, tuple) or not t:
            return None
        if t[0] == 'cast':
            return at_zero(t[2], item, acc)
        if t[0] == 'bin':
            op = t[1].split('.')[0]
            if op in ('BitOr', 'BitAnd'):
                x, y = at_zero(t[2], item, acc), at_zero(t[3], item, acc)
                if op == 'BitOr':
                    return True if (x is True or y is True) else (False if (x is False and y is False) else None)
                return False if (x is False or y is False) else (True if (x is True and y is True) else None)
            if op in ('Le', 'Lt', 'Ge', 'Gt', 'Eq', 'Ne'):
                norm = lambda u: acc if (isinstance(u, tuple) and u and u[0] == 'bin' and u[1].split('.')[0] == 'Add' and {u[2], u[3]} == {acc, item}) else u
                l, rr = norm(t[2]), norm(t[3])
                zero = lambda u: isinstance(u, tuple) and u and ((u[0] == 'k' and u[1] == 'zero') or (u[0] == 'int' and u[1] == 0) or u == item)
                if l == rr or (zero(l) and zero(rr)):
                    return op in ('Le', 'Ge', 'Eq')
                return None
        if t[0] == 'un' and t[1] == 'Not':
            x = at_zero(t[2], item, acc)
            return None if x is None else (not x)
        if t[0] == 'call' and str(t[1]).endswith('is_zero') and t[2] and t[2][0] == item:
            return True
        return None

    verdicts = []
    for r in paths or []:
        if r.end != 'backedge':
            continue
        le = [e for e in r.events if e['kind'] == 'loop_enter']
        if not le:
            continue
        le = le[-1]
        # the item is refused by a branch of its own?
        for t, v, _ in r.preds:
            if t[0] == 'bin' and t[1] in ('Eq', 'Ne') and any(isinstance(u, tuple) and u and u[0] == 'k' and u[1] == 'zero' for u in (t[2], t[3])):
                other = t[3] if (t[2][0] == 'k') else t[2]
                if other[0] == 'payload' and sym.contains(other, lambda x: isinstance(x, tuple) and x and x[0] == 'call' and str(x[1]).endswith('Iterator::next')):
                    if (t[1] == 'Ne' and v) or (t[1] == 'Eq' and not v):
                        verdicts.append((True, 'the loop goes on only with entry != 0'))
        for path in le['pre']:
            if not (len(path) == 1 and isinstance(path[0], int)):
                continue
            fin = ev.final_read(r, path)
            me = ('loop', le['head'], path)
            if not (isinstance(fin, tuple) and fin and fin[0] == 'bin' and fin[1].split('.')[0] == 'Add' and me in (fin[2], fin[3])):
                continue
            step = fin[3] if fin[2] == me else fin[2]
            if not (isinstance(step, tuple) and step and step[0] == 'cast' and step[-1] == 'bool'):
                continue
            # the accumulators and the item inside the comparison
            adds = [x for x in sym.subterms(step) if isinstance(x, tuple) and x and x[0] == 'bin' and x[1].split('.')[0] == 'Add' and any(isinstance(u, tuple) and u and u[0] == 'loop' for u in (x[2], x[3]))]
            if not adds:
                verdicts.append((None, 'counter step `%s` does not compare running sums' % sym.show(step)[:60]))
                continue
            a = adds[0]
            acc, item = (a[2], a[3]) if (a[2][0] == 'loop') else (a[3], a[2])
            verdicts.append((at_zero(step, item, acc), sym.show(step)[:90]))
    if not verdicts:
        return ctx.unresolved('R9', role, b.defpath, 'no counter stepped by a comparison and no zero test found in the loop', key=key)
    if any(v is True for v, _ in verdicts):
        return ctx.ok('R9', role, b.defpath, 'at entry == 0: %s holds' % next(d for v, d in verdicts if v is True), key=key)
    if all(v is False for v, _ in verdicts):
        return ctx.bad('R9', role, b.defpath, 'the counter is stepped by `%s`, which is false when the entry is zero (the sum after equals the sum before): explicit zero entries go unnoticed, a table such as [2^(P-1), 0, 2^(P-1)] is accepted and yields a symbol with an empty interval' % verdicts[0][1], key=key, loc=rules.loc(b))
    ctx.unresolved('R9', role, b.defpath, 'counter step not decided at entry == 0 (%s)' % verdicts[0][1], key=key)


def check_inferred_probability(ctx, F):
    """The probability the validator infers for the last symbol (total - accum) is non-zero on every path that
    hands it on: either accum < total was established, or the configuration is PRECISION == BITS (total wraps to
    0 and the sum of at least one non-zero, non-wrapping probability is not 0 - listed assumption)."""
    fp = anchors.validators(F).get('fixed_point')
    b = [fp] if fp is not None else []
    key = 'R8/inferred-probability-nonzero/validator:fixed_point'
    role = 'the inferred last probability cannot be zero'
    if not b:
        ctx.bad('R8', role, 'accumulate_nonzero_probabilities', 'validator not found', key=key)
        return
    b = b[0]
    ev, paths = rules.evaluate(b)
    bad = None
    n = 0
    edge = 0
    for r in paths or []:
        for i, e in enumerate(r.events):
            if e['kind'] == 'call' and e['callee'].endswith('FnMut::call_mut') and len(e['args']) == 2 and e['args'][1][0] == 'agg':
                prob = e['args'][1][2][2] if len(e['args'][1][2]) == 3 else None
                if prob is None or not (prob[0] == 'bin' and prob[1].split('.')[0] == 'Sub' and bare_pow2(prob[2])):
                    continue
                n += 1
                accum = prob[3]
                preds = r.preds[:rules.preds_before(r, i)]
                lt = any(t[0] == 'bin' and ((t[1] == 'Le' and bare_pow2(t[2]) and t[3] == accum and v == 0) or (t[1] == 'Lt' and t[2] == accum and bare_pow2(t[3]) and v == 1)) for t, v, _ in preds)
                full = any(t[0] == 'bin' and t[1] in ('Ne', 'Eq') and ('c', 'PRECISION') in (t[2], t[3]) and ((t[1] == 'Ne' and v == 0) or (t[1] == 'Eq' and v == 1)) for t, v, _ in preds)
                if lt:
                    continue
                if full:
                    edge += 1
                    continue
                bad = 'a path hands `%s` on as the last probability without having established accum < total (e.g. a table that already sums to 2^PRECISION gives an inferred probability of zero inside a NonZero)' % sym.show(prob)[:80]
    if bad:
        ctx.bad('R8', role, b.defpath, bad, key=key, loc=rules.loc(b))
    elif n == 0:
        ctx.unresolved('R8', role, b.defpath, 'inferred-probability hand-over not recognised', key=key)
    else:
        ctx.ok('R8', role, b.defpath, '%d hand-over path(s): accum < total established (%d on the PRECISION == BITS edge, where total wraps to 0)' % (n, edge), key=key)
        if edge:
            ctx.assume('at PRECISION == BITS the inferred probability 0 - accum is non-zero because accum is a non-wrapped sum of >= 1 non-zero entries (laps_or_zeros == 0, num_explicit_probabilities >= 1)')


FLOAT_LIKE = ('f32', 'f64', 'F', 'bool')


def _arg_roots(t, b):
    out = set()
    for y in sym.subterms(t):
        if isinstance(y, tuple) and y:
            if y[0] == 'arg' and 1 <= y[1] <= b.arg_count:
                out.add(y[1])
            if y[0] == 'in' and isinstance(y[1][0], int) and 1 <= y[1][0] <= b.arg_count:
                out.add(y[1][0])
    return out


def check_constructor_narrowing(ctx, F):
    """An integer constructor argument that is narrowed must first be bounded from above (or round-trip
    checked) on its un-narrowed value: otherwise a huge argument aliases a small, valid-looking one."""
    import props.C09 as c09
    W = c09.Wide(F, lossy_wrapping=True)
    adts = model_adts(F)
    n = 0
    for b in F.bodies:
        if b.promoted is not None or b.derived or is_test(b) or b.dk not in ('Fn', 'AssocFn'):
            continue
        if not any(s['k'] == 'assign' and s['rv']['k'] == 'agg' and s['rv'].get('adt') in adts for bl in b.blocks if not bl['cleanup'] for s in bl['stmts']):
            continue
        ev, paths = rules.evaluate(b)
        casts = {}
        for r in paths or []:
            for e in r.events:
                if e['kind'] != 'literal' or e['adt'] not in adts:
                    continue
                preds = r.preds[:e['npreds']]
                terms = list(e['vals']) + [t for t, v, _ in preds]
                for t in terms:
                    for x in sym.subterms(t):
                        if not (isinstance(x, tuple) and x and x[0] == 'cast' and x[1] in ('as_', 'IntToInt') and len(x) > 4):
                            continue
                        if x[4] in FLOAT_LIKE or x[3] in FLOAT_LIKE:
                            continue
                        roots = _arg_roots(x[2], b)
                        if not roots:
                            continue
                        # the inner cast of a round trip is judged through its outer comparison
                        ok = True
                        for root in roots:
                            atom = ('arg', root)
                            guarded = False
                            for g, v, _ in preds:
                                if isinstance(v, tuple):
                                    continue
                                if g[0] == 'bin' and g[1] in ('Lt', 'Le'):
                                    small, large = (g[2], g[3]) if v == 1 else (g[3], g[2])
                                    if W.depends(small, atom) == 'wide' and W.depends(large, atom) is None:
                                        guarded = True
                                if g[0] == 'bin' and g[1] == 'Eq' and v == 1:
                                    for a, o in ((g[2], g[3]), (g[3], g[2])):
                                        if a[0] == 'cast' and a[2][0] == 'cast' and a[2][2] == o and W.depends(o, atom) == 'wide':
                                            guarded = True
                            ok = ok and guarded
                        k = sym.show(effects.strip_uid(x))[:100]
                        casts[k] = casts.get(k, True) and ok
        for k, ok in sorted(casts.items()):
            n += 1
            key = 'R3/ctor-narrowing/%s/%s' % (b.defpath, k)
            role = 'a narrowed constructor argument is bounded (or round-trip checked) on its un-narrowed value first'
            if ok:
                ctx.ok('R3', role, b.defpath, '`%s` is dominated by an upper-bound / round-trip test of the wide value' % k, key=key)
            else:
                ctx.bad('R3', role, b.defpath, '`%s` narrows an argument that no dominating test bounds from above: an oversized argument wraps to a small, valid-looking value and a model over the wrong support is built' % k,
                        key=key, loc=rules.loc(b))
    ctx.extra['constructor_narrowings'] = n
    if n < 3:
        ctx.notes.append('fewer narrowing conversions of constructor arguments than on the reference tree (%d)' % n)


def check_python_errors(ctx, F):
    """Thorough tier, pybindings configuration: constructor errors are mapped, never unwrapped."""
    n = 0
    for b in F.bodies:
        if b.promoted is not None or not b.defpath.startswith(('pybindings::stream::model', '<pybindings::stream::model')):
            continue
        ev = None
        for blk, t in b.calls():
            c = callee(t)
            if not c or not c.get('name'):
                continue
            if c['name'].startswith('from_floating_point_probabilities') or c['name'].startswith('from_symbols_and_floating') or c['name'] == 'from_nonzero_fixed_point_probabilities':
                n += 1
                ev, paths = rules.evaluate(b)
                key = 'R2/py-error-mapping/%s@%s' % (b.defpath, c['name'])
                bad = None
                for r in paths or []:
                    for e in r.events:
                        if e['kind'] == 'call' and e['block'] == blk:
                            rt = e['result']
                            for e2 in r.events:
                                if e2['kind'] == 'call' and e2['name'] in ('unwrap', 'expect') and e2['args'] and e2['args'][0] == rt:
                                    bad = 'constructor result is unwrapped: invalid input panics instead of raising ValueError'
                anchored = b.defpath.startswith('pybindings::stream::model::Categorical::new') and b.dk != 'Closure'
                if bad and not anchored:
                    # a panic is an allowed way to fail (C19: "an error value or a panic"); only the anchored
                    # mechanism (Categorical::new -> ValueError) is held to the stronger, documented behaviour
                    ctx.ok('R2', 'Python front end fails cleanly on constructor errors', b.defpath, 'result of %s is unwrapped with expect(): invalid input raises a PanicException (allowed failure mode)' % c['name'], key=key)
                else:
                    (ctx.bad if bad else ctx.ok)('R2', 'Python front end maps constructor errors', b.defpath, bad or 'result of %s is not unwrapped (mapped / propagated)' % c['name'], key=key)
    ctx.extra['py_constructor_calls'] = n


def run(ctx):
    F = ctx.F
    check_validator_reachability(ctx, F)
    check_sibling_agreement(ctx, F)
    check_two_point(ctx, F)
    check_final_decision(ctx, F)
    check_constructor_narrowing(ctx, F)
    check_inferred_probability(ctx, F)
    check_zero_entry_counted(ctx, F)
    check_stored_budget_not_wrapped(ctx, F)
    check_table_growth_bounded(ctx, F)
    check_scaled_cumulative_clamped(ctx, F)
    check_duplicate_symbols(ctx, F)
    check_nondegenerate_support(ctx, F)
    if ctx.tier == 'thorough':
        from vlib import witness
        witness.run(ctx, 'C19')
        if 'pybindings' in ctx.facts_by_config:
            check_python_errors(ctx, ctx.facts_by_config['pybindings'])
    ctx.assume('IterableEntropyModel implementations handed to the generic conversions are valid models (safe trait; the memory-safety side of this assumption is C20\'s business)')
    return {
        'level': 'other',
        'explanation': 'Who-may-construct analysis over every literal of a model type (validator Ok-arm / conversion / inline guards, private producers discharged at callers), Engler-style sibling agreement of '
                       'argument checks (sign, length, count match), a two-point constant rule for comparisons against wrapping_pow2, and a dependence check of the validator\'s final decision. These are '
                       'necessary conditions of C19 for all inputs; whether an accepted table satisfies C03 numerically is value-level and not decided.',
        'trusted_base': ['rustc type checker + MIR construction', 'cfacts extractor'],
    }
