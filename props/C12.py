"""C12 — compressed size bound (claimed: only the word-count clause).

The statement has two parts.  The analytic bound on the number of *bits* (information content + rounding term) is
value-level and NOT decided.  Its last clause - "the number of words produced after n symbols never exceeds n plus a
constant that depends only on the type parameters" - is a counting fact that is visible in the shape of the code on
every path, and is decided here by loop-summarised effect counting (R5):

  W1  ANS: every path of encode_symbol appends at most one word to `bulk` (no loop around the flush).
  W2  range encoder: on every success path of encode_symbol, (words written) + (change of the held-back count) equals the
      number of window shifts, which is 0 or 1 (potential function shared with C07).
  W3  range encoder: sealing appends held-back + (0, 1 or 2) words (num_seal_words), and seal() writes exactly that many
      (shared with C08).
  W4  ANS: exporting appends the truncated chunks of `state`: (0 .. BITS - leading_zeros).step_by(Word::BITS), at most
      State::BITS / Word::BITS words.
Hence words(n) <= n + State::BITS/Word::BITS for the ANS coder and <= n + 2 for the range encoder, for all inputs.
"""
from vlib import sym, rules, effects, anchors
import props.C07 as c07
import props.C08 as c08
import props.C18 as c18

ANS = anchors.ANS
RENC = anchors.RENC
BULK = (1, 'deref', ('f', 'bulk'))


def check_ans_one_word_per_symbol(ctx, F):
    key = 'R5/one-word-per-symbol/' + ANS
    role = 'ANS encode_symbol appends at most one word per symbol'
    b = anchors.method(F, ANS, 'encode_symbol', 'stream::Encode')
    if b is None:
        return ctx.bad('R5', role, ANS, 'Encode::encode_symbol for AnsCoder not found', key=key)
    ev, paths = rules.evaluate(b)
    ctx.touch(b, calls=sum(1 for _ in b.calls()))
    if not paths:
        return ctx.unresolved('R5', role, b.defpath, 'not evaluated', key=key)
    worst = 0
    for r in paths:
        writes = [e for e in r.events if e['kind'] == 'call' and e.get('uid') is not None and any(p[:len(BULK)] == BULK for p in e['mut_paths'])]
        in_loop = [e for e in writes if e.get('loops')]
        if r.end == 'backedge' and writes:
            # a loop may still run at most once because of the state invariant (value-level): not decided, never an alarm
            return ctx.unresolved('R5', role, b.defpath, 'a loop iteration writes to bulk: the trip count depends on the state invariant, which this rule does not decide', key=key)
        others = [e for e in writes if not e['callee'].endswith('WriteWords::write')]
        if others:
            return ctx.bad('R5', role, b.defpath, 'bulk is handed to %s, whose word count is unknown' % others[0]['callee'], key=key, loc=rules.loc(b))
        worst = max(worst, len(writes))
    if any(r.end == 'backedge' for r in paths):
        # a loop that does not write is harmless, but say so
        ctx.notes.append('ANS encode_symbol contains a loop without writes')
    if worst > 1:
        return ctx.bad('R5', role, b.defpath, 'a path appends %d words for one symbol' % worst, key=key, loc=rules.loc(b))
    return ctx.ok('R5', role, b.defpath, '%d paths, each appends at most %d word(s), none inside a loop' % (len(paths), worst), key=key)


def check_seal_bound(ctx, F):
    key = 'R5/seal-words-bound/' + RENC
    role = 'sealing appends at most held-back + State::BITS / Word::BITS words (2 for State = two Words)'
    parts = anchors.range_encoder_parts(F)
    b = parts.get('num_seal_words')
    if b is None:
        return ctx.unresolved('R5', role, RENC, 'num_seal_words not resolved', key=key)
    ev, paths = rules.evaluate(b)
    ctx.touch(b)
    extra = set()
    for r in paths or []:
        if r.end != 'return':
            continue
        try:
            held = c07.canon_held(c07.held_initial(r))
        except effects.Unresolved:
            if not sym.is_int(r.ret):
                return ctx.unresolved('R5', role, b.defpath, 'a path returns %s without testing the situation' % sym.show(r.ret)[:80], key=key)
            held = ('int', 0)
        d = sym.affine_sub(sym.affine(c07.canon_held(r.ret)), sym.affine(held))
        # what is added to the held-back words may depend on the two widths only (State::BITS / Word::BITS zero words for wide states)
        import props.C11 as c11
        for ratio in c11.RATIOS:
            v = d[1]
            for kx, (c, atom) in d[0].items():
                a = c11._const_at(atom, ratio)
                if a is None:
                    return ctx.unresolved('R5', role, b.defpath, 'return value %s is not held-back + a constant of the type parameters' % sym.show(r.ret)[:80], key=key)
                v += c * a
            extra.add((ratio, v))
    if not extra:
        return ctx.unresolved('R5', role, b.defpath, 'no return path', key=key)
    over = sorted((ratio, v) for ratio, v in extra if v > ratio or v < 0)
    if over:
        return ctx.bad('R5', role, b.defpath, 'num_seal_words = held-back + %d for State = %d Words: more than State::BITS / Word::BITS (or negative)' % (over[0][1], over[0][0]), key=key, loc=rules.loc(b))
    return ctx.ok('R5', role, b.defpath, 'num_seal_words = held-back + c with 0 <= c <= State::BITS / Word::BITS (c in %s for State = 2 Words)' % sorted({v for ratio, v in extra if ratio == 2}), key=key)


def check_export_bound(ctx, F):
    key = 'R5/export-words-bound/' + ANS
    role = 'exporting the ANS state appends at most State::BITS / Word::BITS words'
    ch = c18._chunker_counts_ceil(F)
    if ch is None:
        return ctx.unresolved('R5', role, ANS, 'state chunker is not (0 .. BITS - leading_zeros(x)).step_by(Chunk::BITS) + length-preserving adapters', key=key)
    ctx.touch(ch)
    return ctx.ok('R5', role, ch.defpath, 'chunk count = ceil((BITS - leading_zeros(state)) / Word::BITS) <= State::BITS / Word::BITS (std contract of StepBy over Range)', key=key)


_WRAPPERS = ('::unwrap', '::expect', '::ok_or_else', '::ok_or', 'BitArray::into_nonzero', 'BitArray::into_nonzero_unchecked', '::get', '::unwrap_unchecked', '::new_unchecked', 'NonZero::<T>::new', '::unwrap_or_else')


def _width_kind(t, RANGE):
    """'width': t scales the previous width (grammar W ::= range | W >> c | W << c | W * x | wrappers(W));
    'position': t mentions `lower` or no previous width at all; None: something else."""
    LOWER = RANGE[:-1] + (('f', 'lower'),)
    is_pos = lambda x: isinstance(x, tuple) and x and x[0] == 'in' and x[1][:len(LOWER)] == LOWER

    def mentions(t):
        """does t mention range / lower outside the arguments of an entropy-model call (whose result is the symbol's share)?"""
        if t == ('in', RANGE) or is_pos(t):
            return True
        if not isinstance(t, tuple):
            return False
        if t and t[0] == 'call' and isinstance(t[1], str) and ('EncoderModel::' in t[1] or 'DecoderModel::' in t[1]):
            return False
        return any(mentions(x) for x in t if isinstance(x, tuple))

    def w(t):
        if t == ('in', RANGE) or (isinstance(t, tuple) and t and t[0] == 'in' and t[1][:len(RANGE)] == RANGE):
            return True
        if not isinstance(t, tuple) or not t:
            return False
        if t[0] in ('unwrap', 'cast'):
            return w(t[1] if t[0] == 'unwrap' else t[2])
        if t[0] == 'call' and isinstance(t[1], str) and t[1].endswith(_WRAPPERS) and t[2]:
            return w(t[2][0])
        if t[0] == 'payload':
            return w(t[1])
        if t[0] == 'bin':
            op = t[1].split('.')[0]
            if op in ('Shr', 'Shl'):
                return w(t[2]) and not mentions(t[3])
            if op == 'Mul':
                for a, b in ((t[2], t[3]), (t[3], t[2])):
                    if w(a) and not mentions(b):
                        return True
        return False
    if w(t):
        return 'width'
    # peel wrappers to look at the core
    core = t
    while isinstance(core, tuple) and core and ((core[0] == 'call' and isinstance(core[1], str) and core[1].endswith(_WRAPPERS) and core[2]) or core[0] == 'unwrap'):
        core = core[2][0] if core[0] == 'call' else core[1]
    if isinstance(core, tuple) and core and core[0] == 'bin' and core[1].split('.')[0] in ('Sub', 'Add') and (sym.contains(core, is_pos)):
        return 'position'
    if not sym.contains(t, lambda x: x == ('in', RANGE)):
        return 'position'
    return None


def check_width_conserved(ctx, F):
    """The range coder spends -log2(new width / old width) bits on a symbol; the advertised overhead is what the rounding in
    `range >> PRECISION` loses.  That accounting presupposes that the interval width is only ever *scaled*: every value a coding
    step stores in `range` is computed from the previous `range` (the symbol's share of it, or that share shifted by one word).
    A step that replaces the width by something that does not depend on the previous width (e.g. clips it to the distance to the
    wrap-around) throws interval away - or invents it - without any symbol accounting for it, even when encoder and decoder do
    so consistently."""
    RANGE = (1, 'deref', ('f', 'state'), ('f', 'range'))
    steps = [(c08.RENC, 'encode_symbol', 'stream::Encode'), (anchors.RDEC, 'decode_symbol', 'stream::Decode')]
    for adt, name, tr in steps:
        b = anchors.method(F, adt, name, tr)
        key = 'R1/width-conserved/%s::%s' % (adt, name)
        role = 'every new interval width is computed from the previous width'
        if b is None:
            ctx.bad('R1', role, adt, '%s not found' % name, key=key)
            continue
        ctx.touch(b)
        ev, paths = rules.evaluate(b)
        if paths is None:
            ctx.unresolved('R1', role, b.defpath, 'too many paths', key=key)
            continue
        n = 0
        bad = None
        for r in paths:
            for e in r.events:
                if e['kind'] == 'write' and e['path'][:len(RANGE)] == RANGE:
                    n += 1
                    k = _width_kind(e['value'], RANGE)
                    if k == 'position':
                        bad = 'a step stores %s in `range`: a width computed from the position `lower` (or from nothing), not by scaling the previous width - interval is discarded (or gained) outside the per-symbol accounting, so the size bound no longer follows from the symbols\' probabilities' % sym.show(e['value'])[:120]
                    elif k != 'width' and not bad:
                        bad = ('unresolved', 'store %s is not in the scaling grammar (range >> c, * probability, << c)' % sym.show(e['value'])[:100])
                elif e['kind'] == 'call' and any(a[0] == 'ref' and a[2] and a[1][:len(RANGE)] == RANGE for a in e['args']):
                    n += 1
                    bad = bad or ('unresolved', 'range is handed to %s by mutable reference' % e['callee'])
        if isinstance(bad, tuple):
            ctx.unresolved('R1', role, b.defpath, bad[1], key=key)
        elif bad:
            ctx.bad('R1', role, b.defpath, bad, key=key, loc=rules.loc(b))
        elif n == 0:
            ctx.unresolved('R1', role, b.defpath, 'no store to `range` found', key=key)
        else:
            ctx.ok('R1', role, b.defpath, '%d store(s)/path(s) to range, each a function of the previous range' % n, key=key)


def run(ctx):
    F = ctx.F
    check_ans_one_word_per_symbol(ctx, F)
    c07.check_held_back(ctx, F, only_potential=True)
    check_seal_bound(ctx, F)
    check_width_conserved(ctx, F)
    c08.check_encoder_guard(ctx, F)
    check_export_bound(ctx, F)
    c18.check_ans_sizes(ctx, F)      # num_words() = remaining(bulk) + chunks appended on export
    if ctx.tier == 'thorough':
        from vlib import witness
        witness.run(ctx, 'C12')      # "with the default presets the per-symbol term is below 0.006 bit": a const assertion over the preset aliases
    ctx.assume('StepBy over a Range of length L with step s yields ceil(L/s) items (std contract)')
    return {
        'level': 'other',
        'explanation': 'Decided: the word-count clause, the width-conservation condition of the bit bound (every store to `range` scales the previous width), and - thorough tier - the preset clause as a const assertion the compiler evaluates (S - W - P >= 8 for every default coder/model pair). Word count: loop-summarised effect counting shows that the ANS coder appends at most one word per encoded symbol and at most State::BITS/Word::BITS '
                       'words on export, and that for the range encoder (words written + held-back words) grows by the number of window shifts (0 or 1) per symbol while sealing adds held-back + at most 2 words. '
                       'The analytic bound on the number of bits (information content + rounding term, the 0.006 bit/symbol figure) is value-level and not decided.',
        'trusted_base': ['rustc type checker + MIR construction', 'cfacts extractor', 'iterator length algebra (vlib/effects.py)', 'std iterator contracts'],
    }
