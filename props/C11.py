"""C11 — range-coded data is unaffected by whatever words follow it (claimed: the sealing clauses only).

The statement is an interval-arithmetic fact: the words seal() emits pin a sub-interval of the final coder interval
[lower, lower + range) whatever the decoder shifts in afterwards.  Its value-level core (that the emitted prefix interval
lies inside the final interval for every lower/range) is NOT decided.  What is visible in the shape of the code, and is
a necessary condition each - breaking it breaks the property for some message and suffix - is decided here:

  S1  the sealing addend is exact.  seal() emits the top word(s) of  point = lower +w A  shifted by k.  A decoder that
      sees an all-zero suffix reconstructs floor(point / 2^k) * 2^k, which is >= lower only if A >= 2^k - 1; one that
      sees anything reconstructs a value <= point + ..., which stays below lower + range (>= 2^E by the renormalisation
      bound) only if A <= 2^E - 1.  With k = E (read from the code) both hold iff A = 2^k - 1.
  S2  the second word.  When the top word of lower + range equals the top word of point, one word does not pin the
      interval (an all-ones suffix would leave it): seal() then appends a second word, and that word is zero (any other
      value moves the prefix interval up).  The deciding test compares the emitted word with the top word of
      lower +w range under the same shift.
  S6  every admitted width.  The zero word narrows the prefix interval to 2^(k - W); only a distance of 1 to the end of the
      final interval is guaranteed, so the number of zero words must grow with State::BITS / Word::BITS.  The pinned tree
      emitted one zero word for every width - a genuine defect for wide states (F22, repaired in /repo e721871).
  S3  only appending.  seal() and encode_symbol touch the sink through WriteWords::write alone (a message can be started
      on a sink that already holds data, sealed messages can be stored back to back).
  S4  length independence of the reader.  RangeDecoder's window reader and decode_symbol use the source through
      ReadWords::read alone - never remaining(), maybe_exhausted(), pos() or a length - so the only way the amount of
      data behind the message can matter is a `None` from read(), and
  S5  a missing word is replaced by zeros (shared with C18's tolerance rule), the one suffix the sealing rule is tight for.
"""
from vlib import sym, rules, anchors, pow2
import props.C02 as c02
import props.C08 as c08
import props.C18 as c18

RENC = anchors.RENC
RDEC = anchors.RDEC
BULK = (1, 'deref', ('f', 'bulk'))
WB = pow2.bits_of('Word')


def check_addend_exact(ctx, F):
    key = 'R10/seal-addend-exact/' + RENC
    role = 'the sealing addend is exactly 2^k - 1 for the emission shift k'
    seal = anchors.range_encoder_parts(F).get('seal')
    if seal is None:
        return ctx.bad('R10', role, RENC, 'seal() not found', key=key)
    ctx.touch(seal)
    _, spaths = rules.evaluate(seal)
    A, k, _ = c02._seal_addend(spaths, F)
    if A is None:
        return ctx.unresolved('R10', role, seal.defpath, 'sealing addend / emission shift not recognised', key=key)
    want = pow2.P2([(k, 1), (pow2.E0, -1)])
    d = A.plus(want, -1)
    if d.sign() == 'zero':
        return ctx.ok('R10', role, seal.defpath, 'A = %s, words are emitted from bit %s upwards' % (A.show(), sym.affine_str(k)), key=key)
    sg = d.sign(exps_nonneg=True)
    if sg in ('pos', 'nonneg'):
        return ctx.bad('R10', role, seal.defpath, 'A = %s exceeds 2^k - 1 = %s: at the minimal range the point is not inside the final interval' % (A.show(), want.show()), key=key, loc=rules.loc(seal))
    if sg == 'neg':
        return ctx.bad('R10', role, seal.defpath, 'A = %s is below 2^k - 1 = %s: dropping the low %s bits of lower + A can fall below lower, so a decoder that shifts in zeros after the sealed words leaves the final interval' % (
            A.show(), want.show(), sym.affine_str(k)), key=key, loc=rules.loc(seal))
    return ctx.unresolved('R10', role, seal.defpath, 'A - (2^k - 1) = %s: sign not decidable' % d.show(), key=key)


def _top_word(t, k_key):
    """x if t is  (x >> k) as Word  with the given shift."""
    t = c18.peel(t)
    while isinstance(t, tuple) and t and t[0] == 'cast':
        t = t[2]
    if isinstance(t, tuple) and t and t[0] == 'bin' and t[1] == 'Shr':
        e = pow2.width_exp(t[3])
        if e is not None and pow2._exp_key(e) == k_key:
            return t[2]
    return None


def _const_at(t, ratio, w=8):
    """value of a term over the two width constants for State::BITS = ratio * Word::BITS (None if it mentions anything else)."""
    t = c18.peel(t)
    if sym.is_int(t):
        return t[1]
    if not isinstance(t, tuple) or not t:
        return None
    if t[0] == 'c':
        if 'State' in t[1] and 'BITS' in t[1]:
            return ratio * w
        if 'Word' in t[1] and 'BITS' in t[1]:
            return w
        return None
    if t[0] == 'cast':
        return _const_at(t[2], ratio, w)
    if t[0] == 'bin':
        x, y = _const_at(t[2], ratio, w), _const_at(t[3], ratio, w)
        if x is None or y is None:
            return None
        op = t[1].split('.')[0]
        if op == 'Add':
            return x + y
        if op == 'Sub':
            return x - y
        if op == 'Mul':
            return x * y
        if op == 'Div' and y:
            return x // y
    return None


RATIOS = (2, 4, 8, 16)     # every ratio of the primitive unsigned types (u8 .. u128)


def _seal_summary(F, seal):
    """Per successful path of seal() that writes the point word: what follows it.
    Returns (k, records) with records = dict(equal=True/False/None, straight=[word terms], trips=[trip terms], loops_ok=bool,
    nonwrapping=term or None); or (None, reason)."""
    from vlib import effects
    _, spaths = rules.evaluate(seal)
    A, k, _ = c02._seal_addend(spaths, F)
    if A is None:
        return None, 'sealing addend not recognised'
    kk = pow2._exp_key(k)
    lower_is = lambda x: c18._is_field(x, 'state', 'lower')
    range_is = lambda x: sym.contains(x, lambda y: c18._is_field(y, 'state', 'range'))
    is_point = lambda x: isinstance(x, tuple) and x and x[0] == 'bin' and x[1] == 'Add.w' and any(lower_is(o) for o in (x[2], x[3])) and not range_is(x)
    is_upper = lambda x: isinstance(x, tuple) and x and x[0] == 'bin' and x[1] == 'Add.w' and any(lower_is(o) for o in (x[2], x[3])) and range_is(x)

    def nonwrapping_upper(x):
        if not isinstance(x, tuple) or not x:
            return False
        if x[0] == 'bin' and x[1].split('.')[0] == 'Add' and x[1] != 'Add.w' and any(lower_is(o) for o in (x[2], x[3])) and range_is(x):
            return True
        if x[0] == 'call' and isinstance(x[1], str) and x[1].endswith(('::saturating_add', '::checked_add', '::overflowing_add', '::unchecked_add')) and x[2] and any(lower_is(o) for o in x[2]) and range_is(x):
            return True
        return False

    def is_point_write(e):
        x = _top_word(rules.inline_pure(F, e['args'][1]), kk)
        return x is not None and is_point(rules.inline_pure(F, x))
    # what one iteration of each loop writes (loops are identified by their head block)
    per_iter = {}
    for r in spaths or []:
        if r.end != 'backedge':
            continue
        les = [(i, e) for i, e in enumerate(r.events) if e['kind'] == 'loop_enter']
        if not les:
            continue
        i0, le = les[-1]
        ws = [e for e in r.events[i0:] if c08.is_call_on(e, 'WriteWords::write', BULK)]
        per_iter.setdefault(le['head'], []).append([e['args'][1] for e in ws])
    recs = []
    for r in spaths or []:
        if r.end != 'return' or rules.ret_shape(r.ret)[0] != 'Ok':
            continue
        idx = [i for i, e in enumerate(r.events) if c08.is_call_on(e, 'WriteWords::write', BULK) and is_point_write(e)]
        if not idx:
            continue
        ip = idx[-1]
        rec = dict(equal=None, straight=[], trips=[], loops_ok=True, nonwrapping=None)
        for e in r.events[ip + 1:]:
            if c08.is_call_on(e, 'WriteWords::write', BULK):
                rec['straight'].append(e['args'][1])
            if e['kind'] == 'call' and str(e['callee']).startswith('core::iter::') and str(e['callee']).endswith(('::try_for_each', '::for_each', '::try_fold', '::fold')):
                # words written by a closure that an adaptor drives over a range: one trip per item
                cbs = [x[1][1] for a in e.get('args_val') or [] if isinstance(a, tuple) for x in sym.subterms(a)
                       if isinstance(x, tuple) and x and x[0] == 'agg' and isinstance(x[1], tuple) and x[1][0] == 'closure']
                writes_per_call = None
                for cd in cbs:
                    cb = F.by_def.get(cd)
                    _, cp = rules.evaluate(cb) if cb is not None else (None, None)
                    ws = [[ce for ce in q.events if ce['kind'] == 'call' and ce['callee'].endswith('WriteWords::write')] for q in cp or [] if q.end == 'return']
                    if ws and all(len(w) == 1 and (pow2._is_zero(c18.peel(w[0]['args'][1])) or sym.show(c18.peel(w[0]['args'][1])) == 'zero()') for w in ws):
                        writes_per_call = 1
                if writes_per_call == 1 and str(e['callee']).endswith(('::try_for_each', '::try_fold')):
                    try:
                        rec['trips'].append(effects.IterModel(r).length(e['args_val'][0]))
                    except Exception:
                        rec['trips'].append(None)
                elif cbs:
                    rec['loops_ok'] = False
            if e['kind'] == 'loop_enter':
                trip = None
                for pth, v in e['pre'].items():
                    if v[0] == 'call' and 'into_iter' in v[1]:
                        try:
                            trip = effects.IterModel(r).length(v)
                        except Exception:
                            trip = None
                rec['trips'].append(trip)
                its = per_iter.get(e['head'], [])
                if not its or any(len(w) != 1 or not (pow2._is_zero(c18.peel(w[0])) or sym.show(c18.peel(w[0])) == 'zero()') for w in its):
                    rec['loops_ok'] = False
        for t, v, _ in r.preds:
            t = rules.inline_pure(F, t)
            nw = [x for x in sym.subterms(t) if nonwrapping_upper(x)]
            if nw:
                rec['nonwrapping'] = nw[0]
            if isinstance(v, tuple) or not (isinstance(t, tuple) and t and t[0] == 'bin' and t[1].split('.')[0] in ('Eq', 'Ne')):
                continue
            a, b = _top_word(t[2], kk), _top_word(t[3], kk)
            if a is None or b is None:
                continue
            if (is_point(a) and is_upper(b)) or (is_point(b) and is_upper(a)):
                rec['equal'] = bool(v) == (t[1].split('.')[0] == 'Eq')
        recs.append(rec)
    return k, recs


def _words_after(rec, ratio):
    """number of words that follow the point word on this path for State = ratio Words (None if not a constant)."""
    n = len(rec['straight'])
    for t in rec['trips']:
        v = _const_at(t, ratio) if t is not None else None
        if v is None:
            return None
        n += max(v, 0)
    return n


def check_second_word(ctx, F):
    key = 'R4/seal-second-word/' + RENC
    role = 'zero words are appended exactly when one word does not pin the interval'
    seal = anchors.range_encoder_parts(F).get('seal')
    if seal is None:
        return ctx.bad('R4', role, RENC, 'seal() not found', key=key)
    k, recs = _seal_summary(F, seal)
    if k is None:
        return ctx.unresolved('R4', role, seal.defpath, recs, key=key)
    bad = unk = None
    n_two = n_one = 0
    for rec in recs:
        if rec['nonwrapping'] is not None:
            bad = 'the end of the final interval is computed as %s, without wrap-around: when lower + range passes 2^State::BITS (the coder holds back words) the top word compared with the point word is wrong and the second sealing word is omitted where it is needed' % sym.show(rec['nonwrapping'])[:90]
        words2 = _words_after(rec, 2)
        if rec['equal'] is None:
            unk = unk or 'a path writes the point word without a recognisable comparison of the top words of point and lower + range'
            continue
        if rec['equal']:
            n_two += 1
            if words2 is None or not rec['loops_ok']:
                unk = unk or 'the words after the point word are written by a loop the rule cannot count'
            elif words2 != 1:
                bad = 'on the path where the top words of point and of lower + range coincide, %d word(s) follow the point word for State = 2 Words (one is needed): a suffix of all-ones words moves the decoder\'s point past the end of the final interval' % words2
            elif any(not (pow2._is_zero(c18.peel(w)) or sym.show(c18.peel(w)) == 'zero()') for w in rec['straight']):
                bad = 'a word that follows the point word is %s, not zero: the prefix interval the decoder can land in starts above the point and can leave the final interval' % sym.show(rec['straight'][0])[:60]
        else:
            n_one += 1
            if rec['straight'] or rec['trips']:
                unk = unk or 'words follow the point word on the path where one word suffices'
    if not bad and recs and not n_two and all(not rec['straight'] and not rec['trips'] for rec in recs):
        bad = 'no path of seal() appends a word after the point word: when the top word of lower + range equals the point word, one word does not pin the interval and an all-ones suffix decodes to a different last symbol'
    if bad:
        return ctx.bad('R4', role, seal.defpath, bad, key=key, loc=rules.loc(seal))
    if unk or not n_two or not n_one:
        return ctx.unresolved('R4', role, seal.defpath, unk or 'paths with one / several sealing words not both found (%d / %d)' % (n_one, n_two), key=key)
    return ctx.ok('R4', role, seal.defpath, '%d path(s) with top words equal append zero words (one for State = 2 Words), %d path(s) with top words different append none' % (n_two, n_one), key=key)


def check_pins_every_width(ctx, F):
    """S6.  After the point word and j zero words the decoder can land anywhere in a prefix interval of width 2^(k - j*W)
    that starts at  base = (point >> k) << k.  The sealing addend guarantees  lower <= base  and  base < lower + range, i.e.
    only that the distance from base to the end of the final interval is at least 1.  So the emitted words pin the message
    for every state only if  k - j*W <= 0  for the number j of zero words seal() emits when one word does not suffice.  j may
    depend on the widths (a loop over State::BITS / Word::BITS); it is evaluated for State = 2, 4, 8 and 16 Words (all ratios of the primitive unsigned types)."""
    key = 'R10/seal-pins-every-width/' + RENC
    role = 'the sealing words pin the message for every admitted (Word, State)'
    seal = anchors.range_encoder_parts(F).get('seal')
    if seal is None:
        return ctx.bad('R10', role, RENC, 'seal() not found', key=key)
    k, recs = _seal_summary(F, seal)
    if k is None:
        return ctx.unresolved('R10', role, seal.defpath, recs, key=key)
    ctx.assume('the range coders assert State::BITS >= 2 * Word::BITS and nothing more (witnessed in the thorough tier of C02); State::BITS is a multiple of Word::BITS (both are powers of two)')
    eq = [rec for rec in recs if rec['equal']] or recs
    if not eq:
        return ctx.unresolved('R10', role, seal.defpath, 'no path writes the point word', key=key)
    if any(not rec['loops_ok'] for rec in eq):
        return ctx.unresolved('R10', role, seal.defpath, 'a loop after the point word writes something other than one zero word per iteration', key=key)
    residual = {}
    for ratio in RATIOS:
        js = [_words_after(rec, ratio) for rec in eq]
        kw = _const_at_exp(k, ratio)
        if kw is None or any(j is None for j in js):
            return ctx.unresolved('R10', role, seal.defpath, 'the number of sealing words (or the emission shift) is not a function of the two widths', key=key)
        residual[ratio] = kw - 8 * min(js)       # log2 of the width of the prefix interval after the last sealing word (Word::BITS = 8)
    if all(v <= 0 for v in residual.values()):
        return ctx.ok('R10', role, seal.defpath, 'when one word does not pin the interval, the zero words that follow narrow the prefix interval to a single value for State = 2, 4, 8, 16 Words (residual log-widths %s)' % sorted(residual.items()), key=key)
    if residual[2] <= 0:
        return ctx.bad('R10', role + ' (State wider than two Words)', seal.defpath, 'the words seal() emits after the point word leave a prefix interval of a single value for State = 2 Words, but of 2^%d values for State = 4 Words (Word::BITS = 8), '
                       'while only a distance of 1 between the truncated point and the end of the final interval is guaranteed. For State wider than two Words an all-ones suffix can therefore move the decoder past the final interval '
                       '(RangeEncoder<u8, u32>, probabilities [3, 3, 160, 90] at PRECISION 8, message [0, 3, 0, 1, 0, 0, 1] followed by ff ff ff decodes the last symbol as 2)' % residual[4], key=key + '/wider-than-two-words', loc=rules.loc(seal))
    return ctx.bad('R10', role, seal.defpath, 'the prefix interval after the sealing words has more than one value even for State = 2 Words: seal() does not append enough zero words, so an all-ones suffix moves the decoder past the end of the final interval whenever one word does not pin it', key=key, loc=rules.loc(seal))


def _const_at_exp(e, ratio, w=8):
    v = e[1]
    for kx, (c, atom) in e[0].items():
        name = sym.show(atom)
        if 'State' in name and 'BITS' in name:
            v += c * ratio * w
        elif 'Word' in name and 'BITS' in name:
            v += c * w
        else:
            return None
    return v


def check_append_only(ctx, F):
    parts = anchors.range_encoder_parts(F)
    for name, b in (('seal', parts.get('seal')), ('encode_symbol', anchors.method(F, RENC, 'encode_symbol', 'stream::Encode'))):
        key = 'R1/append-only/%s::%s' % (RENC, name)
        role = 'the sink is only appended to'
        if b is None:
            ctx.bad('R1', role, RENC, '%s not found' % name, key=key)
            continue
        ctx.touch(b)
        _, paths = rules.evaluate(b)
        if paths is None:
            ctx.unresolved('R1', role, b.defpath, 'too many paths', key=key)
            continue
        other = set()
        n = 0
        for r in paths:
            for e in r.events:
                if e['kind'] == 'call' and any(p[:len(BULK)] == BULK for p in e.get('mut_paths') or []):
                    n += 1
                    if not e['callee'].endswith('WriteWords::write'):
                        other.add(e['callee'])
                if e['kind'] == 'write' and e['path'][:len(BULK)] == BULK:
                    other.add('direct assignment')
        if other:
            ctx.bad('R1', role, b.defpath, 'the sink is also touched through %s: words already in the sink (a previous sealed message) are no longer left alone' % sorted(other)[0], key=key, loc=rules.loc(b))
        elif n == 0:
            ctx.unresolved('R1', role, b.defpath, 'no write to the sink found', key=key)
        else:
            ctx.ok('R1', role, b.defpath, 'bulk is touched by WriteWords::write only (%d call(s)/path(s))' % n, key=key)


def check_reader_length_blind(ctx, F):
    reader, _ = anchors.window_reader(F)
    dec = anchors.method(F, RDEC, 'decode_symbol', 'stream::Decode')
    for name, b in (('window reader', reader), ('decode_symbol', dec)):
        key = 'R3/length-blind/%s/%s' % (RDEC, name)
        role = 'the decoder uses its source through read() alone'
        if b is None:
            ctx.bad('R3', role, RDEC, '%s not found' % name, key=key)
            continue
        ctx.touch(b)
        _, paths = rules.evaluate(b)
        if paths is None:
            ctx.unresolved('R3', role, b.defpath, 'too many paths', key=key)
            continue
        other = set()
        n = 0
        is_src = lambda a: (a[0] == 'ref' and (a[1][:len(BULK)] == BULK or a[1][0] == 1 and b is reader)) or (a[0] == 'in' and a[1][:len(BULK)] == BULK) or (b is reader and a == ('arg', 1))
        for r in paths:
            for e in r.events:
                if e['kind'] != 'call' or not any(is_src(a) for a in e['args']):
                    continue
                n += 1
                if not e['callee'].endswith('ReadWords::read'):
                    other.add(e['callee'])
        if other:
            ctx.bad('R3', role, b.defpath, 'the source is also consulted through %s: how much data follows the message can then change what is decoded' % sorted(other)[0], key=key, loc=rules.loc(b))
        elif n == 0:
            ctx.unresolved('R3', role, b.defpath, 'no use of the source found', key=key)
        else:
            ctx.ok('R3', role, b.defpath, 'only ReadWords::read (%d call(s)/path(s))' % n, key=key)


def run(ctx):
    F = ctx.F
    check_addend_exact(ctx, F)
    check_second_word(ctx, F)
    check_pins_every_width(ctx, F)
    check_append_only(ctx, F)
    check_reader_length_blind(ctx, F)
    c18.check_reader_zero_fill(ctx, F)
    c02.check_seal_point(ctx, F)
    ctx.assume('width differences in exponents (State::BITS - Word::BITS) are non-negative: enforced by the coders\' compile-time assertions')
    ctx.assume('backends honour the ReadWords/WriteWords contracts (C17 for the provided ones)')
    return {
        'level': 'other',
        'explanation': 'Necessary structural conditions of suffix independence, for all messages, suffixes and (Word, State): the sealing addend is exactly 2^k - 1 for the emission shift k (power-of-two polynomials), so the truncated '
                       'point is >= lower and the point is inside the minimal interval; a second word is appended exactly when the top words of point and lower + range coincide, and it is zero; seal() and encode_symbol only append '
                       'to the sink; the decoder uses its source through read() alone and replaces a missing word by zeros. Not decided: the interval arithmetic itself (that the prefix interval of the emitted words lies inside '
                       '[lower, lower + range) for every lower and range), which is value-level.',
        'trusted_base': ['rustc type checker + MIR construction', 'cfacts extractor'],
    }
