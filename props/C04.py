"""C04 — ANS decoding is invertible on arbitrary bits (partial).

Statically decided clauses:
  1. same-source export: `bit_array_to_chunks_truncated` drops leading zero chunks, which is lossless only above
     the marker bit; every exporter (into_compressed, into_binary, iter_compressed, the view guards, num_words)
     must therefore apply it to the unmodified `state`                                              (R4)
  2. marker pairing: from_binary starts from the single marker bit; the raw-binary view and the consuming raw
     export both drop exactly one leading chunk and require it to equal Word::one()                 (R5)
  3. from_binary cannot fail in the front end: its only Err is the backend's read error             (R2)
  4. refill-threshold agreement: the import loops (from_binary, read_initial_state) and the decoder's refill
     test compare the state with the same threshold, with the same strictness                      (R4)
Not decided: encode(decode(bits)) == bits for all states; exactness of num_valid_bits.
"""
from vlib import sym, rules, effects, anchors
import props.C08 as c08

ANS = c08.ANS


def state_atom(t):
    return t[0] == 'in' and t[1][-1] == ('f', 'state') and (t[1][:-1] in ((1,), (1, 'deref'), (1, 'deref', ('f', 'inner'), 'deref')))


def check_same_source(ctx, F):
    chunker = anchors.state_chunker(F)
    if chunker is None:
        ctx.bad('R4', 'anchor: state chunker', ANS, 'the function into_compressed uses to chunk the state could not be resolved', key='R4/anchor/chunker')
        return
    exporters = []
    for b in F.bodies:
        if b.promoted is not None or '::tests::' in b.defpath or b.dk not in ('Fn', 'AssocFn'):
            continue
        if not (b.file.endswith('stream/stack.rs')):
            continue
        if chunker is not None and any((rules.callee(t) or {}).get('def') == chunker.defpath for _, t in b.calls()):
            exporters.append(b)
    ctx.extra['state_exporters'] = len(exporters)
    ctx.floor('R4', 'floor: exporters of the ANS state', ANS, len(exporters), 6, 'only %d functions chunk the state (>= 6 on the reference tree)' % len(exporters), key='R4/floor/exporters')
    for b in exporters:
        ev, paths = rules.evaluate(b)
        ctx.touch(b, calls=sum(1 for _ in b.calls()))
        key = 'R4/same-source-export/' + b.defpath
        role = 'the truncating chunker is applied to the unmodified state'
        bad = None
        n = 0
        for r in paths or []:
            for e in r.events:
                if e['kind'] == 'call' and e['callee'] == chunker.defpath:
                    n += 1
                    a = e['args'][0]
                    if not state_atom(a):
                        bad = 'chunks `%s` instead of `state` itself: leading zero words of the payload (below the marker) are dropped at %s' % (sym.show(a)[:120], e['span'].split('-')[0])
        if bad:
            ctx.bad('R4', role, b.defpath, bad, key=key, loc=rules.loc(b))
        elif n == 0:
            ctx.unresolved('R4', role, b.defpath, 'chunker call not reached', key=key)
        else:
            ctx.ok('R4', role, b.defpath, '%d call(s), argument is self.state' % n, key=key)
        # order: the chunker yields the most significant chunk first; everything that emits chunks (appends them to bulk,
        # chains them behind bulk's words) must emit the least significant first, i.e. consume `.rev()` of it
        emitters = []
        # loops whose body writes words (a loop that only reads, e.g. one that takes words back after a failed write, emits nothing)
        writer_heads = set()
        for r in paths or []:
            if r.end != 'backedge':
                continue
            les = [(i, e) for i, e in enumerate(r.events) if e['kind'] == 'loop_enter']
            if les and any(e['kind'] == 'call' and e['callee'].endswith('WriteWords::write') for e in r.events[les[-1][0]:]):
                writer_heads.add(les[-1][1]['head'])
        for r in paths or []:
            for e in r.events:
                writes_in_loop = e['kind'] == 'loop_enter' and e['head'] in writer_heads
                if e['kind'] == 'call' and e['callee'].endswith(('WriteWords::extend_from_iter', 'Iterator::chain')) and len(e.get('args_val') or e['args']) >= 2:
                    emitters.append((e['callee'].rsplit('::', 1)[-1], (e.get('args_val') or e['args'])[1], e.get('span', '')))
                if e['kind'] == 'loop_enter' and writes_in_loop:
                    for k, v in e['pre'].items():
                        if isinstance(v, tuple) and v and v[0] == 'call' and str(v[1]).endswith('IntoIterator::into_iter'):
                            src = v[2][0]
                            if isinstance(src, tuple) and src and src[0] == 'call' and str(src[1]).endswith('Iterator::enumerate') and src[2]:
                                src = src[2][0]       # `.enumerate()` only numbers the items
                            emitters.append(('for-loop that writes', src, ''))
        if emitters:
            k2 = 'R4/chunk-order/' + b.defpath
            role2 = 'state chunks are emitted least significant first (the chunker is consumed through .rev())'
            wrong = [(what, it) for what, it, sp in emitters if not (isinstance(it, tuple) and it and it[0] == 'call' and str(it[1]).endswith('Iterator::rev')
                                                                      and not (it[2][0][0] == 'call' and str(it[2][0][1]).endswith('Iterator::rev')))]
            if wrong:
                ctx.bad('R4', role2, b.defpath, '%s receives %s: the chunks of the state reach the output most significant first, so for a state wider than two words the exported words are in the wrong order '
                        '(the sibling exporters all consume `.rev()`)' % (wrong[0][0], sym.show(wrong[0][1])[:100]), key=k2, loc=rules.loc(b))
            else:
                ctx.ok('R4', role2, b.defpath, '%d emitting consumer(s), each takes Iterator::rev(..) of the chunk iterator' % len(emitters), key=k2)


rules.callee = __import__('vlib.facts', fromlist=['callee']).callee


def _first_word_term(r):
    """payload of the first word-reading call on this path that is not inside a loop (the top word of imported data)."""
    for e in r.events:
        if e['kind'] == 'loop_enter':
            return None
        if e['kind'] == 'call' and e.get('uid') is not None and (e['callee'].endswith('ReadWords::read') or e['callee'].endswith('FnMut::call_mut')):
            return e['result']
    return None


def top_word_decision(r):
    """(word term, path obtained a word, path decided `word != 0` on the word itself) for the first word read before any loop"""
    w = _first_word_term(r)
    if w is None:
        return None, False, False
    # did this path actually obtain a word (Some)?
    got = False
    nonzero = False
    for t, v, _ in r.preds:
        if t[0] == 'discr' and sym.contains(t[1], lambda x: x == w):
            dv = sym.discr_variant(t, v)
            # `Some(word)` matched directly, or `read()?.ok_or(..)?` continued (None was turned into the error)
            if dv == 'Some' or (dv == 'Continue' and sym.contains(t[1], lambda x: isinstance(x, tuple) and x and x[0] == 'call' and str(x[1]).endswith(('::ok_or', '::ok_or_else')) and sym.contains(x, lambda y: y == w))):
                got = True
        if t[0] == 'bin' and t[1] in ('Eq', 'Ne'):
            for a, b in ((t[2], t[3]), (t[3], t[2])):
                # the word itself, possibly behind Option/Result plumbing (payload, unwrap, ok_or, `?`), but no arithmetic
                if a[0] == 'k' and a[1] == 'zero' and b[0] in ('payload', 'unwrap') and sym.contains(b, lambda x: x == w) and not sym.contains(b, lambda x: isinstance(x, tuple) and x and x[0] == 'bin'):
                    if (t[1] == 'Eq' and not v) or (t[1] == 'Ne' and v):
                        nonzero = True
    return w, got, nonzero


def check_top_word_nonzero(ctx, F, body, who, exported_by):
    """An importer of *compressed* data (as opposed to raw binary data) must reject data whose top word is zero, because
    the matching exporter never emits a zero top word (it drops leading zero words of the state / drains the head down to
    zero): accepting such data makes import followed by export lose the zero words.  Rule: every accepting path that took
    a word from the source carries the decision `top word != 0`, made on the word itself."""
    key = 'R2/top-word-nonzero/' + who
    role = 'import of compressed data rejects a zero top word (%s never emits one)' % exported_by
    if body is None:
        return ctx.unresolved('R2', role, who, 'importer not found', key=key)
    ev, paths = rules.evaluate(body)
    ctx.touch(body)
    n = 0
    for r in paths or []:
        if r.end != 'return' or r.ret is None or rules.ret_shape(r.ret)[0] != 'Ok':
            continue
        w, got, nonzero = top_word_decision(r)
        if w is None:
            continue
        if not got:
            continue
        n += 1
        if not nonzero:
            return ctx.bad('R2', role, body.defpath, 'an accepting path takes the top word from the source without deciding that it is non-zero: data ending in zero words is imported, and exporting the coder again drops those words', key=key, loc=rules.loc(body))
    if not n:
        return ctx.unresolved('R2', role, body.defpath, 'no accepting path that reads a word before the fill loop', key=key)
    return ctx.ok('R2', role, body.defpath, '%d accepting path(s), each decides `top word != 0` on the word itself' % n, key=key)


def check_no_hand_rolled_chunking(ctx, F):
    """Outside the two coding steps, no function of the ANS coder turns (a copy of) `state` into words by itself: narrowing
    the state to a Word, or shifting it right by Word::BITS, is the job of the one shared chunker.  A private re-implementation
    (in an iterator, a conversion, a view) silently fixes its own stop condition and words-per-state assumption."""
    role = 'the state is turned into words only by the shared chunker'
    n = 0
    bad = []
    for b in F.bodies:
        if b.promoted is not None or '::tests::' in b.defpath or not b.file.endswith('stream/stack.rs') or b.dk not in ('Fn', 'AssocFn', 'Closure'):
            continue
        root = b.defpath.split('::{closure')[0]
        if root.endswith(('::encode_symbol', '::decode_symbol')):
            continue
        try:
            ev, paths = rules.evaluate(b)
        except sym.TooManyPaths:
            continue
        n += 1
        is_state = lambda x: isinstance(x, tuple) and x and x[0] in ('in', 'loop') and any(q == ('f', 'state') for q in (x[1] if x[0] == 'in' else x[2]) if isinstance(q, tuple))
        # closures capture a copy of the state: (*_1).0 style captures are covered by the enclosing function's capture list
        captured_state = False
        if b.dk == 'Closure':
            parent = F.by_def.get(root)
            if parent is not None:
                _, pp = rules.evaluate(parent)
                for r in pp or []:
                    for x in sym.subterms(r.ret) if r.ret is not None else []:
                        if isinstance(x, tuple) and x and x[0] == 'agg' and isinstance(x[1], tuple) and x[1][0] == 'closure' and x[1][1] == b.defpath and sym.contains(x, is_state):
                            captured_state = True
        for r in paths or []:
            terms = [t for t, v, _ in r.preds] + ([r.ret] if r.ret is not None else []) + [e['result'] for e in r.events if e['kind'] == 'call'] + [e['value'] for e in r.events if e['kind'] in ('write', 'write_ref')] + list(r.store.values())
            for t in terms:
                for x in sym.subterms(t):
                    if not (isinstance(x, tuple) and x):
                        continue
                    src = None
                    if x[0] == 'cast' and x[1] == 'as_' and x[3] == 'Word':
                        src = x[2]
                    if x[0] == 'bin' and x[1] == 'Shr' and x[3] == ('c', '<Word as BitArray>::BITS'):
                        src = x[2]
                    if src is None:
                        continue
                    if sym.contains(src, is_state) or (captured_state and sym.contains(src, lambda y: isinstance(y, tuple) and y and y[0] in ('in', 'loop'))):
                        bad.append((b, sym.show(x)[:80]))
    key = 'R4/no-hand-rolled-chunking/' + ANS
    if bad:
        b, what = bad[0]
        ctx.bad('R4', role, b.defpath, '`%s`: the state is narrowed / shifted word by word outside the shared chunker, so this view of the compressed words has its own stop condition and need not agree with into_compressed() (e.g. it stops at a zero word inside the state, or assumes two words per state)' % what,
                key=key, loc=rules.loc(b))
    elif n < 20:
        ctx.unresolved('R4', role, ANS, 'only %d functions scanned' % n, key=key)
    else:
        ctx.ok('R4', role, ANS, '%d functions and closures of src/stream/stack.rs scanned (coding steps excluded): none narrows or word-shifts the state' % n, key=key)


def check_export_conversions(ctx, F):
    """Every `From<AnsCoder<..>>` conversion that turns the coder into its words goes through the same export as
    into_compressed(): it reaches the truncating state chunker through the call graph (never a hand-written copy of the
    state words, which would bake in a particular State/Word ratio)."""
    chunker = anchors.state_chunker(F)
    role = 'a conversion of an AnsCoder into its words uses the shared export (state chunker)'
    if chunker is None:
        return
    n = 0
    for b in F.bodies:
        if b.promoted is not None or b.name != 'from' or b.impl_trait is None or not b.impl_trait.startswith('core::convert::From') or '::tests::' in b.defpath:
            continue
        if b.arg_count != 1 or not F.ty_s(b.local_ty(1)).startswith(ANS + '<'):
            continue
        if not F.ty_s(b.ret_ty if hasattr(b, 'ret_ty') else b.local_ty(0)).startswith('alloc::vec::Vec<'):
            continue
        n += 1
        ctx.touch(b)
        seen, frontier, found = set(), [b], False
        for _ in range(3):
            nxt = []
            for x in frontier:
                for cb, blk, t in anchors.local_callees(F, x):
                    if cb.defpath == chunker.defpath:
                        found = True
                    if cb.defpath not in seen:
                        seen.add(cb.defpath)
                        nxt.append(cb)
            frontier = nxt
        key = 'R7/export-conversion/' + b.defpath
        if found:
            ctx.ok('R7', role, b.defpath, 'reaches the state chunker through %s' % ', '.join(sorted(x.rsplit('::', 1)[-1] for x in seen if x != chunker.defpath))[:120], key=key)
        else:
            ctx.bad('R7', role, b.defpath, 'the conversion builds the word vector without the shared export (it calls %s): a hand-written copy of the state words assumes a fixed number of words per state and disagrees with into_compressed() for other State/Word ratios' % (
                ', '.join(sorted(x.rsplit('::', 1)[-1] for x in seen)) or 'nothing'), key=key, loc=rules.loc(b))
    if n < 1:
        ctx.unresolved('R7', role, ANS, 'no From<AnsCoder> for Vec conversion found', key='R7/export-conversion/floor')


def check_binary_importers_shared(ctx, F):
    """Every public way to load raw binary data into an ANS coder goes through the one import loop (from_binary): it is that
    loop which places the marker bit directly above the words actually read and fills the state in the order the exporter
    emits.  A convenience constructor that assembles the state by hand bakes in a particular State/Word ratio or a full buffer
    (phantom zero words for short data, swapped words for wide states)."""
    fb, _ri = anchors.ans_import_loops(F)
    role = 'a raw-binary constructor loads the data through the shared import loop'
    if fb is None:
        return
    n = 0
    for b in F.bodies:
        if b.promoted is not None or b.dk != 'AssocFn' or b.self_adt != ANS or b.vis != 'pub' or '::tests::' in b.defpath or b.impl_trait is not None:
            continue
        kind = 'binary' if 'binary' in (b.name or '') else ('compressed' if 'compressed' in (b.name or '') else None)
        target = fb if kind == 'binary' else _ri
        if kind is None or target is None or not b.name.startswith('from_') or b.defpath == target.defpath:
            continue
        n += 1
        ctx.touch(b)
        seen, frontier, found = set(), [b], False
        for _ in range(3):
            nxt = []
            for x in frontier:
                for cb, blk, t in anchors.local_callees(F, x):
                    if cb.defpath == target.defpath:
                        found = True
                    if cb.defpath not in seen:
                        seen.add(cb.defpath)
                        nxt.append(cb)
            frontier = nxt
        key = 'R7/binary-importer/' + b.defpath
        if found:
            ctx.ok('R7', role, b.defpath, 'reaches the shared %s import loop' % kind, key=key)
        else:
            ctx.bad('R7', role, b.defpath, 'the constructor builds the coder without the shared import loop (it calls %s): the marker position and the word order of the state are then its own, and differ from what from_binary() and the exporters use for short data or for State wider than two Words' % (
                ', '.join(sorted(x.rsplit('::', 1)[-1] for x in seen)) or 'nothing'), key=key, loc=rules.loc(b))
    if n < 2:
        ctx.unresolved('R7', role, ANS, 'only %d convenience constructors for raw binary data found' % n, key='R7/binary-importer/floor')


def check_marker_pairing(ctx, F):
    fb = c08.get_body(F, [ANS + '::<', '::from_binary'], 'from_binary')
    key = 'R5/marker-pushed/' + ANS
    if fb is None:
        ctx.bad('R5', 'from_binary starts from the single marker bit', ANS, 'from_binary not found', key=key)
    else:
        ev, paths = rules.evaluate(fb)
        ctx.touch(fb)
        # state before the loop is one(); the only front-end exits are Ok
        init_ok = False
        errs = set()
        for r in paths or []:
            for e in r.events:
                if e['kind'] == 'loop_enter':
                    for p, v in e['pre'].items():
                        if v == ('k', 'one', 'State'):
                            init_ok = True
            if r.end == 'return' and r.ret is not None and r.ret[0] == 'err_of':
                src = r.ret[1]
                n2 = 0
                while src[0] in ('unwrap', 'try') and n2 < 4:
                    src = src[1]
                    n2 += 1
                errs.add(src[1] if src[0] == 'call' else sym.show(src)[:40])
            elif r.end == 'return' and rules.ret_shape(r.ret)[0] == 'Err':
                errs.add('front-end Err')
        (ctx.ok if init_ok else ctx.bad)('R5', 'from_binary starts from the single marker bit', fb.defpath, 'state := one() before the fill loop' if init_ok else 'initial state is not State::one()', key=key)
        k3 = 'R2/from-binary-total/' + ANS
        if errs <= {'backends::ReadWords::read'}:
            ctx.ok('R2', 'from_binary fails only with the backend\'s read error', fb.defpath, 'error sources: %s' % sorted(errs), key=k3)
        else:
            ctx.bad('R2', 'from_binary fails only with the backend\'s read error', fb.defpath, 'error sources: %s' % sorted(errs), key=k3, loc=rules.loc(fb))
    # consumers of the marker chunk: SEALED guard (new) and into_binary
    _g, gnew, _gd = anchors.guard_of(F, ANS, 'get_binary')
    for frag, name, b in ((['view guard of AnsCoder::get_binary'], 'new', gnew), ([ANS, 'into_binary'], 'into_binary', anchors.method(F, ANS, 'into_binary'))):
        key = 'R5/marker-stripped/' + (b.defpath if b else '::'.join(frag))
        role = 'exactly one leading chunk is dropped and it must equal Word::one()'
        if b is None:
            ctx.bad('R5', role, '::'.join(frag), 'function not found', key=key)
            continue
        ev, paths = rules.evaluate(b)
        ctx.touch(b)
        bad = None
        unrec = False
        n = 0
        for r in paths or []:
            if r.end != 'return' or rules.ret_shape(r.ret)[0] != 'Ok':
                continue
            if name == 'new' and not any(t == ('c', 'SEALED') and v == 1 for t, v, _ in r.preds):
                continue
            n += 1
            nexts = [e for e in r.events if e['kind'] == 'call' and e['callee'] == 'core::iter::Iterator::next' and not _in_loop(ev, e)]
            tested = False
            for t, v, _ in r.preds:
                if t[0] == 'bin' and t[1] in ('Eq', 'Ne') and nexts and nexts[0]['result'] in (t[2], t[3]):
                    other = t[3] if t[2] == nexts[0]['result'] else t[2]
                    truth = (v == 1) if t[1] == 'Eq' else (v == 0)
                    if truth and other[0] == 'agg' and other[2] and other[2][0] == ('k', 'one', 'Word'):
                        tested = True
            if len(nexts) == 0:
                unrec = True
                continue
            if len(nexts) != 1 or not tested:
                bad = 'success path drops %d leading chunk(s)%s' % (len(nexts), '' if tested else ' without requiring it to equal Word::one()')
        if bad:
            ctx.bad('R5', role, b.defpath, bad, key=key, loc=rules.loc(b))
        elif unrec:
            ctx.unresolved('R5', role, b.defpath, 'marker is not stripped through the chunk iterator (shape outside the idiom list)', key=key)
        elif n == 0:
            ctx.unresolved('R5', role, b.defpath, 'no success path recognised', key=key)
        else:
            ctx.ok('R5', role, b.defpath, '%d success path(s): next() == Some(Word::one()) exactly once' % n, key=key)


def _in_loop(ev, e):
    return any(e['block'] in blocks for blocks in ev.loops.values())


def canon_below(t, v):
    """(x, bound as pow2 polynomial, holds): the branch outcome says `(x < bound) == holds`.  None if not a threshold test."""
    from vlib import pow2
    if not (isinstance(t, tuple) and t and t[0] == 'bin'):
        return None
    op = t[1].split('.')[0]
    a, b = t[2], t[3]
    one = pow2.P2([(pow2.E0, 1)])
    if op in ('Eq', 'Ne'):
        for x, z in ((a, b), (b, a)):
            if pow2._is_zero(z) and isinstance(x, tuple) and x[0] == 'bin' and x[1] == 'Shr' and pow2.width_exp(x[3]) is not None:
                return (x[2], pow2.P2([(pow2.width_exp(x[3]), 1)]), bool(v) if op == 'Eq' else not v)
        return None
    if op in ('Gt', 'Ge'):
        a, b = b, a
        op = {'Gt': 'Lt', 'Ge': 'Le'}[op]
    if op not in ('Lt', 'Le'):
        return None
    pa, pb = pow2.p2(a), pow2.p2(b)
    if pb is not None and pa is None:          # x < B  /  x <= B
        return (a, pb if op == 'Lt' else pb.plus(one), bool(v))
    if pa is not None and pb is None:          # B < x  /  B <= x
        return (b, pa.plus(one) if op == 'Lt' else pa, not v)
    return None


def threshold_predicates(F, b):
    """Canonical "state < bound" tests of `b` whose bound is a power-of-two polynomial over the State / Word widths."""
    ev, paths = rules.evaluate(b)
    out = set()
    for r in paths or []:
        for t, v, _ in r.preds:
            c = canon_below(t, v)
            if c is None:
                continue
            bound = c[1].show()
            if 'as BitArray>::BITS' in bound:
                out.add(('state < T', bound))
    return out


def check_refill_threshold(ctx, F):
    dec = [b for b in F.bodies if b.promoted is None and b.name == 'decode_symbol' and b.self_adt == ANS and b.impl_trait == 'stream::Decode']
    fb, ri = anchors.ans_import_loops(F)
    key = 'R4/refill-threshold/' + ANS
    role = 'import loops and the decoder\'s refill test use the same threshold and strictness'
    if not dec or not fb or not ri:
        ctx.bad('R4', role, ANS, 'decode_symbol / from_binary / read_initial_state not found', key=key)
        return
    for b in (dec[0], fb, ri):
        ctx.touch(b)
    nd, nf, nr = threshold_predicates(F, dec[0]), threshold_predicates(F, fb), threshold_predicates(F, ri)
    if not nd or not nf or not nr:
        ctx.unresolved('R4', role, ANS, 'threshold comparison not recognised (decode %s, from_binary %s, read_initial_state %s)' % (nd, nf, nr), key=key)
    elif nd == nf == nr and len(nd) == 1:
        ctx.ok('R4', role, ANS, 'all three: %s with T = %s (canonicalised: `x >> k == 0`, `x < 1 << k`, `!(1 << k <= x)` are the same test)' % (list(nd)[0][0], list(nd)[0][1][:90]), key=key)
    else:
        ctx.bad('R4', role, ANS, 'decode_symbol refills while %s; from_binary fills while %s; read_initial_state fills while %s' % (sorted(nd), sorted(nf), sorted(nr)), key=key, loc=rules.loc(fb))


def check_import_read_errors(ctx, F):
    """A backend read that *fails* while the head is assembled ends the import with an error: on no path that goes on (another
    iteration, an Ok result) is the outcome of a word read decided to be `Err`.  A loop written `while let Ok(Some(word)) = read()`
    treats a failed read like the end of the data and hands out a coder whose head is too small for its bulk, which then
    decodes garbage without any error."""
    fb, helper = anchors.ans_import_loops(F)
    bodies = [b for b in (helper, fb) if b is not None]
    n = 0
    for b in bodies:
        ev, paths = rules.evaluate(b)
        key = 'R2/import-read-error-propagates/' + b.defpath
        role = 'a failed word read ends the import with an error'
        ctx.touch(b)
        if not paths:
            ctx.unresolved('R2', role, b.defpath, 'not evaluated', key=key)
            continue
        is_read = lambda x: isinstance(x, tuple) and x and x[0] == 'call' and str(x[1]).endswith(('ReadWords::read', 'FnMut::call_mut', 'FnOnce::call_once', 'Iterator::next'))
        bad = None
        n_reads = 0
        for r in paths:
            goes_on = r.end == 'backedge' or (r.end == 'return' and r.ret is not None and rules.ret_shape(r.ret)[0] == 'Ok')
            if any(e['kind'] == 'call' and is_read(('call', e['callee'])) for e in r.events):
                n_reads += 1
            if not goes_on:
                continue
            for t, v, _ in r.preds:
                if t[0] != 'discr' or not sym.contains(t[1], is_read):
                    continue
                dv = sym.discr_variant(t, v)
                inner = t[1]
                if (dv == 'Err' and not (inner[0] == 'try')) or (dv == 'Break' and inner[0] == 'try' and not sym.contains(inner, lambda x: isinstance(x, tuple) and x and x[0] == 'call' and str(x[1]).endswith(('::ok_or', '::ok_or_else')))):
                    bad = 'a path goes on (%s) although the outcome of a word read was decided to be an error: the failed read is taken for the end of the data and the import succeeds with a truncated head' % r.end
        n += 1
        if bad:
            ctx.bad('R2', role, b.defpath, bad, key=key, loc=rules.loc(b))
        elif n_reads == 0:
            ctx.unresolved('R2', role, b.defpath, 'no word read found', key=key)
        else:
            ctx.ok('R2', role, b.defpath, 'no continuing path carries an `Err` decision of a read', key=key)
    ctx.floor('R2', 'floor: ANS import loops', ANS, n, 2, 'only %d import loops found' % n, key='R2/floor/import-read-errors')


def run(ctx):
    F = ctx.F
    check_same_source(ctx, F)
    check_export_conversions(ctx, F)
    check_binary_importers_shared(ctx, F)
    check_no_hand_rolled_chunking(ctx, F)
    check_marker_pairing(ctx, F)
    check_refill_threshold(ctx, F)
    check_import_read_errors(ctx, F)
    _fb, helper = anchors.ans_import_loops(F)
    check_top_word_nonzero(ctx, F, helper, ANS + '::from_compressed', 'into_compressed')
    import props.C18 as c18
    c18.check_valid_bits(ctx, F)          # "the number of payload bits reported is exact"
    import props.C17 as c17
    c17.check_true_answer_unused(ctx, F)  # an import loop that stops on maybe_exhausted() == true truncates the data on default backends
    ctx.assume('bit_array_to_chunks_truncated(x) yields the non-zero-led chunks of x, most significant first (its arithmetic is not decided)')
    return {
        'level': 'other',
        'explanation': 'Same-source rule over every function in src/stream/stack.rs that chunks the ANS state, marker push/strip pairing, error-origin classification of from_binary, and sibling agreement of the '
                       'refill threshold between the two import loops and decode_symbol; num_valid_bits() is evaluated over the bit-length model from_binary establishes. These are necessary conditions of the bits-back round trip for all inputs; the algebraic inverse property of '
                       'decode/encode on arbitrary states is value-level and not decided.',
        'trusted_base': ['rustc type checker + MIR construction', 'cfacts extractor'],
    }
