"""C14 — chain coder decoding is local (claimed: model-independence by non-interference).

HIGH  = the model argument and everything `quantile_function` returns, the remainders head, the
        remainders backend.
LOW   = the quantile handed to the model, every value stored in the compressed head, every use of
        the compressed backend, and the decision to report out-of-compressed-data.
Rule (R3, path sensitive): on every path of ChainCoder::decode_symbol no HIGH term reaches a LOW
value, and no HIGH predicate is evaluated before a LOW event; callees that receive `&mut self`
write only HIGH places.  By induction over calls the sequence of quantiles, the words consumed and
the point of exhaustion are functions of the compressed data alone, so symbol i = model_i(quantile_i).
Termination-insensitive: an error of the remainders sink ends decoding but cannot alter a quantile.
Not decided: that flipping bits inside chunk j changes only quantile j (bit-level).
"""
from vlib import sym, rules, effects

CHAIN = 'stream::chain::ChainCoder'
HEADS_C = (1, 'deref', ('f', 'heads'), ('f', 'compressed'))
HEADS_R = (1, 'deref', ('f', 'heads'), ('f', 'remainders'))
COMP = (1, 'deref', ('f', 'compressed'))
REM = (1, 'deref', ('f', 'remainders'))


def is_high_atom(x, high_calls):
    if not isinstance(x, tuple) or not x:
        return False
    h = x[0]
    if h == 'arg' and x[1] == 2:
        return True
    if h == 'in':
        p = x[1]
        return p[0] == 2 or p[:len(HEADS_R)] == HEADS_R or p[:len(REM)] == REM
    if h == 'call':
        if x[1].endswith('::quantile_function'):
            return True
        if x[3] is not None and x[3] in high_calls:
            return True
    if h in ('post', 'elems'):
        p = x[2] if h == 'post' else None
        if p is not None and (p[:len(HEADS_R)] == HEADS_R or p[:len(REM)] == REM):
            return True
        if h == 'post' and x[1] in high_calls:
            # state after a call that wrote only HIGH places: projections onto LOW fields are resolved by the frame check
            return p is not None and not (p[:len(HEADS_C)] == HEADS_C or p[:len(COMP)] == COMP)
    return False


def high_witness(t, high_calls):
    for x in sym.subterms(t):
        if is_high_atom(x, high_calls):
            return x
    return None


def error_source(t):
    """The impure call whose failure an `err_of(..)` reports: peel map_err / ok_or / unwrap wrappers."""
    n = 0
    while n < 8:
        n += 1
        if t[0] == 'call' and t[3] is not None:
            return t
        if t[0] == 'call' and t[2] and t[1].endswith(('::map_err', '::ok_or', '::ok_or_else')):
            t = t[2][0]
            continue
        if t[0] in ('unwrap', 'try') :
            t = t[1]
            continue
        return None
    return None


def callee_frame(F, defpath):
    """Paths (relative to self) a crate-local `&mut self` helper may write; None if unknown."""
    b = F.by_def.get(defpath)
    if b is None:
        return None
    ev, paths = rules.evaluate(b)
    if paths is None:
        return None
    out = set()
    for r in paths:
        for e in r.events:
            if e['kind'] == 'write' and e['path'][:2] == (1, 'deref'):
                out.add(e['path'][2:])
            if e['kind'] == 'call' and e.get('uid') is not None:
                for p in e['mut_paths']:
                    if p[:2] == (1, 'deref'):
                        if len(p) == 2:
                            return None
                        out.add(p[2:])
    return out


def _constructs(t, variant):
    """the term builds the enum variant itself (through aggregates only): an error that merely *passes on* the result of a call
    whose argument state happens to mention the variant does not count"""
    if not (isinstance(t, tuple) and t):
        return False
    if t[0] == 'agg':
        if isinstance(t[1], tuple) and t[1][0] == 'adt' and t[1][2] == variant:
            return True
        return any(_constructs(x, variant) for x in t[2])
    return False


def check_precision_change_keeps_compressed_side(ctx, F):
    """A change of precision re-labels the coder: it may move words between the remainders head and the remainders backend,
    but the compressed backend and the compressed head - the bits of chunks that were fetched and not yet handed to a model -
    go over into the new coder as they are.  Otherwise the chunks after the change are cut from other bits than the data's
    (the parked bits of a partially consumed word belong to the next chunks)."""
    import re
    n = 0
    for b in F.bodies:
        if b.promoted is not None or '::tests' in b.defpath or b.self_adt != CHAIN or b.dk != 'AssocFn' or not (b.file or '').endswith('stream/chain.rs'):
            continue
        sig = b.raw.get('sig') or ''
        m = re.match(r'(?:unsafe )?fn\(stream::chain::ChainCoder<([^()]*?)>\) -> core::result::Result<stream::chain::ChainCoder<(.*?)>, ', sig) \
            or re.match(r'(?:unsafe )?fn\(stream::chain::ChainCoder<([^()]*?)>\) -> stream::chain::ChainCoder<(.*)>$', sig)
        if not m or m.group(1) == m.group(2):
            continue
        try:
            _, paths = rules.evaluate(b)
        except sym.TooManyPaths:
            paths = None
        key = 'R3/precision-change-keeps-compressed-side/' + b.defpath
        role = 'a precision change hands the compressed backend and the compressed head over unchanged'
        if paths is None:
            ctx.unresolved('R3', role, b.defpath, 'too many paths', key=key)
            continue
        built = 0
        bad = None
        unres = None
        for r in paths:
            if r.end != 'return' or r.ret is None or not (r.ret[0] == 'agg' and isinstance(r.ret[1], tuple) and r.ret[1][0] == 'adt'):
                continue
            c = r.ret[2][0] if r.ret[1][2] == 'Ok' else r.ret          # the coder itself, or Ok(coder)
            if not (isinstance(c, tuple) and c and c[0] == 'agg' and c[1][0] == 'adt' and c[1][1] == CHAIN and len(c) > 3 and c[3]):
                continue          # a forwarder: the callee is judged where it builds the coder
            built += 1
            fields = dict(zip(c[3], c[2]))
            heads = fields.get('heads')
            hc = None
            if isinstance(heads, tuple) and heads and heads[0] == 'agg' and len(heads) > 3 and heads[3]:
                hc = dict(zip(heads[3], heads[2])).get('compressed')
            elif isinstance(heads, tuple) and heads:
                hc = ('proj', heads, ('f', 'compressed'))
            frames = {e['uid']: callee_frame(F, e['callee']) for e in r.events if e['kind'] == 'call' and e.get('uid') is not None}

            def carried(v, path):
                """v is the old value of self.<path>, possibly read after a helper that does not write it"""
                if v == ('in', (1,) + path) or v == ('in', (1, 'deref') + path):
                    return True
                x, rest = v, ()
                while isinstance(x, tuple) and x and x[0] == 'proj' and isinstance(x[2], tuple) and x[2][0] == 'f':
                    x, rest = x[1], (x[2],) + rest
                if isinstance(x, tuple) and x and x[0] == 'post' and rest == path:
                    fr = frames.get(x[1])
                    if fr is None:
                        return None
                    return not any(w[:len(path)] == path[:len(w)] or w[:len(path)] == path for w in fr)
                return False
            for what, v, path in (('the compressed backend', fields.get('compressed'), (('f', 'compressed'),)), ('the compressed head', hc, (('f', 'heads'), ('f', 'compressed')))):
                if v is None:
                    unres = unres or ('%s of the new coder was not found in the literal' % what)
                    continue
                ok = carried(v, path)
                if ok is None:
                    unres = unres or ('%s is read after a helper whose frame is unknown' % what)
                elif not ok:
                    bad = bad or ('%s of the new coder is `%s`, not the old one: bits that were fetched from the data and not yet consumed are replaced, so the chunks decoded after the change are not the chunks of the data' % (what, sym.show(v)[:100]))
        if not built:
            continue
        n += 1
        ctx.touch(b)
        if bad:
            ctx.bad('R3', role, b.defpath, bad, key=key, loc=rules.loc(b))
        elif unres:
            ctx.unresolved('R3', role, b.defpath, unres, key=key)
        else:
            ctx.ok('R3', role, b.defpath, '%d exit(s) build the new coder; `compressed` and `heads.compressed` are the old values (helpers in between write the remainders side only)' % built, key=key)
    if n == 0:
        ctx.unresolved('R3', 'floor: functions that build a chain coder of another precision', CHAIN, 'no function was found that builds a ChainCoder of another precision from one it takes by value', key='R3/floor/precision-change')
    elif n < 2:
        ctx.floor('R3', 'floor: functions that build a chain coder of another precision', CHAIN, n, 2, 'only %d found (increase / decrease on the reference tree)' % n, key='R3/floor/precision-change')


def run(ctx):
    F = ctx.F
    dec = [b for b in F.bodies if b.promoted is None and b.name == 'decode_symbol' and b.self_adt == CHAIN and b.impl_trait == 'stream::Decode']
    if not dec:
        ctx.bad('R3', 'anchor', CHAIN, 'Decode::decode_symbol for ChainCoder not found', key='R3/anchor/chain-decode')
        return meta()
    b = dec[0]
    ev, paths = rules.evaluate(b)
    ctx.touch(b, calls=sum(1 for _ in b.calls()))
    if paths is None:
        ctx.unresolved('R3', 'non-interference', b.defpath, 'too many paths', key='R3/ni/' + b.defpath)
        return meta()
    # callee summaries: helpers receiving &mut self
    high_calls = set()
    helper_obs = {}
    for r in paths:
        for e in r.events:
            if e['kind'] == 'call' and e.get('uid') is not None and any(p == (1, 'deref') for p in e['mut_paths']):
                fr = callee_frame(F, e['callee'])
                helper_obs[e['callee']] = fr
                if fr is not None and all(p[:2] == (('f', 'heads'), ('f', 'remainders')) or p[:1] == (('f', 'remainders'),) for p in fr):
                    high_calls.add(e['uid'])
    for name, fr in sorted(helper_obs.items()):
        key = 'R1/helper-frame/' + name
        if fr is None:
            ctx.bad('R1', 'helper called with &mut self writes only the remainders side', name, 'frame of the helper is unknown (not a crate-local body or passes self on)', key=key)
        else:
            lows = [p for p in fr if not (p[:2] == (('f', 'heads'), ('f', 'remainders')) or p[:1] == (('f', 'remainders'),))]
            if lows:
                ctx.bad('R1', 'helper called with &mut self writes only the remainders side', name,
                        'writes %s: a remainders-side helper touches the compressed side' % [sym.path_str((1, 'deref') + p) for p in lows], key=key)
            else:
                ctx.ok('R1', 'helper called with &mut self writes only the remainders side', name, 'frame = %s' % sorted(sym.path_str((1, 'deref') + p) for p in fr), key=key)
    # sinks
    sinks = {'quantile': [], 'head': [], 'backend': [], 'pred': [], 'exhaust': []}
    n_q = 0
    for r in paths:
        low_idx = []     # indices of LOW events
        for i, e in enumerate(r.events):
            if e['kind'] == 'call' and e['callee'].endswith('::quantile_function'):
                n_q += 1
                low_idx.append(i)
                w = high_witness(e['args'][1], high_calls) if len(e['args']) > 1 else None
                sinks['quantile'].append((w, e, r))
            elif e['kind'] == 'write' and e['path'][:len(HEADS_C)] == HEADS_C:
                low_idx.append(i)
                sinks['head'].append((high_witness(e['value'], high_calls), e, r))
            elif e['kind'] == 'call' and e.get('uid') is not None and any(p[:len(COMP)] == COMP for p in e['mut_paths']):
                low_idx.append(i)
                w = None
                for a in e['args_val'][1:]:
                    w = w or high_witness(a, high_calls)
                sinks['backend'].append((w, e, r))
        # exhaustion / compressed-backend error exits are LOW decisions
        if r.end == 'return' and r.ret is not None and r.ret[0] == 'err_of' and r.ret[1][0] == 'call' and r.ret[1][1].endswith(('::ok_or', '::ok_or_else')) \
                and len(r.ret[1][2]) > 1 and sym.contains(r.ret[1][2][1], lambda x: isinstance(x, tuple) and x and x[0] == 'agg' and isinstance(x[1], tuple) and x[1][0] == 'adt' and x[1][2] == 'OutOfCompressedData'):
            low_idx.append(len(r.events))
            sinks['exhaust'].append((None, None, r))
        elif r.end == 'return' and r.ret is not None and r.ret[0] == 'agg' and isinstance(r.ret[1], tuple) and r.ret[1][-1] == 'Err' and _constructs(r.ret, 'OutOfCompressedData'):
            # the error is constructed directly (not as the ok_or(..) of a read)
            low_idx.append(len(r.events))
            sinks['exhaust'].append((None, None, r))
        if r.end == 'return' and r.ret is not None and r.ret[0] == 'err_of':
            src = error_source(r.ret[1])
            if src is not None and any(ee.get('uid') == src[3] and any(p[:len(COMP)] == COMP for p in ee['mut_paths']) for ee in r.events if ee['kind'] == 'call'):
                low_idx.append(len(r.events))
        last_low = max(low_idx) if low_idx else -1
        for i, e in enumerate(r.events):
            if e['kind'] == 'branch' and i < last_low:
                w = high_witness(e['term'], high_calls)
                sinks['pred'].append((w, e, r))
    ctx.extra['sinks'] = {k: len(v) for k, v in sinks.items()}
    ctx.extra['paths'] = len(paths)
    roles = {
        'quantile': 'the quantile handed to the model depends only on the compressed data',
        'head': 'the compressed head is updated from compressed data only',
        'backend': 'reads of the compressed backend do not depend on models or remainders',
        'pred': 'no model- or remainders-dependent decision precedes a compressed-side event',
    }
    for kind, role in roles.items():
        items = sinks[kind]
        key = 'R3/ni/%s/%s' % (kind, b.defpath)
        bad = [(w, e) for w, e, r in items if w is not None]
        if not items and kind in ('quantile', 'head', 'backend'):
            ctx.bad('R3', role, b.defpath, 'no such event found: the decoder no longer consults the model / head / backend as the rule expects', key=key, loc=rules.loc(b))
            continue
        if bad:
            w, e = bad[0]
            what = sym.show(e['term'])[:140] if kind == 'pred' else (sym.show(e['args'][1])[:140] if kind == 'quantile' else (sym.show(e['value'])[:140] if kind == 'head' else e['callee']))
            ctx.bad('R3', role, b.defpath, '%s at %s depends on %s' % (what, e.get('span', '?').split('-')[0], sym.show(w)[:100]), key=key, loc=rules.loc(b, e.get('span')))
        else:
            ctx.ok('R3', role, b.defpath, '%d sink occurrence(s) over %d paths, none reached by a HIGH term' % (len(items), len(paths)), key=key)
    # conservation: the compressed head is a bit buffer; a path may leave it alone or compute its new value from the old one,
    # but a value that does not depend on the old head discards the left-over bits and shifts every later chunk.
    key = 'R3/head-conserved/' + b.defpath
    role = 'the new compressed head is a function of the old one (left-over bits are never discarded)'
    dropped = []
    n_upd = 0
    def old_head(x):
        if not (isinstance(x, tuple) and x):
            return False
        if x[0] == 'in' and x[1][:len(HEADS_C)] == HEADS_C:
            return True
        # the head as left by a helper whose frame (rule R1 above) excludes the compressed side
        return x[0] == 'post' and x[2][:len(HEADS_C)] == HEADS_C and x[1] in high_calls
    for w, e, r in sinks['head']:
        n_upd += 1
        if not sym.contains(e['value'], old_head):
            dropped.append((e['value'], r))
    if dropped:
        v, r = dropped[0]
        ctx.bad('R3', role, b.defpath, 'a path stores %s in heads.compressed, which does not depend on the previous head: bits left over from an earlier (smaller) precision are lost and all later chunks are cut from the wrong bits' % sym.show(v)[:120],
                key=key, loc=rules.loc(b))
    elif n_upd:
        ctx.ok('R3', role, b.defpath, '%d updating path(s), each new head contains the old head as a sub-term' % n_upd, key=key)
    else:
        ctx.unresolved('R3', role, b.defpath, 'no path updates the head', key=key)
    # exhaustion is reported, never data: covered by C13; here: the OutOfCompressedData exit exists and is LOW-controlled
    key = 'R3/ni/exhaustion/' + b.defpath
    # exhaustion is *witnessed*: the coder may only report it after a read of the compressed backend returned None, and it
    # must report it before it modified its heads (a failed attempt leaves the coder as it was)
    kw = 'R2/exhaustion-witnessed/' + b.defpath
    rolew = 'OutOfCompressedData is returned only after a read of the compressed backend came back empty, and before the heads were modified'
    problems = []
    for _w, _e, r in sinks['exhaust']:
        reads = [e for e in r.events if e['kind'] == 'call' and e.get('uid') is not None and e['callee'].endswith('ReadWords::read') and any(p[:len(COMP)] == COMP for p in e['mut_paths'])]
        empty = False
        for e in reads:
            res = e['result']
            # the returned error is the `ok_or(..)` of this very read
            if sym.contains(r.ret, lambda x: x == res):
                empty = True
            # ... or the path matched this read's Option and took the None arm
            for t, v, _ in r.preds:
                if t[0] == 'discr' and sym.contains(t[1], lambda x: x == res) and sym.discr_variant(t, v) == 'None':
                    empty = True
        if not empty:
            problems.append('an exit reports OutOfCompressedData without a failed read of the compressed backend on that path (e.g. from an up-front `maybe_exhausted()` test): chunks that are already in the head, or still in the backend, are refused')
        writes = [e for e in r.events if e['kind'] == 'write' and e['path'][:3] == (1, 'deref', ('f', 'heads'))]
        if writes:
            problems.append('the heads are modified (%s at %s) on a path that then reports OutOfCompressedData: a failed attempt changes what later calls decode' % (sym.path_str(writes[0]['path']), (writes[0].get('span') or '?').split('-')[0]))
    if sinks['exhaust']:
        if problems:
            ctx.bad('R2', rolew, b.defpath, problems[0], key=kw, loc=rules.loc(b))
        else:
            ctx.ok('R2', rolew, b.defpath, '%d exhaustion exit(s): each returns the ok_or(..) of a read on that path and precedes every write to the heads' % len(sinks['exhaust']), key=kw)
    if sinks['exhaust']:
        ctx.ok('R3', 'running out of compressed data is decided by the compressed side only', b.defpath, '%d exhaustion exit(s), controlled by LOW predicates (see pred rule)' % len(sinks['exhaust']), key=key)
    else:
        ctx.bad('R3', 'running out of compressed data is decided by the compressed side only', b.defpath, 'no OutOfCompressedData exit found', key=key, loc=rules.loc(b))
    # the exhaustion *query* obeys the same discipline: its answer may consult the two backends and the compressed head, never
    # the remainders head, whose value depends on the models used so far
    me = [x for x in F.bodies if x.promoted is None and x.name == 'maybe_exhausted' and x.self_adt == CHAIN and (x.impl_trait or '') == 'stream::Decode']
    kq = 'R3/ni/exhaustion-query/' + CHAIN
    rq = 'Decode::maybe_exhausted does not look at the remainders head'
    if not me:
        ctx.unresolved('R3', rq, CHAIN, 'no Decode::maybe_exhausted override (the trait default answers `true`)', key=kq)
    else:
        ctx.touch(me[0])
        _, pq = rules.evaluate(me[0])
        is_rh = lambda x: isinstance(x, tuple) and x and x[0] == 'in' and ('f', 'heads') in x[1] and x[1][-1] == ('f', 'remainders')
        hit = None
        for r in pq or []:
            for t in [tt for tt, v, _ in r.preds] + ([r.ret] if r.ret is not None else []) + [a for e in r.events if e['kind'] == 'call' for a in (e.get('args_val') or []) if isinstance(a, tuple)]:
                if sym.contains(rules.inline_pure(F, t), is_rh):
                    hit = t
        if hit is not None:
            ctx.bad('R3', rq, me[0].defpath, 'the answer is computed from heads.remainders (%s): that head is the product of the probabilities of the models used so far, so whether the decoder reports that it may be exhausted now depends on the models, not on the compressed data alone' % sym.show(hit)[:100], key=kq, loc=rules.loc(me[0]))
        else:
            ctx.ok('R3', rq, me[0].defpath, 'the answer is a function of the backends (and at most the compressed head)', key=kq)
    check_precision_change_keeps_compressed_side(ctx, F)
    return meta()


def meta():
    return {
        'level': 'proof',
        'explanation': 'Path-sensitive non-interference check over the value graph of ChainCoder::decode_symbol and the frames of its `&mut self` helpers: no term derived from the model, the model\'s results, the '
                       'remainders head or the remainders backend reaches the quantile, the compressed head, the compressed backend or a decision that precedes them. Sound over-approximation: if no HIGH '
                       'label reaches a LOW sink on any path, no execution can transmit it; by induction over calls the LOW post-state depends only on the LOW pre-state. Level is downgraded to `other` '
                       'automatically if any obligation is unresolved or refuted. In addition (necessary condition of the chunk clause, not part of the proof): every new value of the compressed head depends on the old one.',
        'trusted_base': ['rustc type checker + MIR construction', 'cfacts extractor', 'Rust aliasing rules (a callee mutates only what it gets by &mut)', 'path enumeration covers all acyclic paths; decode_symbol has no loops'],
    }
