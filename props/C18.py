"""C18 — size, emptiness and exhaustion queries report exactly what is there (partial).

  1. ANS: num_words == remaining(bulk) + |words into_compressed appends|; num_bits == BITS * num_words   (R5/R4)
  2. range encoder: num_words == remaining(bulk) + num_seal_words(), seal() writes num_seal_words()    (R5)
  3. "empty"/"fresh" sentinels: the constant the constructors store is the constant the tests compare  (R4)
  4. diagnostics: overriding entropy/float-table methods are clones of the trait defaults, `&M`
     forwards; no possibly-zero power of two (wrapping_pow2 at PRECISION == BITS) reaches a divisor    (R4/R3)
the tolerance of maybe_exhausted is compared with the sealing addend as power-of-two polynomials over the widths. num_valid_bits() is evaluated over the bit-length model that from_binary establishes. Not decided: bit-coder len(), numeric value of
entropy / KL.
"""
from vlib import sym, rules, effects, dageq, anchors, pow2
from vlib.poly import Poly
from vlib.effects import Unresolved
import props.C08 as c08

ANS = c08.ANS
RENC = c08.RENC
NZ_WRAPPERS = ('BitArray::into_nonzero', 'core::option::Option::<T>::expect', 'core::option::Option::<T>::unwrap', 'BitArray::into_nonzero_unchecked',
               'NonZeroBitArray::new_unchecked', 'NonZeroBitArray::new', 'core::num::NonZero::<T>::get')


def peel(t):
    """Strip NonZero plumbing: into_nonzero(x).expect(..) -> x."""
    n = 0
    while t[0] == 'call' and t[1] in NZ_WRAPPERS and t[2] and n < 6:
        t = t[2][0]
        n += 1
    return t


def only_return(paths):
    rs = [r for r in paths or [] if r.end == 'return']
    return rs[0] if len(rs) == 1 else None


def iter_len_term(t):
    """normalise ExactSizeIterator::len(it) / Iterator::count(it) to the symbolic iterator length."""
    def f(n):
        if n and n[0] == 'call' and n[1] in ('core::iter::ExactSizeIterator::len', 'core::iter::Iterator::count') and n[2]:
            im = effects.IterModel.__new__(effects.IterModel)
            im.calls = {}
            im.preds = []
            im.known_some = set()
            try:
                return im.length(n[2][0])
            except Unresolved:
                return None
        return None
    return effects.rebuild(t, f)


def check_ans_sizes(ctx, F):
    nw = c08.get_body(F, [ANS + '::<', '::num_words'], 'num_words')
    nb = c08.get_body(F, [ANS + '::<', '::num_bits'], 'num_bits')
    into = c08.get_body(F, [ANS + '::<', '::into_compressed'], 'into_compressed')
    key = 'R5/num-words/' + ANS
    role = 'num_words() == words already in bulk + words into_compressed() appends'
    if not nw or not nb or not into:
        ctx.bad('R5', role, ANS, 'num_words / num_bits / into_compressed not found (public anchor missing)', key=key)
        return
    for b in (nw, nb, into):
        ctx.touch(b, calls=sum(1 for _ in b.calls()))
    _, pw = rules.evaluate(nw)
    _, pi = rules.evaluate(into)
    r = only_return(pw)
    src = None
    n_ext = 0
    for p in pi or []:
        # the success exit: `Ok(bulk)` after `?`, or the extend's own Result mapped to the buffer (`.map(|()| self.bulk)`)
        mapped = p.ret is not None and p.ret[0] == 'call' and str(p.ret[1]).endswith(('Result::<T, E>::map', 'Result::<T, E>::and_then'))
        if p.end != 'return' or not (rules.ret_shape(p.ret)[0] == 'Ok' or mapped):
            continue
        for e in p.events:
            if e['kind'] == 'call' and e.get('uid') is not None and any(pth[:1] == (1,) for pth in e['mut_paths']):
                # only calls that can modify the coder count (a trailing `.map(|()| self.bulk)` on the result does not)
                n_ext += 1
                if e['callee'].endswith('WriteWords::extend_from_iter') and e['args'][0][0] == 'ref' and e['args'][0][1] == (1, ('f', 'bulk')):
                    src = e['args'][1]
    if r is None and src is not None and n_ext == 1 and pw:
        # num_words() with several paths (e.g. a case split on the size of `state`): every path must still agree with
        # the number of chunks the exporter appends; a constant is only right where the path pins that number down
        try:
            im = effects.IterModel.__new__(effects.IterModel)
            im.calls, im.preds, im.known_some = {}, [], set()
            appended = effects.reroot(effects.strip_uid(im.length(src)), (1,), (1, 'deref'))
            remaining = ('call', 'backends::BoundedReadWords::remaining', (('in', (1, 'deref', ('f', 'bulk'))),), None)
            state = ('in', (1, 'deref', ('f', 'state')))
            import props.C04 as c04
            verdict = None
            n_paths = 0
            for rr in pw:
                if rr.end != 'return':
                    continue
                n_paths += 1
                got = sym.affine(iter_len_term(effects.strip_uid(rr.ret)))
                if effects.affine_eq(got, sym.affine(sym.mk_bin('Add', remaining, appended))):
                    continue
                # what do the path predicates say about the number of chunks of `state`?
                known = None
                for t, v, _ in rr.preds:
                    if t[0] == 'bin' and t[1] == 'Eq' and state in (t[2], t[3]) and pow2._is_zero(t[3] if t[2] == state else t[2]) and v:
                        known = 0
                    c = c04.canon_below(t, v)
                    if c is not None and c[0] == state and c[2] and c[1].show() == '2^(<Word as BitArray>::BITS)' and known is None:
                        if any(tt[0] == 'bin' and tt[1] == 'Eq' and state in (tt[2], tt[3]) and not vv for tt, vv, _ in rr.preds):
                            known = 1
                if known is not None and effects.affine_eq(got, sym.affine(sym.mk_bin('Add', remaining, ('int', known)))):
                    continue
                verdict = 'a path of num_words() returns %s although exporting appends %s words there (the path only knows %s about the state): wrong whenever State is wider than two Words' % (
                    sym.show(rr.ret)[:80], sym.show(appended), 'that it has %d chunk(s)' % known if known is not None else 'nothing exact')
                break
            if verdict:
                ctx.bad('R5', role, nw.defpath, verdict, key=key, loc=rules.loc(nw))
            else:
                ctx.ok('R5', role, nw.defpath, '%d paths, each returns remaining(bulk) + the number of chunks into_compressed appends on that path' % n_paths, key=key)
        except Unresolved as u:
            ctx.unresolved('R5', role, nw.defpath, str(u), key=key)
    elif r is None or src is None or n_ext != 1:
        ctx.unresolved('R5', role, nw.defpath, 'shape outside idiom list (into_compressed must be one extend_from_iter on bulk; found %d impure calls)' % n_ext, key=key)
    else:
        try:
            im = effects.IterModel.__new__(effects.IterModel)
            im.calls, im.preds, im.known_some = {}, [], set()
            appended = effects.reroot(effects.strip_uid(im.length(src)), (1,), (1, 'deref'))
            want = sym.mk_bin('Add', ('call', 'backends::BoundedReadWords::remaining', (('in', (1, 'deref', ('f', 'bulk'))),), None), appended)
            got = iter_len_term(effects.strip_uid(r.ret))
            if effects.affine_eq(sym.affine(got), sym.affine(want)):
                ctx.ok('R5', role, nw.defpath, 'num_words = %s; into_compressed appends %s words' % (sym.show(got), sym.show(appended)), key=key)
            else:
                ctx.bad('R5', role, nw.defpath, 'num_words() returns %s but exporting yields remaining(bulk) + %s words' % (sym.show(got), sym.show(appended)), key=key, loc=rules.loc(nw))
        except Unresolved as u:
            ctx.unresolved('R5', role, nw.defpath, str(u), key=key)
    check_num_bits(ctx, F, nb, nw, ANS)


def check_num_bits(ctx, F, nb, nw, adt):
    _, pb = rules.evaluate(nb)
    r = only_return(pb)
    key = 'R4/num-bits/' + adt
    role = 'num_bits() == Word::BITS * num_words()'
    want = sym.mk_bin('Mul', ('c', '<Word as BitArray>::BITS'), ('call', nw.defpath, (('in', (1, 'deref')),), None))
    if r is not None and effects.strip_uid(r.ret) == want:
        ctx.ok('R4', role, nb.defpath, sym.show(r.ret), key=key)
        return
    # the word count written out in place: compare `num_bits / Word::BITS` with the body of num_words() as affine forms
    _, pw = rules.evaluate(nw)
    rw = only_return(pw)
    got = effects.strip_uid(r.ret) if r is not None else None
    W = ('c', '<Word as BitArray>::BITS')
    if got is not None and rw is not None and got[0] == 'bin' and got[1].split('.')[0] == 'Mul' and W in (got[2], got[3]):
        words = got[3] if got[2] == W else got[2]
        try:
            a = sym.affine(iter_len_term(rules.inline_pure(F, words, depth=2)))
            b = sym.affine(iter_len_term(effects.strip_uid(rules.inline_pure(F, rw.ret, depth=2))))
            if a is not None and b is not None and effects.affine_eq(a, b):
                return ctx.ok('R4', role, nb.defpath, 'Word::BITS * (%s), the word count of num_words() written out' % sym.show(words)[:100], key=key)
            if a is not None and b is not None:
                return ctx.bad('R4', role, nb.defpath, 'returns Word::BITS * (%s) while num_words() is %s' % (sym.show(words)[:100], sym.show(rw.ret)[:100]), key=key, loc=rules.loc(nb))
        except Exception:
            pass
        return ctx.unresolved('R4', role, nb.defpath, 'returns %s, not comparable with num_words()' % sym.show(got)[:120], key=key)
    ctx.bad('R4', role, nb.defpath, 'returns %s' % (sym.show(r.ret) if r else 'several paths'), key=key, loc=rules.loc(nb))


def check_range_sizes(ctx, F):
    nw = c08.get_body(F, [RENC + '::<', '::num_words'], 'num_words')
    nb = c08.get_body(F, [RENC + '::<', '::num_bits'], 'num_bits')
    nsw = anchors.range_encoder_parts(F)['num_seal_words']
    key = 'R5/num-words/' + RENC
    role = 'num_words() == words already in bulk + num_seal_words()'
    if not nw or not nb or not nsw:
        ctx.bad('R5', role, RENC, 'num_words / num_bits / num_seal_words not found (anchor missing)', key=key)
        return
    ctx.touch(nw)
    ctx.touch(nb)
    _, pw = rules.evaluate(nw)
    r = only_return(pw)
    ok = False
    if r is not None:
        a = sym.affine(effects.strip_uid(r.ret))
        atoms = sorted((c, at) for c, at in a[0].values())
        if a[1] == 0 and len(atoms) == 2 and all(c == 1 for c, _ in atoms):
            names = sorted(at[1] for _, at in atoms if at[0] == 'call')
            ok = names == sorted(['backends::BoundedReadWords::remaining', nsw.defpath])
    if ok:
        ctx.ok('R5', role, nw.defpath, sym.show(r.ret)[:200], key=key)
    else:
        ctx.bad('R5', role, nw.defpath, 'returns %s' % (sym.show(r.ret)[:300] if r else 'several paths'), key=key, loc=rules.loc(nw))
    check_num_bits(ctx, F, nb, nw, RENC)


def check_sentinels(ctx, F):
    # ANS: default().state, is_empty, clear
    dflt = [b for b in F.bodies if b.promoted is None and b.name == 'default' and b.self_adt == ANS and b.dk == 'AssocFn']
    isem = c08.get_body(F, [ANS + '::<', '::is_empty'], 'is_empty')
    clear = [b for b in F.bodies if b.promoted is None and b.name == 'clear' and b.self_adt == ANS]
    key = 'R4/sentinel/' + ANS
    role = 'is_empty() tests the value a fresh coder stores'
    if not dflt or not isem:
        ctx.bad('R4', role, ANS, 'default() or is_empty() not found', key=key)
    else:
        _, pd = rules.evaluate(dflt[0])
        _, pe = rules.evaluate(isem)
        rd, re_ = only_return(pd), only_return(pe)
        sent = None
        if rd is not None and rd.ret[0] == 'agg' and rd.ret[3] and 'state' in rd.ret[3]:
            sent = peel(rd.ret[2][rd.ret[3].index('state')])
        want = sym.mk_bin('Eq', ('in', (1, 'deref', ('f', 'state'))), sent) if sent else None
        if re_ is not None and want is not None and re_.ret == want:
            ctx.ok('R4', role, isem.defpath, 'fresh state = %s; is_empty = %s' % (sym.show(sent), sym.show(re_.ret)), key=key)
        else:
            ctx.bad('R4', role, isem.defpath, 'fresh coder stores state = %s but is_empty() computes %s' % (sent and sym.show(sent), re_ and sym.show(re_.ret)), key=key, loc=rules.loc(isem))
        for cb in clear:
            _, pc = rules.evaluate(cb)
            evc = rules.evaluate(cb)[0]
            rc = only_return(pc)
            k2 = 'R4/reset/' + cb.defpath
            if rc is not None and sent is not None and peel(evc.final_read(rc, (1, 'deref', ('f', 'state')))) == sent:
                ctx.ok('R4', 'clear() restores the fresh sentinel', cb.defpath, 'state := ' + sym.show(sent), key=k2)
            else:
                ctx.bad('R4', 'clear() restores the fresh sentinel', cb.defpath, 'clear() does not store the value default() stores in `state`', key=k2, loc=rules.loc(cb))
    # range coder: default().range vs the comparisons in seal / num_seal_words / is_empty / decoder.maybe_exhausted
    sd = [b for b in F.bodies if b.promoted is None and b.name == 'default' and b.self_adt == 'stream::queue::RangeCoderState']
    key = 'R4/sentinel/' + RENC
    role = '"no symbol encoded yet" tests compare range with the value a fresh state stores'
    if not sd:
        ctx.bad('R4', role, RENC, 'RangeCoderState::default not found', key=key)
        return
    _, pd = rules.evaluate(sd[0])
    rd = only_return(pd)
    sent = None
    if rd is not None and rd.ret[0] == 'agg' and rd.ret[3] and 'range' in rd.ret[3]:
        sent = peel(rd.ret[2][rd.ret[3].index('range')])
    parts = anchors.range_encoder_parts(F)
    users = [('seal', RENC, parts['seal']), ('num_seal_words', RENC, parts['num_seal_words']), ('is_empty', RENC, parts['is_empty']),
             ('maybe_exhausted', 'stream::queue::RangeDecoder', anchors.method(F, 'stream::queue::RangeDecoder', 'maybe_exhausted'))]
    for name, adt, body in users:
        bs = [body] if body is not None else []
        k2 = 'R4/sentinel/%s::%s' % (adt, name)
        if not bs:
            ctx.bad('R4', role, adt + '::' + name, 'function not found (anchor missing)', key=k2)
            continue
        b = bs[0]
        ctx.touch(b)
        _, pp = rules.evaluate(b)
        cmp_terms = set()
        for r in pp or []:
            for t, v, _ in r.preds:
                for x in sym.subterms(t):
                    if isinstance(x, tuple) and x and x[0] == 'bin' and x[1] in ('Eq', 'Ne'):
                        ops = (x[2], x[3])
                        for o, other in ((ops[0], ops[1]), (ops[1], ops[0])):
                            if o[0] == 'in' and o[1][-1] == ('f', 'range'):
                                cmp_terms.add(peel(other))
            if r.ret is not None:
                for x in sym.subterms(r.ret):
                    if isinstance(x, tuple) and x and x[0] == 'bin' and x[1] in ('Eq', 'Ne'):
                        for o, other in ((x[2], x[3]), (x[3], x[2])):
                            if o[0] == 'in' and o[1][-1] == ('f', 'range'):
                                cmp_terms.add(peel(other))
        if sent is not None and cmp_terms == {sent}:
            ctx.ok('R4', role, b.defpath, 'compares range with %s' % sym.show(sent), key=k2)
        elif not cmp_terms:
            ctx.unresolved('R4', role, b.defpath, 'no equality test on `range` found', key=k2)
        else:
            ctx.bad('R4', role, b.defpath, 'fresh range = %s but the test compares with %s' % (sent and sym.show(sent), [sym.show(x) for x in cmp_terms]), key=k2, loc=rules.loc(b))


def check_ans_exhaustion_sees_head(ctx, F):
    """An ANS decoder keeps the last words of the stream in its head (`state`), not in the backend: with whole words left in
    the head and an empty backend it must still answer "not exhausted".  Rule: every `true` answer of AnsCoder's
    Decode::maybe_exhausted implies that the head holds the empty sentinel -- the answer is is_empty() (verified against the
    sentinel by the rule above), `state == sentinel`, or a conjunction with one of these."""
    bs = [b for b in F.bodies if b.promoted is None and b.name == 'maybe_exhausted' and b.self_adt == ANS and (b.impl_trait or '').endswith('Decode')]
    key = 'R4/exhaustion-sees-head/' + ANS
    role = 'maybe_exhausted() answers true only when the head is empty'
    if not bs:
        ctx.bad('R4', role, ANS, 'Decode::maybe_exhausted of the ANS coder not found', key=key)
        return
    isem = c08.get_body(F, [ANS + '::<', '::is_empty'], 'is_empty')
    st = ('in', (1, 'deref', ('f', 'state')))

    def implies_empty(t, v=True):
        t = peel(t)
        while isinstance(t, tuple) and t and (t[0] == 'not' or (t[0] == 'un' and t[1] == 'Not')):
            t, v = peel(t[1] if t[0] == 'not' else t[2]), not v
        if isinstance(t, tuple) and t and t[0] == 'bin' and t[1].split('.')[0] == 'Ne' and st in (t[2], t[3]) and not v:
            other = t[3] if t[2] == st else t[2]
            return pow2._is_zero(peel(other)) or sym.show(peel(other)) in ('zero()', '0')
        if not v:
            return False
        if isinstance(t, tuple) and t and t[0] == 'call' and isem is not None and t[1] == isem.defpath:
            return True
        if isinstance(t, tuple) and t and t[0] == 'bin' and t[1].split('.')[0] == 'Eq' and st in (t[2], t[3]):
            other = t[3] if t[2] == st else t[2]
            return pow2._is_zero(peel(other)) or sym.show(peel(other)) in ('zero()', '0')
        if isinstance(t, tuple) and t and t[0] == 'bin' and t[1].split('.')[0] in ('BitAnd', 'And'):
            return implies_empty(t[2]) or implies_empty(t[3])
        return False
    for b in bs:
        ctx.touch(b)
        _, paths = rules.evaluate(b)
        verdict = 'ok'
        why = ''
        for r in paths or []:
            if r.end != 'return':
                continue
            t = r.ret
            if sym.is_int(t) or (isinstance(t, tuple) and t and t[0] == 'bool'):
                val = t[1]
                if not val:
                    continue
                if any((not isinstance(v, tuple)) and implies_empty(p, bool(v)) for p, v, _ in r.preds):
                    continue
                verdict, why = 'bad', 'a path answers `true` without having tested the head'
            elif implies_empty(t) or any((not isinstance(v, tuple)) and implies_empty(p, bool(v)) for p, v, _ in r.preds):
                continue      # the answer itself, or the path it is given on, implies an empty head
            elif not sym.contains(t, lambda x: x == st or (isinstance(x, tuple) and x and x[0] == 'call' and isem is not None and x[1] == isem.defpath)) \
                    and not any(sym.contains(p, lambda x: x == st) for p, v, _ in r.preds):
                verdict, why = 'bad', 'the answer is %s: it does not look at the head, which holds the last one or more words of the stream after the backend has run empty, so a decoder with whole words left claims that it may be exhausted' % sym.show(t)[:80]
            elif verdict == 'ok':
                verdict, why = 'unresolved', 'answer %s mentions the head in a form the rule does not read' % sym.show(t)[:80]
        if verdict == 'bad':
            ctx.bad('R4', role, b.defpath, why, key=key, loc=rules.loc(b))
        elif verdict == 'unresolved':
            ctx.unresolved('R4', role, b.defpath, why, key=key)
        else:
            ctx.ok('R4', role, b.defpath, 'the answer is the emptiness test of the head', key=key)


def check_decode_overrides_exhaustion(ctx, F):
    """`Decode::maybe_exhausted` has a provided default that answers `true` always (allowed for decoders that cannot know).  The
    library's own decoders can know, and generic code (`Code::decoder_maybe_exhausted`, anything written against `Decode`) reaches
    their answer only through the trait method: each `impl Decode` of a crate-local coder overrides it, and where the type has
    an inherent method of the same name the override is that method."""
    adts = sorted({b.self_adt for b in F.bodies if b.promoted is None and (b.impl_trait or '') == 'stream::Decode' and b.name == 'decode_symbol'
                   and (b.self_adt or '').startswith('stream::') and '::tests::' not in b.defpath})
    for adt in adts:
        key = 'R4/decode-overrides-exhaustion/' + adt
        role = 'the Decode impl answers maybe_exhausted() itself (not through the always-true default)'
        ov = [b for b in F.bodies if b.promoted is None and b.name == 'maybe_exhausted' and b.self_adt == adt and (b.impl_trait or '') == 'stream::Decode']
        inh = [b for b in F.bodies if b.promoted is None and b.name == 'maybe_exhausted' and b.self_adt == adt and b.impl_trait is None]
        if not ov:
            ctx.bad('R4', role, adt, 'the `impl Decode` has no maybe_exhausted(): generic code gets the trait default, which answers `true` even when whole words are left%s' % (
                ' (the inherent method of the same name is exact, but a `D: Decode` bound never reaches it)' if inh else ''), key=key)
            continue
        b = ov[0]
        ctx.touch(b)
        _, paths = rules.evaluate(b)
        rets = [r.ret for r in paths or [] if r.end == 'return' and r.ret is not None]
        if rets and all(sym.is_int(t) or (isinstance(t, tuple) and t and t[0] == 'bool') for t in rets) and all((t[1] if len(t) > 1 else None) for t in rets):
            ctx.bad('R4', role, b.defpath, 'the override answers the constant `true`', key=key, loc=rules.loc(b))
        elif inh and not any(e['kind'] == 'call' and e['callee'] == inh[0].defpath for r in paths or [] for e in r.events):
            ctx.unresolved('R4', role, b.defpath, 'the override does not forward to the inherent method of the same name', key=key)
        else:
            ctx.ok('R4', role, b.defpath, 'overridden%s' % (' and forwards to the inherent method' if inh else ''), key=key)
    if len(adts) < 3:
        ctx.bad('R4', 'floor: Decode impls of the stream coders', 'stream', 'only %d found (AnsCoder, RangeDecoder, ChainCoder expected)' % len(adts), key='R4/floor/decode-impls')


class _NoModel(Exception):
    pass


def _chunker_counts_ceil(F):
    """the state chunker yields ceil(bitlen/W) items: (0 .. BITS - leading_zeros(x)).step_by(Chunk::BITS) + length-preserving adapters."""
    ch = anchors.state_chunker(F)
    if ch is None:
        return None
    _, paths = rules.evaluate(ch)
    r = only_return(paths)
    if r is None:
        return None
    t = r.ret
    while t[0] == 'call' and t[1].endswith(('Iterator::map', 'Iterator::rev')):
        t = t[2][0]
    if not (t[0] == 'call' and t[1].endswith('Iterator::step_by') and t[2][1][0] == 'c' and t[2][1][1].endswith('BITS')):
        return None
    rng = t[2][0]
    if not (rng[0] == 'agg' and rng[1][-1] == 'Range' and rng[2][0] == ('int', 0)):
        return None
    end = rng[2][1]
    if end[0] == 'bin' and end[1] == 'Sub' and end[2][0] == 'c' and end[2][1].endswith('BITS') and pow2._lz(end[3]) == ('arg', 1):
        return ch
    return None


def check_valid_bits(ctx, F):
    """num_valid_bits() of a coder loaded by from_binary equals the size of the data, by bit-length accounting.

    Step A (from_binary): the state accumulator starts at the constant 1 (bit length 1); every iteration that reads a word
    replaces it by (acc << W) | word under the guard acc < 2^(S-W), so its bit length grows by exactly W and nothing is
    shifted out.  Hence, after k words were absorbed:  bitlen(state) = 1 + k*W  and  remaining(bulk) = n - k.
    Step B: the term num_valid_bits() returns is evaluated as a polynomial over that model
    (leading_zeros(state) = S - bitlen, chunk count of the state = ceil(bitlen / W) = k + 1) and compared with n*W."""
    key = 'R6/valid-bits/' + ANS
    role = 'num_valid_bits() after from_binary(data) equals the number of bits in data'
    fb = anchors.method(F, ANS, 'from_binary')
    nv = anchors.method(F, ANS, 'num_valid_bits')
    if fb is None or nv is None:
        ctx.unresolved('R6', role, ANS, 'from_binary / num_valid_bits not found', key=key)
        return
    ctx.touch(fb); ctx.touch(nv)
    ev, paths = rules.evaluate(fb)
    fields = [f['name'] for f in F.adts[ANS]['variants'][0]['fields']]
    si = fields.index('state')
    # ---- step A
    acc = None
    why = None
    for r in paths or []:
        if r.end == 'return' and r.ret is not None and r.ret[0] == 'agg' and r.ret[1][-1] == 'Ok':
            st = r.ret[2][0][2][si]
            if st[0] != 'loop':
                why = 'returned state is not the loop accumulator'
            acc = st
    if acc is None or why:
        ctx.unresolved('R6', role, ANS, why or 'no accepting path', key=key)
        return
    local = acc[2]
    for r in paths or []:
        for e in r.events:
            if e['kind'] == 'loop_enter' and e['head'] == acc[1]:
                seed = e['pre'].get(local)
                if not (seed and seed[0] == 'k' and seed[1] == 'one'):
                    why = 'accumulator does not start at the constant 1'
        if r.end == 'backedge':
            v = r.store.get(local)
            if v == acc:
                continue
            reads = [e for e in r.events if e['kind'] == 'call' and e['callee'].endswith('ReadWords::read')]
            ok = v is not None and v[0] == 'bin' and v[1] == 'BitOr' and len(reads) == 1
            if ok:
                a, b = v[2], v[3]
                shl, w = (a, b) if (a[0] == 'bin' and a[1] == 'Shl') else (b, a)
                ok = shl[0] == 'bin' and shl[1] == 'Shl' and shl[2] == acc and shl[3][0] == 'c' and shl[3][1].endswith('<Word as BitArray>::BITS') \
                    and sym.contains(w, lambda x: isinstance(x, tuple) and x and x[0] == 'call' and str(x[1]).endswith('ReadWords::read'))
            guard = False
            for t, val, _ in r.preds:
                c = pow2.below_pow2(t, val)
                if c is not None and c[0] == acc and c[2]:
                    d = pow2.exp_cmp(pow2._exp_add(pow2.bits_of('State'), pow2.bits_of('Word'), -1), c[1])
                    guard = d is not None and d >= 0
            if not ok:
                why = 'loop step is not acc = (acc << Word::BITS) | <one word read>'
            elif not guard:
                why = 'loop step is not guarded by acc < 2^(State::BITS - Word::BITS)'
    if why:
        ctx.unresolved('R6', role, ANS, 'from_binary: ' + why, key=key)
        return
    # ---- step B
    ch = _chunker_counts_ceil(F)
    n, k, W, S = Poly.var('n'), Poly.var('k'), Poly.var('W'), Poly.var('S')
    one = Poly.const(1)
    notes = []

    def ev_t(t):
        if sym.is_int(t):
            return Poly.const(t[1])
        if t[0] == 'c':
            if t[1] == '<Word as BitArray>::BITS':
                return W
            if t[1] == '<State as BitArray>::BITS':
                return S
            raise _NoModel('constant ' + t[1])
        if t[0] == 'cast':
            return ev_t(t[2])
        if t[0] == 'bin':
            op = t[1].split('.')[0]
            if op in ('Add', 'Sub', 'Mul'):
                a, b = ev_t(t[2]), ev_t(t[3])
                return a + b if op == 'Add' else (a - b if op == 'Sub' else a * b)
            raise _NoModel('operator ' + t[1])
        if t[0] == 'call':
            nm = t[1]
            if nm.endswith('BoundedReadWords::remaining') and _is_field(t[2][0], 'bulk'):
                return n - k
            if nm.endswith('leading_zeros') and _is_field(t[2][0], 'state'):
                return S - one - k * W
            if nm.endswith('ExactSizeIterator::len') and t[2][0][0] == 'call' and ch is not None and t[2][0][1] == ch.defpath and _is_field(t[2][0][2][0], 'state'):
                return k + one
            if nm in ('core::cmp::max', 'core::cmp::Ord::max') and len(t[2]) == 2:
                a, b = ev_t(t[2][0]), ev_t(t[2][1])
                if (a - b).nonneg():
                    return a
                if (b - a).nonneg():
                    return b
                raise _NoModel('max(%s, %s) not decided' % (a, b))
            if nm.endswith('::saturating_sub') and len(t[2]) == 2:
                a, b = ev_t(t[2][0]), ev_t(t[2][1])
                if not (a - b).nonneg():
                    notes.append('saturating_sub(%s, %s) may clamp' % (a, b))
                return a - b
            raise _NoModel('call ' + nm)
        raise _NoModel('term ' + sym.show(t)[:60])
    _, vp = rules.evaluate(nv)
    r = only_return(vp)
    if r is None:
        ctx.unresolved('R6', role, ANS, 'num_valid_bits has several paths', key=key)
        return
    term = effects.strip_uid(rules.inline_pure(F, r.ret, depth=3, only=lambda d: d.startswith(ANS)))
    try:
        got = ev_t(term)
    except _NoModel as u:
        ctx.unresolved('R6', role, ANS, 'formula outside the model: %s' % u, key=key)
        return
    # ---- the empty coder (state == 0, nothing on the bulk): leading_zeros = S, no chunks, nothing remaining.  The formula
    # must come out as 0 without any intermediate subtraction going below zero (a panic in debug builds, 2^64 - 1 "valid bits"
    # in release builds); `BITS - 1 - leading_zeros`, the usual bit-position idiom, is only right for a non-zero state.
    keyE = 'R6/valid-bits-empty/' + ANS
    roleE = 'num_valid_bits() of an empty coder is 0 and no subtraction in it underflows'

    class _Underflow(Exception):
        pass

    def ev_empty(t):
        if sym.is_int(t):
            return Poly.const(t[1])
        if t[0] == 'c':
            if t[1] == '<Word as BitArray>::BITS':
                return W
            if t[1] == '<State as BitArray>::BITS':
                return S
            raise _NoModel('constant ' + t[1])
        if t[0] == 'cast':
            return ev_empty(t[2])
        if t[0] == 'bin':
            op = t[1].split('.')[0]
            if op in ('Add', 'Sub', 'Mul'):
                a, b = ev_empty(t[2]), ev_empty(t[3])
                if op == 'Sub':
                    d = a - b
                    # S >= 2 (a state holds at least two words of at least one bit)
                    if not d.nonneg() and not d.subst('S', Poly.var('S') + Poly.const(2)).nonneg():
                        raise _Underflow('(%s) - (%s)' % (a, b))
                    return d
                return a + b if op == 'Add' else a * b
            raise _NoModel('operator ' + t[1])
        if t[0] == 'call':
            nm = t[1]
            if nm.endswith('BoundedReadWords::remaining') and _is_field(t[2][0], 'bulk'):
                return Poly.const(0)
            if nm.endswith('leading_zeros') and _is_field(t[2][0], 'state'):
                return S
            if nm.endswith('ExactSizeIterator::len') and t[2][0][0] == 'call' and ch is not None and t[2][0][1] == ch.defpath and _is_field(t[2][0][2][0], 'state'):
                return Poly.const(0)
            if nm in ('core::cmp::max', 'core::cmp::Ord::max') and len(t[2]) == 2:
                a, b = ev_empty(t[2][0]), ev_empty(t[2][1])
                if (a - b).nonneg():
                    return a
                if (b - a).nonneg():
                    return b
                raise _NoModel('max(%s, %s) not decided' % (a, b))
            if nm.endswith('::saturating_sub') and len(t[2]) == 2:
                a, b = ev_empty(t[2][0]), ev_empty(t[2][1])
                return a - b if (a - b).nonneg() else Poly.const(0)
            raise _NoModel('call ' + nm)
        raise _NoModel('term ' + sym.show(t)[:60])
    try:
        ge = ev_empty(term)
        if ge.is_zero():
            ctx.ok('R6', roleE, ANS, 'with leading_zeros = State::BITS and an empty bulk the formula evaluates to 0, every subtraction stays non-negative', key=keyE)
        else:
            ctx.bad('R6', roleE, ANS, 'num_valid_bits = %s evaluates to %s for an empty coder (state 0, empty bulk) instead of 0' % (sym.show(term)[:160], ge), key=keyE, loc=rules.loc(nv))
    except _Underflow as u:
        ctx.bad('R6', roleE, ANS, 'num_valid_bits = %s: for an empty coder (state 0, leading_zeros = State::BITS) the subtraction %s goes below zero - a panic in debug builds, 2^64 - 1 valid bits in release builds' % (sym.show(term)[:160], u), key=keyE, loc=rules.loc(nv))
    except _NoModel as u:
        ctx.unresolved('R6', roleE, ANS, 'formula outside the model: %s' % u, key=keyE)
    want = n * W
    model = 'after k words were absorbed: remaining = n - k, bitlen(state) = 1 + k*W, leading_zeros = S - 1 - k*W, state chunks = k + 1'
    # reachable states: the loop stops when the state is full (S = (k+1)*W) or when the data ran out first (k = n)
    diff = got - want
    full = diff.subst('S', (k + one) * W)
    short = diff.subst('k', n)
    if full.is_zero() and short.is_zero():
        ctx.ok('R6', role, ANS, 'num_valid_bits = %s evaluates to %s, which equals n*W both when the state is full (S = (k+1)*W) and when the data ran out first (k = n) (%s)' % (sym.show(term)[:160], got, model), key=key)
    else:
        which = 'the state is full (S = (k+1)*W): off by %s' % full if not full.is_zero() else 'the data is shorter than the state (k = n < S/W - 1): off by %s' % short
        ctx.bad('R6', role, ANS, 'num_valid_bits = %s evaluates to %s instead of n*W when %s (%s)%s' % (
            sym.show(term)[:200], got, which, model, ('; ' + '; '.join(notes)) if notes else ''), key=key, loc=rules.loc(nv))


def _is_field(t, *names):
    return isinstance(t, tuple) and t and t[0] == 'in' and tuple(x[1] for x in t[1] if isinstance(x, tuple) and x[0] == 'f')[-len(names):] == names


def _reader_zero_fills(ctx, F):
    """the reader shifts in zeros once the stream is over: every update of `point` in the decoding step is
    point << W  or  (point << W) | <word read from bulk>.  True / False / None (decode_symbol not found)."""
    dec = anchors.method(F, anchors.RDEC, 'decode_symbol', 'stream::Decode')
    zero_fill = None
    if dec is not None:
        ctx.touch(dec)
        dev, dpaths = rules.evaluate(dec)
        zero_fill = bool(dpaths)
        P = (1, 'deref', ('f', 'point'))
        for r in dpaths or []:
            if r.end != 'return':
                continue
            v = dev.final_read(r, P)
            if v == ('in', P):
                continue
            shl = v
            if v[0] == 'bin' and v[1] == 'BitOr':
                a, b = v[2], v[3]
                shl, w = (a, b) if (a[0] == 'bin' and a[1] == 'Shl') else (b, a)
                if not any(isinstance(x, tuple) and x and x[0] == 'call' and str(x[1]).endswith('ReadWords::read') for x in sym.subterms(w)):
                    zero_fill = False
            if not (shl[0] == 'bin' and shl[1] == 'Shl' and shl[2] == ('in', P)):
                zero_fill = False
    return zero_fill


def check_reader_zero_fill(ctx, F):
    key = 'R4/reader-zero-fill/' + anchors.RDEC
    role = 'past the end of the data the decoder shifts zeros into its window'
    z = _reader_zero_fills(ctx, F)
    if z is None:
        ctx.bad('R4', role, anchors.RDEC, 'decode_symbol not found', key=key)
    elif z:
        ctx.ok('R4', role, anchors.RDEC, 'every update of point is point << W or (point << W) | word read', key=key)
    else:
        ctx.bad('R4', role, anchors.RDEC, 'an update of `point` is neither `point << W` nor `(point << W) | <word read>`: a missing word is not replaced by zeros, the suffix the sealing rule (point = lower + 2^k - 1, truncated) is tight for', key=key)


def check_exhaustion_tolerance(ctx, F):
    """maybe_exhausted() tolerates at least the largest distance that sealing can put between `point` and `lower`.

    seal() emits the top word of `lower + A`; the reader shifts in zeros once the stream is over (checked on the
    decoding step), so on an untouched stream  point - lower <= A, with equality when lower = 1 mod 2^k.  The test
    `point - lower < T` therefore answers "maybe exhausted" after the last symbol for every stream only if  T >= A + 1.
    T and A are read from the code as power-of-two polynomials over the symbolic widths (vlib/pow2.py).  (The code's own
    T is larger - it also tolerates appended one bits - which the property does not ask for and the rule does not demand.)"""
    parts = anchors.range_encoder_parts(F)
    seal = parts.get('seal')
    me = anchors.method(F, anchors.RDEC, 'maybe_exhausted')
    key = 'R10/exhaustion-tolerance/' + anchors.RDEC
    role = 'maybe_exhausted tolerates the full distance sealing can leave between point and lower'
    if seal is None or me is None:
        ctx.unresolved('R10', role, anchors.RDEC, 'seal or maybe_exhausted not found', key=key)
        return
    ctx.touch(seal); ctx.touch(me)
    ev, spaths = rules.evaluate(seal)
    A = k = None
    for r in spaths or []:
        for e in r.events:
            if e['kind'] != 'call':
                continue
            for a in e['args']:
                a = rules.inline_pure(F, a)      # the point may be computed by a private pure helper
                for x in sym.subterms(a):
                    if isinstance(x, tuple) and x and x[0] == 'bin' and x[1] == 'Shr' and isinstance(x[2], tuple) and x[2][0] == 'bin' and x[2][1].split('.')[0] == 'Add':
                        for l, add in ((x[2][2], x[2][3]), (x[2][3], x[2][2])):
                            if e['callee'].endswith('WriteWords::write') and _is_field(l, 'state', 'lower') and pow2.p2(add) is not None and pow2.width_exp(x[3]) is not None:
                                A, k = pow2.p2(add), pow2.width_exp(x[3])
    ev, mpaths = rules.evaluate(me)
    T = None
    for r in mpaths or []:
        terms = [t for t, v, _ in r.preds] + ([r.ret] if r.ret is not None else [])
        for t in terms:
            for x in sym.subterms(t):
                if isinstance(x, tuple) and x and x[0] == 'bin' and x[1] in ('Lt', 'Le') and isinstance(x[2], tuple) and x[2][0] == 'bin' and x[2][1].split('.')[0] == 'Sub' \
                        and _is_field(x[2][2], 'point') and _is_field(x[2][3], 'state', 'lower'):
                    T = pow2.p2(x[3])
                    if T is not None and x[1] == 'Le':
                        T = T.plus(pow2.P2([(pow2.E0, 1)]))
    zero_fill = _reader_zero_fills(ctx, F)
    if A is None or k is None or T is None or not zero_fill:
        ctx.unresolved('R10', role, anchors.RDEC, 'shape not recognised (sealing addend %s, emitted-word shift %s, tolerance %s, reader zero-fills past the end: %s)' % (
            'found' if A is not None else 'missing', 'found' if k is not None else 'missing', 'found' if T is not None else 'missing', zero_fill), key=key)
        return
    # with zero fill: point = floor((lower + A) / 2^k) * 2^k, so point - lower <= A (attained when lower = 1 mod 2^k, A = 2^k - 1)
    need = A.plus(pow2.P2([(pow2.E0, 1)]))
    d = T.plus(need, -1)
    sg = d.sign(exps_nonneg=True)
    ctx.assume('width differences in exponents (State::BITS - Word::BITS, ...) are non-negative: enforced by the coders\' compile-time assertions (witnessed in the thorough tier)')
    if sg in ('zero', 'pos', 'nonneg'):
        ctx.ok('R10', role, anchors.RDEC, 'tolerance T = %s; sealing addend A = %s; unseen low bits < 2^(%s); the reader shifts in zeros past the end, so point - lower <= A; T - (A + 1) = %s >= 0' % (T.show(), A.show(), sym.affine_str(k), d.show()), key=key)
    elif sg == 'neg':
        ctx.bad('R10', role, anchors.RDEC, 'tolerance T = %s is below A + 1 = %s (A = %s is what seal() adds to lower before it emits the top word; the reader zero-fills, so point - lower reaches A when lower = 1 mod 2^k): a decoder that consumed exactly the encoded symbols can have point - lower >= T and then reports "not exhausted"' % (
            T.show(), need.show(), A.show()), key=key, loc=rules.loc(me))
    else:
        ctx.unresolved('R10', role, anchors.RDEC, 'sign of T - (A + 1) = %s not decidable from coefficient signs' % d.show(), key=key)


def check_bit_coder_sentinel(ctx, F):
    """Bit-level coders: "is there a partial word?" is decided everywhere by comparing the same field with zero, and that
    field is what the constructors zero (sibling agreement of the emptiness sentinel)."""
    SYMC = 'symbol::SymbolCoder'
    users = {}
    for b in F.bodies:
        if b.promoted is not None or '::tests::' in b.defpath or b.dk not in ('Fn', 'AssocFn'):
            continue
        own = b.self_adt == SYMC
        guard = b.self_adt in ('symbol::StackCoderGuard', 'symbol::QueueEncoderGuard')
        if not (own or guard) or b.name not in ('len', 'is_empty', 'into_compressed', 'new', 'drop'):
            continue
        if own and b.name == 'new':
            continue
        ev, paths = rules.evaluate(b)
        fields = set()
        for r in paths or []:
            terms = [t for t, v, _ in r.preds] + ([r.ret] if r.ret is not None else [])
            for t in terms:
                for x in sym.subterms(t):
                    if isinstance(x, tuple) and x and x[0] == 'bin' and x[1] in ('Eq', 'Ne'):
                        for o, other in ((x[2], x[3]), (x[3], x[2])):
                            if other[0] == 'k' and other[1] == 'zero':
                                for y in sym.subterms(o):
                                    if isinstance(y, tuple) and y and y[0] == 'in' and y[1][-1][0] == 'f' and y[1][-1][1] in ('mask_last_written', 'current_word', 'mask_next_to_read'):
                                        fields.add(y[1][-1][1])
                                    if isinstance(y, tuple) and y and y[0] == 'proj' and isinstance(y[2], tuple) and y[2][0] == 'f' and y[2][1] in ('mask_last_written', 'current_word'):
                                        fields.add(y[2][1])
        if fields:
            users[b.defpath] = (b, fields)
            ctx.touch(b)
    key = 'R4/sentinel/' + SYMC
    role = 'every "partial word present?" test of the bit coders compares the same field with zero'
    allf = set()
    for dp, (b, f) in users.items():
        allf |= f
    if len(users) < 4:
        ctx.unresolved('R4', role, SYMC, 'only %d functions with a zero test on the partial-word fields found' % len(users), key=key)
    elif len(allf) == 1:
        ctx.ok('R4', role, SYMC, '%d functions, all test `%s == 0`' % (len(users), list(allf)[0]), key=key)
    else:
        # the deviant is the function whose field set differs from the majority
        from collections import Counter
        cnt = Counter(tuple(sorted(f)) for b, f in users.values())
        major = cnt.most_common(1)[0][0]
        dev = [(dp, sorted(f)) for dp, (b, f) in users.items() if tuple(sorted(f)) != major]
        ctx.bad('R4', role, SYMC, 'siblings test `%s == 0`, but %s tests %s: it answers "empty" for a coder whose partial word holds only zero bits' % (
            ', '.join(major), dev[0][0].rsplit('::', 1)[-1], dev[0][1]), key=key, loc=rules.loc(users[dev[0][0]][0]))


DIAG = ['entropy_base2', 'cross_entropy_base2', 'reverse_cross_entropy_base2', 'kl_divergence_base2', 'reverse_kl_divergence_base2',
        'floating_point_symbol_table']


def possibly_zero_divisors(F, body, seen=None):
    """Divisions whose divisor (or a float conversion feeding it) contains wrapping_pow2(..): zero when PRECISION == BITS."""
    out = []
    seen = seen if seen is not None else set()
    if body.defpath in seen:
        return out
    seen.add(body.defpath)
    ev, paths = rules.evaluate(body)
    for r in paths or []:
        terms = [r.ret] if r.ret is not None else []
        for e in r.events:
            if e['kind'] == 'call':
                terms.append(e['result'])
        for t in terms:
            for x in sym.subterms(t):
                if isinstance(x, tuple) and x and x[0] == 'bin' and x[1].split('.')[0] in ('Div', 'Rem'):
                    if sym.contains(x[3], lambda y: isinstance(y, tuple) and y and y[0] == 'call' and y[1].endswith('wrapping_pow2')):
                        out.append((body.defpath, sym.show(x[3])[:120]))
    for cb in F.closures_of(body):
        out += possibly_zero_divisors(F, cb, seen)
    return sorted(set(out))


def check_diagnostics(ctx, F):
    trait = 'stream::model::IterableEntropyModel'
    n_over = 0
    for name in DIAG:
        dflt = [b for b in F.bodies if b.promoted is None and b.trait == trait and b.name == name and b.impl is None]
        key = 'R3/nonzero-normaliser/%s::%s' % (trait, name)
        if not dflt:
            ctx.bad('R3', 'diagnostic default method', trait + '::' + name, 'default body not found (anchor missing)', key=key)
            continue
        d = dflt[0]
        ctx.touch(d, calls=sum(1 for _ in d.calls()))
        pz = possibly_zero_divisors(F, d)
        if pz:
            ctx.bad('R3', 'normalisation constant cannot be zero in an allowed configuration', d.defpath,
                    'divides by %s, which is 0 when PRECISION == Probability::BITS (two-point constant domain)' % pz[0][1], key=key, loc=rules.loc(d))
        else:
            ctx.ok('R3', 'normalisation constant cannot be zero in an allowed configuration', d.defpath, 'no wrapping_pow2 value reaches a divisor', key=key)
        fd = dageq.fingerprint(d)
        for o in [b for b in F.bodies if b.promoted is None and b.impl_trait == trait and b.name == name and b.impl is not None]:
            n_over += 1
            ctx.touch(o)
            k2 = 'R4/override/%s' % o.defpath
            role = 'overriding diagnostic equals the trait default (or forwards)'
            if _is_forward(o, trait, name):
                ctx.ok('R4', role, o.defpath, 'forwards to (*self).%s()' % name, key=k2)
                continue
            fo = dageq.fingerprint(o)
            if fo == fd:
                ctx.ok('R4', role, o.defpath, 'structurally identical to the default (%d path summaries incl. closures)' % len(fd), key=k2)
            else:
                pz = possibly_zero_divisors(F, o)
                ctx.bad('R4', role, o.defpath, 'differs from the trait default: ' + dageq.diff(fd, fo) + (' ; possibly-zero divisor %s' % pz[0][1] if pz else ''), key=k2, loc=rules.loc(o))
    # the floating-point view of a single probability is a provided method of EncoderModel: an impl that overrides it is held to
    # the same standard (equal to the default, or a forward) - the default reads the exact fixed-point probability off
    # left_cumulative_and_probability, a "cheaper" recomputation from stored floats does not
    etrait = 'stream::model::EncoderModel'
    for name in ('floating_point_probability',):
        dflt = [b for b in F.bodies if b.promoted is None and b.trait == etrait and b.name == name and b.impl is None]
        if not dflt:
            ctx.unresolved('R4', 'overriding view equals the trait default (or forwards)', etrait + '::' + name, 'default body not found', key='R4/override/%s::%s' % (etrait, name))
            continue
        fd = dageq.fingerprint(dflt[0])
        ctx.touch(dflt[0])
        for o in [b for b in F.bodies if b.promoted is None and b.impl_trait == etrait and b.name == name and b.impl is not None and '::tests::' not in b.defpath]:
            n_over += 1
            ctx.touch(o)
            k2 = 'R4/override/%s' % o.defpath
            role = 'overriding view equals the trait default (or forwards)'
            if _is_forward(o, etrait, name):
                ctx.ok('R4', role, o.defpath, 'forwards to (*self).%s()' % name, key=k2)
            elif dageq.fingerprint(o) == fd:
                ctx.ok('R4', role, o.defpath, 'structurally identical to the default', key=k2)
            else:
                ctx.bad('R4', role, o.defpath, 'overrides the provided floating-point view with a different computation: the default is the exact fixed-point probability (from left_cumulative_and_probability) divided by 2^PRECISION; ' + dageq.diff(fd, dageq.fingerprint(o))[:300], key=k2, loc=rules.loc(o))
    # inherent entropy_base2 of the hash-map encoder model
    for b in [b for b in F.bodies if b.promoted is None and b.name == 'entropy_base2' and b.impl_trait is None and b.dk == 'AssocFn' and b.trait is None]:
        pz = possibly_zero_divisors(F, b)
        k2 = 'R3/nonzero-normaliser/' + b.defpath
        (ctx.bad if pz else ctx.ok)('R3', 'normalisation constant cannot be zero in an allowed configuration', b.defpath,
                                   ('divides by %s' % pz[0][1]) if pz else 'no wrapping_pow2 value reaches a divisor', key=k2)
    ctx.extra['diagnostic_overrides'] = n_over
    if n_over < 2:
        ctx.notes.append('fewer diagnostic overrides than on the reference tree (%d); not an alarm' % n_over)


DIRECTION = {   # method -> (distribution the expectation is taken under, distribution(s) whose log appears)
    'entropy_base2': ('self', {'self'}),
    'cross_entropy_base2': ('p', {'self'}),
    'reverse_cross_entropy_base2': ('self', {'p'}),
    'kl_divergence_base2': ('p', {'p', 'self'}),
    'reverse_kl_divergence_base2': ('self', {'p', 'self'}),
}


def check_diagnostic_directions(ctx, F):
    """The provided information-theoretic diagnostics follow their textbook definitions in *direction*: the expectation of
    H(p, self) and D_KL(p || self) is taken under the argument p, that of the `reverse_` forms and of the entropy under the
    model itself, and the logarithms are those of the other distribution (both for the divergences).  Read from the
    summand closure `weight * log-part`; a diagnostic that is defined through its siblings may only use siblings of its own
    direction (or the direction-free entropy)."""
    TR = 'stream::model::IterableEntropyModel'
    for name, (want_w, want_logs) in DIRECTION.items():
        key = 'R4/diagnostic-direction/' + name
        role = '%s weights by %s and takes the logarithm of %s' % (name, want_w, ' and '.join(sorted(want_logs)))
        bs = [x for x in F.bodies if x.promoted is None and x.name == name and x.trait == TR and x.impl is None]
        if not bs:
            ctx.unresolved('R4', role, TR, 'provided method not found', key=key)
            continue
        b = bs[0]
        ctx.touch(b)

        def who(t):
            # which distribution does a leaf of the summand come from?  item = ((symbol, left, probability), p)  or  (symbol, left, probability)
            out = set()
            for x in sym.subterms(t):
                if isinstance(x, tuple) and x and x[0] == 'in' and x[1][0] == 2:
                    fs = [q[1] for q in x[1][1:] if isinstance(q, tuple) and q[0] == 'f']
                    if fs[:1] == ['1']:
                        out.add('p')
                    elif fs[-1:] == ['2']:
                        out.add('self')
            return out
        verdict = None
        n_sum = 0
        all_w, all_logs = set(), set()
        for cb in F.closures_of(b):
            _, cp = rules.evaluate(cb)
            def parts(t):
                # a summand may itself be a sum/difference of products: w*log a - w*log b
                if isinstance(t, tuple) and t and t[0] == 'bin' and t[1].split('.')[0] in ('Add', 'Sub'):
                    return parts(t[2]) + parts(t[3])
                if isinstance(t, tuple) and t and t[0] == 'un' and t[1] == 'Neg':
                    return parts(t[2])
                return [t]
            has_log = lambda y: sym.contains(y, lambda z: isinstance(z, tuple) and z and z[0] == 'call' and str(z[1]).endswith('::log2'))
            prods = [t for r in cp or [] if r.end == 'return' and r.ret is not None for t in parts(r.ret)]
            for t in prods:
                if not (isinstance(t, tuple) and t and t[0] == 'bin' and t[1].split('.')[0] == 'Mul'):
                    continue
                fa, fb = t[2], t[3]
                if has_log(fa) == has_log(fb):
                    continue
                logp, weight = (fa, fb) if has_log(fa) else (fb, fa)
                n_sum += 1
                w = who(weight)
                logs = set()
                for z in sym.subterms(logp):
                    if isinstance(z, tuple) and z and z[0] == 'call' and str(z[1]).endswith('::log2'):
                        logs |= who(z[2][0])
                all_w |= w
                all_logs |= logs
                # a sum may be split (sum w*log a - sum w*log b): every part carries the right weight, the parts together the right logarithms
                if w != {want_w} or not logs <= want_logs:
                    verdict = 'a summand weights by %s and takes the logarithm of %s' % (sorted(w), sorted(logs))
        if n_sum == 0:
            # defined through siblings?
            _, paths = rules.evaluate(b)
            used = set()
            for r in paths or []:
                for e in r.events:
                    if e['kind'] == 'call' and e['name'] in DIRECTION and e['name'] != name:
                        used.add(e['name'])
            if not used:
                ctx.unresolved('R4', role, b.defpath, 'no `weight * log` summand and no sibling diagnostic found', key=key)
                continue
            wrong = [u for u in used if DIRECTION[u][0] != want_w and u != 'entropy_base2']
            if wrong:
                ctx.bad('R4', role, b.defpath, 'it is computed from %s, which takes its expectation under %s: the result is a different quantity (it still vanishes when p equals the model, so a sanity check with identical distributions passes)' % (
                    ', '.join(sorted(wrong)), DIRECTION[wrong[0]][0]), key=key, loc=rules.loc(b))
            else:
                ctx.ok('R4', role, b.defpath, 'defined through %s (same direction)' % ', '.join(sorted(used)), key=key)
            continue
        if not verdict and all_logs != want_logs:
            verdict = 'the summands together take the logarithm of %s only' % sorted(all_logs)
        if verdict:
            ctx.bad('R4', role, b.defpath, verdict, key=key, loc=rules.loc(b))
        else:
            ctx.ok('R4', role, b.defpath, '%d summand(s): weight from %s, logarithm of %s' % (n_sum, want_w, ' and '.join(sorted(want_logs))), key=key)


def _is_forward(o, trait, name):
    _, paths = rules.evaluate(o)
    r = only_return(paths)
    if r is None:
        return False
    calls = [e for e in r.events if e['kind'] == 'call']
    return len(calls) == 1 and calls[0]['callee'] == trait + '::' + name and r.ret == calls[0]['result']


def run(ctx):
    F = ctx.F
    check_ans_sizes(ctx, F)
    check_range_sizes(ctx, F)
    c08.check_encoder_guard(ctx, F)      # seal() writes num_seal_words() words; frame of seal (shared with C08)
    check_sentinels(ctx, F)
    check_ans_exhaustion_sees_head(ctx, F)
    check_decode_overrides_exhaustion(ctx, F)
    check_bit_coder_sentinel(ctx, F)
    check_exhaustion_tolerance(ctx, F)
    check_valid_bits(ctx, F)
    import props.C16 as c16
    c16.check_queue_exhaustion(ctx, F)
    check_diagnostics(ctx, F)
    check_diagnostic_directions(ctx, F)
    ctx.assume('remaining() of the backend is exact (C17 for the provided backends)')
    ctx.assume('ExactSizeIterator::len of bit_array_to_chunks_truncated equals the number of items it yields (std contract of Range/StepBy/Rev/Map)')
    return {
        'level': 'other',
        'explanation': 'Static agreement rules over extracted MIR: the value returned by num_words()/num_bits() is compared, as an affine form over symbolic atoms (remaining(bulk), chunk count of state, '
                       'num_seal_words()), with the number of words the export path appends (loop-summarised effect count); "empty" sentinels are compared as atoms between constructors and tests; '
                       'diagnostic overrides are compared structurally with the trait defaults and checked for possibly-zero divisors. the tolerance of maybe_exhausted is compared with the sealing addend as power-of-two polynomials over the widths. num_valid_bits() is evaluated over the bit-length model that from_binary establishes. Not decided: '
                       'bit-coder len(), the numeric value of the information-theoretic diagnostics.',
        'trusted_base': ['rustc type checker + MIR construction', 'cfacts extractor', 'iterator length algebra (vlib/effects.py)', 'std iterator contracts'],
    }
