"""C01 — ANS coder is a lossless stack under any history (partial).

Statically decided clauses:
  1. batch / fallible / iid forms == the per-symbol loop: no impl overrides the provided batch methods; each
     default body makes exactly one encode_symbol / decode_symbol call per yielded item, with the item's
     components as operands, propagates its error, and touches the coder in no other way            (R4/R2/R5)
  2. reverse forms = forward form applied to `.into_iter().rev()` and nothing else                  (R4)
  3. state-writer inventory: every conversion copies `state` unchanged; the functions that assign
     `state` are the coding steps, clear() and seek()                                              (R7)
  4. Clone is the derived, field-wise one                                                          (R7)
  5. configuration guards (compile-fail witnesses, thorough tier)                                  (R9)
Not decided: that encode_symbol and decode_symbol are inverse; flush/refill thresholds; export/import
value identity.  A change of a threshold or of the state update is NOT detected by this check.
"""
import re
from vlib import sym, rules, effects, anchors, facts
from vlib.effects import Unresolved

ANS = 'stream::stack::AnsCoder'
ENC = 'stream::Encode'
DEC = 'stream::Decode'
BATCH_ENC = ['encode_symbols', 'try_encode_symbols', 'encode_iid_symbols']
BATCH_DEC = ['decode_symbols', 'try_decode_symbols', 'decode_iid_symbols']


def default_body(F, trait, name):
    bs = [b for b in F.bodies if b.promoted is None and b.trait == trait and b.name == name and b.impl is None]
    return bs[0] if bs else None


def check_override_inventory(ctx, F):
    n = 0
    for imp in F.impls:
        t = imp.get('trait')
        if t not in (ENC, DEC):
            continue
        n += 1
        names = [i['name'] for i in imp['items']]
        over = [x for x in names if x in (BATCH_ENC if t == ENC else BATCH_DEC)]
        key = 'R4/override-inventory/%s' % imp['path']
        if over:
            ctx.bad('R4', 'impl does not override the provided batch forms', imp['path'],
                    '`%s` overrides %s: the batch form is no longer the per-symbol loop by construction' % (imp.get('trait_ref'), over), key=key, loc=imp['span']['at'].split('-')[0])
        else:
            ctx.ok('R4', 'impl does not override the provided batch forms', imp['path'], '%s provides %s' % (imp.get('trait_ref'), names), key=key)
    if n < 6:
        ctx.bad('R4', 'floor: Encode/Decode impls', 'stream', 'only %d impls of Encode/Decode found (3 + 3 on the reference tree)' % n, key='R4/floor/encode-decode-impls')


def item_of(next_result):
    return ('payload', next_result, 'Some', '0')


def is_proj_of(t, base, idx):
    """t == base.idx (tuple field projection of an opaque term)"""
    return t == ('proj', base, ('f', str(idx)))


def decode_next_inline(F, ev, rets, fallible):
    """next() written with an inline match / `?` on self.models.next().  Returns (ok, text) or None if not this shape."""
    MODELS = (1, 'deref', ('f', 'models'))
    n_some = n_none = 0
    for p in rets:
        nx = [e for e in p.events if e['kind'] == 'call' and e['callee'] == 'core::iter::Iterator::next']
        if len(nx) != 1 or nx[0]['args'][0][1] != MODELS:
            return None
        items = [item_of(nx[0]['result']), ('unwrap', nx[0]['result'])]     # `match`/`if let` payload, or the value of `next()?`
        item = items[0]
        decs = [e for e in p.events if e['kind'] == 'call' and e['callee'] == DEC + '::decode_symbol']
        got = None
        for t, v, _ in p.preds:
            if t[0] == 'discr' and (t[1] == nx[0]['result'] or t[1] == ('try', nx[0]['result'])):
                dv = sym.discr_variant(t, v)
                got = {'Some': True, 'Continue': True, 'None': False, 'Break': False}.get(dv, got)
        if got is None:
            return None
        if not got:
            n_none += 1
            if decs:
                return (False, 'a symbol is decoded although the model iterator is exhausted')
            if rules.ret_shape(p.ret)[0] not in ('None',) and not (p.ret is not None and p.ret[0] == 'err_of'):
                return (False, 'the exhausted-iterator exit does not return None')
            continue
        n_some += 1
        sh = rules.ret_shape(p.ret)
        if sh[0] != 'Some':
            return (False, 'a yielded model does not produce an item')
        if not fallible:
            if len(decs) != 1 or decs[0]['args'][1] not in items or sh[1] != decs[0]['result']:
                return (False, 'the item is not `decoder.decode_symbol(model)` for the yielded model')
        else:
            ok_models = [('payload', it, 'Ok', '0') for it in items]
            is_ok = any(t[0] == 'discr' and t[1] in items and sym.discr_variant(t, v) == 'Ok' for t, v, _ in p.preds)
            is_err = any(t[0] == 'discr' and t[1] in items and sym.discr_variant(t, v) == 'Err' for t, v, _ in p.preds)
            if is_ok:
                if len(decs) != 1 or decs[0]['args'][1] not in ok_models or not sym.contains(sh[1], lambda x, res=decs[0]['result']: x == res):
                    return (False, 'an Ok model is not decoded with exactly that model, or the decoded result is not what the item carries')
            elif is_err:
                if decs:
                    return (False, 'a symbol is decoded although the model iterator yielded an error')
                if not any(sym.contains(sh[1], lambda x, it=it: x == ('payload', it, 'Err', '0')) for it in items):
                    return (False, 'the error of an invalid model is not passed on')
            else:
                return None
    if n_none != 1 or n_some < 1:
        return None
    return (True, 'inline form: one decode_symbol per yielded %s, None when the model iterator is exhausted' % ('Ok model (errors passed on)' if fallible else 'model'))


def loop_batch_check(ctx, F, name, fallible, ENC=ENC):
    b = default_body(F, ENC, name)
    key = 'R5/batch-is-loop/%s::%s' % (ENC, name)
    role = 'one encode_symbol per yielded item, operands = the item, error propagated, no other mutation'
    if b is None:
        ctx.bad('R5', role, ENC + '::' + name, 'provided method not found (public anchor missing)', key=key)
        return
    ev, paths = rules.evaluate(b)
    ctx.touch(b, calls=sum(1 for _ in b.calls()))
    if paths is None:
        ctx.unresolved('R5', role, b.defpath, 'too many paths', key=key)
        return
    bad = None
    n_back = n_exit_ok = n_err_enc = n_err_item = 0
    src_ok = False
    for r in paths:
        enc = [e for e in r.events if e['kind'] == 'call' and e['callee'] == ENC + '::encode_symbol']
        other_mut = [e for e in r.events if e['kind'] == 'call' and e.get('uid') is not None and e['callee'] != ENC + '::encode_symbol'
                     and any(p[:2] == (1, 'deref') for p in e['mut_paths'])]
        writes = rules.self_writes(r)
        nxt = [e for e in r.events if e['kind'] == 'call' and e['callee'] == 'core::iter::Iterator::next']
        for e in r.events:
            if e['kind'] == 'loop_enter':
                for p, v in e['pre'].items():
                    vv = effects.strip_uid(v)
                    while vv[0] == 'call' and vv[1].endswith('into_iter') and vv[2]:
                        vv = vv[2][0]
                    if vv == ('arg', 2):
                        src_ok = True
        if other_mut or writes:
            bad = 'the batch form touches the coder outside encode_symbol (%s)' % ([e['callee'] for e in other_mut] + [sym.path_str(w['path']) for w in writes])[:3]
            break
        if r.end == 'backedge':
            n_back += 1
            if len(enc) != 1 or len(nxt) != 1:
                bad = 'one loop iteration makes %d encode_symbol call(s) for %d item(s)' % (len(enc), len(nxt))
                break
            item = item_of(nxt[0]['result'])
            a = enc[0]['args']
            if fallible:
                # item is Result<(S, M), E>; the operands must be the components of its unwrapped (Ok) value
                vals = [('payload', item, 'Ok', '0')]          # `match item { Ok((s, m)) => .. }`
                for e in r.events:
                    if e['kind'] == 'call' and e['callee'].endswith('::map_err') and e['args'] and e['args'][0] == item:
                        vals.append(('unwrap', e['result']))        # `item.map_err(..)?`
                if not any(is_proj_of(a[1], val, 0) and is_proj_of(a[2], val, 1) for val in vals):
                    bad = 'encode_symbol is not called with the components of the item\'s Ok value'
                    break
            else:
                if not (is_proj_of(a[1], item, 0) and is_proj_of(a[2], item, 1)):
                    bad = 'encode_symbol is called with (%s, %s), not with the two components of the yielded item' % (sym.show(a[1])[:60], sym.show(a[2])[:60])
                    break
            if a[0] != ('ref', (1, 'deref'), True):
                bad = 'encode_symbol is not applied to self'
                break
            # its result must be `?`-propagated: a Continue decision on try(result) is on the path
            # its result decides whether the loop goes on: `?` (Continue of try(result)) or an explicit match / if-let (Ok arm)
            res_e = enc[0]['result']
            propagated = any(t[0] == 'discr' and ((t[1] == ('try', res_e) and sym.discr_variant(t, v) == 'Continue') or (t[1] == res_e and sym.discr_variant(t, v) == 'Ok')) for t, v, _ in r.preds)
            if not propagated:
                bad = 'the loop continues without having examined the result of encode_symbol (an encoding error would be dropped)'
                break
        elif r.end == 'return':
            sh = rules.ret_shape(r.ret)
            if sh[0] == 'Ok':
                n_exit_ok += 1
                if enc:
                    bad = 'the success exit is reached with a pending encode_symbol outside the loop'
                    break
            elif r.ret is not None and (r.ret[0] == 'err_of' or sh[0] == 'Err'):
                # which error is reported: the one of encode_symbol, or the one carried by the item?
                if enc and sym.contains(r.ret, lambda x, res=enc[-1]['result']: x == res):
                    n_err_enc += 1
                elif nxt and sym.contains(r.ret, lambda x, it=item_of(nxt[-1]['result']): x == it):
                    n_err_item += 1
                    if enc:
                        bad = 'an invalid item is reported after it was already encoded'
                        break
    if not bad and n_back == 0 and not fallible:
        # adaptor form: `symbols_and_models.into_iter().try_for_each(|(s, m)| self.encode_symbol(s, m))`
        rets = [r for r in paths if r.end == 'return']
        if len(rets) == 1 and rets[0].ret[0] == 'call' and rets[0].ret[1].endswith('Iterator::try_for_each') and len(rets[0].ret[2]) == 2:
            src, cl = effects.strip_uid(rets[0].ret[2][0]), rets[0].ret[2][1]
            while src[0] == 'call' and src[1].endswith('into_iter'):
                src = src[2][0]
            cb = F.by_def.get(cl[1][1]) if cl[0] == 'agg' and isinstance(cl[1], tuple) and cl[1][0] == 'closure' else None
            if src == ('arg', 2) and cb is not None:
                _, cp = rules.evaluate(cb)
                cr = [p for p in cp or [] if p.end == 'return']
                ctx.touch(cb)
                if len(cr) == 1:
                    encs = [e for e in cr[0].events if e['kind'] == 'call' and e['callee'] == ENC + '::encode_symbol']
                    comp = lambda t, i: is_proj_of(t, ('arg', 2), i) or t == ('in', (2, ('f', str(i))))
                    if len(encs) == 1 and cr[0].ret == encs[0]['result'] and comp(encs[0]['args'][1], 0) and comp(encs[0]['args'][2], 1):
                        ctx.ok('R5', role, b.defpath, 'arg.into_iter().try_for_each(|item| self.encode_symbol(item.0, item.1)) (std: in order, stops at the first error)', key=key)
                        return
    if not bad and n_back == 0:
        # the per-item call sits in a closure driven by an adaptor that cannot stop early (fold / for_each / map ..): items
        # behind a failing one are still encoded
        for r in paths:
            for e in r.events:
                if e['kind'] != 'call' or not re.search(r'Iterator::(fold|for_each|map|inspect|filter_map|scan)$', e['callee']):
                    continue
                for a in e['args']:
                    cb = F.by_def.get(a[1][1]) if a[0] == 'agg' and isinstance(a[1], tuple) and a[1][0] == 'closure' else None
                    if cb is not None and any(facts.callee_def(t) == ENC + '::encode_symbol' for _, t in cb.calls()):
                        bad = 'encode_symbol is called from a closure driven by `%s`, which does not stop at the first error: the items behind a failing one are still encoded' % e['callee'].split('::')[-1]
    if not bad:
        if n_back != 1 or n_exit_ok != 1 or n_err_enc != 1 or (fallible and n_err_item != 1):
            ctx.unresolved('R5', role, b.defpath, 'shape outside the idiom list (iterations %d, ok exits %d, encode-error exits %d, item-error exits %d)' % (n_back, n_exit_ok, n_err_enc, n_err_item), key=key)
            return
        if not src_ok:
            bad = 'the loop does not iterate over the argument'
    if bad:
        ctx.bad('R5', role, b.defpath, bad, key=key, loc=rules.loc(b))
    else:
        ctx.ok('R5', role, b.defpath, 'for item in arg: self.encode_symbol(item.0, item.1)?%s' % (' (item error first)' if fallible else ''), key=key)


def check_iid_encode(ctx, F):
    b = default_body(F, ENC, 'encode_iid_symbols')
    key = 'R4/iid-is-map/%s::encode_iid_symbols' % ENC
    role = 'encode_iid_symbols = encode_symbols(symbols.map(|s| (s, model)))'
    if b is None:
        ctx.bad('R4', role, ENC, 'provided method not found', key=key)
        return
    ev, paths = rules.evaluate(b)
    ctx.touch(b)
    r = [p for p in paths or [] if p.end == 'return']
    ok = False
    why = 'not a single-path delegation'
    if len(r) == 1:
        calls = [e for e in r[0].events if e['kind'] == 'call' and e.get('uid') is not None]
        if len(calls) == 1 and calls[0]['callee'] == ENC + '::encode_symbols' and r[0].ret == calls[0]['result'] and calls[0]['args'][0] == ('ref', (1, 'deref'), True):
            it = effects.strip_uid(calls[0]['args'][1])
            if it[0] == 'call' and it[1].endswith('::map') and len(it[2]) == 2:
                src, cl = it[2]
                while src[0] == 'call' and src[1].endswith('into_iter'):
                    src = src[2][0]
                if src == ('arg', 2) and cl[0] == 'agg' and isinstance(cl[1], tuple) and cl[1][0] == 'closure' and len(cl[2]) == 1 and (cl[2][0] == ('arg', 3) or (cl[2][0][0] == 'ref' and cl[2][0][1] == (3,))):
                    cb = F.by_def.get(cl[1][1])
                    if cb is not None:
                        _, cp = rules.evaluate(cb)
                        cr = [p for p in cp or [] if p.end == 'return']
                        ctx.touch(cb)
                        if len(cr) == 1 and cr[0].ret[0] == 'agg' and cr[0].ret[1] == 'tuple' and len(cr[0].ret[2]) == 2:
                            s, m = cr[0].ret[2]
                            if s == ('arg', 2) and m[0] == 'in' and m[1][0] == 1:
                                ok = True
                            else:
                                why = 'closure builds (%s, %s), not (symbol, model)' % (sym.show(s), sym.show(m))
                else:
                    why = 'iterator source/closure capture unexpected: %s' % sym.show(it)[:120]
            else:
                why = 'argument of encode_symbols is %s' % sym.show(it)[:120]
    (ctx.ok if ok else ctx.bad)('R4', role, b.defpath, 'closure pairs each symbol with the captured model' if ok else why, key=key)


def check_decode_adaptors(ctx, F):
    # constructors of the lazy iterators
    for name, adt, fields in (('decode_symbols', 'stream::DecodeSymbols', ('decoder', 'models')),
                              ('try_decode_symbols', 'stream::TryDecodeSymbols', ('decoder', 'models')),
                              ('decode_iid_symbols', 'stream::DecodeIidSymbols', ('decoder', 'model', 'amt'))):
        b = default_body(F, DEC, name)
        key = 'R4/decode-adaptor-ctor/%s' % name
        role = 'batch decoder wraps self and the caller\'s models/amount unchanged'
        if b is None:
            ctx.bad('R4', role, DEC + '::' + name, 'provided method not found', key=key)
            continue
        ev, paths = rules.evaluate(b)
        ctx.touch(b)
        r = [p for p in paths or [] if p.end == 'return']
        ok = False
        if len(r) == 1 and r[0].ret[0] == 'agg' and isinstance(r[0].ret[1], tuple) and r[0].ret[1][1] == adt:
            vals = dict(zip(r[0].ret[3], r[0].ret[2]))
            dv = vals.get('decoder')
            if isinstance(dv, tuple) and dv and dv[0] == 'ref' and len(dv[1]) == 2 and dv[1][1] == 'deref' and dv[1][0] != 1:
                dv = r[0].store.get((dv[1][0],), dv)        # a reborrow of a local that was bound to `self` (`let decoder = self;`)
            dec_ok = dv in (('ref', (1, 'deref'), True), ('arg', 1))
            if name == 'decode_iid_symbols':
                ok = dec_ok and vals.get('model') == ('arg', 3) and vals.get('amt') == ('arg', 2)
            else:
                m = effects.strip_uid(vals.get('models'))
                while m is not None and m[0] == 'call' and m[1].endswith('into_iter'):
                    m = m[2][0]
                ok = dec_ok and m == ('arg', 2)
            mut = [e for e in r[0].events if e['kind'] == 'call' and e.get('uid') is not None and any(p[:2] == (1, 'deref') for p in e['mut_paths'])]
            ok = ok and not mut
        (ctx.ok if ok else ctx.bad)('R4', role, b.defpath, sym.show(r[0].ret)[:160] if r else 'several paths', key=key)
    # next() of the three iterators
    for adt, fallible in (('stream::DecodeSymbols', False), ('stream::TryDecodeSymbols', True)):
        nb = [b for b in F.bodies if b.promoted is None and b.name == 'next' and b.self_adt == adt and b.impl_trait == 'core::iter::Iterator']
        key = 'R5/decode-next/%s' % adt
        role = 'one decode_symbol per yielded model, with that model'
        if not nb:
            ctx.bad('R5', role, adt, 'Iterator impl not found', key=key)
            continue
        b = nb[0]
        ev, paths = rules.evaluate(b)
        ctx.touch(b)
        r = [p for p in paths or [] if p.end == 'return']
        ok = False
        why = 'unexpected shape'
        if len(r) == 1:
            rt = r[0].ret
            nx = [e for e in r[0].events if e['kind'] == 'call' and e['callee'] == 'core::iter::Iterator::next']
            if rt[0] == 'call' and rt[1].endswith('Option::<T>::map') and len(nx) == 1 and rt[2][0] == nx[0]['result'] and nx[0]['args'][0][1] == (1, 'deref', ('f', 'models')):
                cl = rt[2][1]
                cb = F.by_def.get(cl[1][1]) if cl[0] == 'agg' and isinstance(cl[1], tuple) and cl[1][0] == 'closure' else None
                if cb is not None:
                    ctx.touch(cb)
                    _, cp = rules.evaluate(cb)
                    good = True
                    n_dec = 0
                    for p in cp or []:
                        decs = [e for e in p.events if e['kind'] == 'call' and e['callee'] == DEC + '::decode_symbol']
                        if p.end != 'return':
                            continue
                        if not fallible:
                            if len(decs) != 1 or decs[0]['args'][1] != ('arg', 2) or p.ret != decs[0]['result']:
                                good = False
                                why = 'closure is not `decoder.decode_symbol(model)`'
                            n_dec += len(decs)
                        else:
                            sh = rules.ret_shape(p.ret)
                            if sh[0] == 'Ok':
                                if len(decs) != 1 or not (decs[0]['args'][1][0] == 'unwrap' and decs[0]['args'][1][1][0] == 'call' and decs[0]['args'][1][1][1].endswith('::map_err') and decs[0]['args'][1][1][2][0] == ('arg', 2)):
                                    good = False
                                    why = 'Ok exit does not decode with the item\'s Ok model'
                                elif sh[1] != ('unwrap', decs[0]['result']):
                                    good = False
                                    why = 'Ok exit does not return the decoded symbol'
                                n_dec += 1
                            elif p.ret[0] == 'err_of':
                                src = p.ret[1]
                                if src[0] == 'call' and src[1].endswith('::map_err') and decs:
                                    good = False
                                    why = 'invalid model reported after decoding'
                    ok = good and n_dec == 1
        if not ok and why == 'unexpected shape':
            # the same behaviour written without Option::map: a match / `?` on models.next() in the body itself
            v2 = decode_next_inline(F, ev, r, fallible)
            if v2 is not None:
                ok, why = v2
                if ok:
                    ctx.ok('R5', role, b.defpath, why, key=key)
                    continue
            else:
                ctx.unresolved('R5', role, b.defpath, 'shape outside the idiom list (neither models.next().map(closure) nor an inline match on models.next())', key=key)
                continue
        (ctx.ok if ok else ctx.bad)('R5', role, b.defpath, 'models.next().map(|m| decoder.decode_symbol(m))' if ok else why, key=key, loc=rules.loc(b))
    nb = [b for b in F.bodies if b.promoted is None and b.name == 'next' and b.self_adt == 'stream::DecodeIidSymbols' and b.impl_trait == 'core::iter::Iterator']
    key = 'R5/decode-next/stream::DecodeIidSymbols'
    role = 'yields exactly `amt` decode_symbol results with the stored model'
    if not nb:
        ctx.bad('R5', role, 'stream::DecodeIidSymbols', 'Iterator impl not found', key=key)
        return
    b = nb[0]
    ev, paths = rules.evaluate(b)
    ctx.touch(b)
    AMT = (1, 'deref', ('f', 'amt'))
    bad = None
    n_some = n_none = 0
    for p in paths or []:
        if p.end != 'return':
            continue
        decs = [e for e in p.events if e['kind'] == 'call' and e['callee'] == DEC + '::decode_symbol']
        sh = rules.ret_shape(p.ret)
        if p.ret is not None and p.ret[0] == 'err_of' and isinstance(p.ret[1], tuple) and p.ret[1] and p.ret[1][0] == 'call' and str(p.ret[1][1]).startswith('core::num::') and str(p.ret[1][1]).endswith(('::checked_sub', '::checked_add')):
            sh = ('None',)        # `amt.checked_sub(1)?` in a function returning Option: the residual of a None is None
        amt_f = ev.final_read(p, AMT)
        d = rules.path_dbm(p)
        if sh[0] == 'Some':
            n_some += 1
            if len(decs) != 1 or sh[1] != decs[0]['result'] or decs[0]['args'][1] != ('in', (1, 'deref', ('f', 'model'))):
                bad = 'Some exit is not one decode_symbol(self.model)'
            if not effects.affine_eq(sym.affine(amt_f), sym.affine(sym.mk_bin('Sub', ('in', AMT), sym.mk_int(1)))):
                bad = 'a yielded symbol does not decrement the remaining amount by one (amt\' = %s)' % sym.show(amt_f)
            if not d.entails_le(sym.mk_int(1), ('in', AMT)):
                bad = 'a symbol is decoded although amt may be 0'
        elif sh[0] == 'None':
            n_none += 1
            if decs or amt_f != ('in', AMT):
                bad = 'the end-of-iteration exit decodes or changes amt'
            if not d.entails_le(('in', AMT), sym.mk_int(0)):
                bad = 'None is returned although amt may be non-zero'
        else:
            bad = 'unclassified exit'
    if bad or n_some != 1 or n_none != 1:
        ctx.bad('R5', role, b.defpath, bad or 'exits: %d Some, %d None' % (n_some, n_none), key=key, loc=rules.loc(b))
    else:
        ctx.ok('R5', role, b.defpath, 'amt != 0: amt -= 1, Some(decode_symbol(model)); amt == 0: None', key=key)


def check_reverse_forms(ctx, F):
    n = 0
    for b in F.bodies:
        if b.promoted is not None or b.dk != 'AssocFn' or not b.name or not b.name.endswith('_reverse') or b.defpath.startswith(('pybindings', '<pybindings')):
            continue
        fwd = b.name[:-len('_reverse')]
        if fwd not in BATCH_ENC:
            continue
        n += 1
        key = 'R4/reverse-form/' + b.defpath
        role = 'reverse form = forward form over `.into_iter().rev()`'
        ev, paths = rules.evaluate(b)
        ctx.touch(b)
        r = [p for p in paths or [] if p.end == 'return']
        ok = False
        why = 'not a single-path delegation'
        if len(r) == 1:
            calls = [e for e in r[0].events if e['kind'] == 'call' and e.get('uid') is not None]
            if len(calls) == 1 and calls[0]['name'] == fwd and r[0].ret == calls[0]['result'] and calls[0]['args'][0] == ('ref', (1, 'deref'), True):
                it = effects.strip_uid(calls[0]['args'][1])
                if it[0] == 'call' and it[1] == 'core::iter::Iterator::rev':
                    src = it[2][0]
                    while src[0] == 'call' and src[1].endswith('into_iter'):
                        src = src[2][0]
                    rest = calls[0]['args'][2:]
                    if src == ('arg', 2) and len(rest) <= 1 and all(x == ('arg', 3) or (x[0] == 'ref' and x[1] in ((3,), (3, 'deref'))) for x in rest):
                        ok = True
                    else:
                        why = 'iterates over %s' % sym.show(src)[:80]
                else:
                    why = 'the forward form receives %s (no `.rev()`)' % sym.show(it)[:100]
            else:
                why = 'body is not exactly one call to %s on self' % fwd
        (ctx.ok if ok else ctx.bad)('R4', role, b.defpath, 'self.%s(arg.into_iter().rev()%s)' % (fwd, ', model' if 'iid' in fwd else '') if ok else why, key=key, loc=rules.loc(b))
    ctx.extra['reverse_forms'] = n
    if n < 6:
        ctx.bad('R4', 'floor: reverse batch forms', 'crate', 'only %d `*_reverse` batch forms found (AnsCoder 3, ChainCoder 3, ... expected)' % n, key='R4/floor/reverse-forms')


def inline_accessors(F, t):
    """One-level inlining of pure crate-local accessors on an AnsCoder value: Code::state(x), into_raw_parts(x).i"""
    def body_for(name):
        b = F.by_def.get(name)
        if b is not None:
            return b
        short = name.rsplit('::', 1)[-1]
        c = [x for x in F.bodies if x.promoted is None and x.name == short and x.self_adt == ANS and x.impl_trait == name.rsplit('::', 1)[0]]
        return c[0] if len(c) == 1 else None

    def f(n):
        if n and n[0] == 'call' and n[3] is None and len(n[2]) == 1:
            b = body_for(n[1])
            if b is None or b.self_adt != ANS:
                return None
            _, pp = rules.evaluate(b)
            rs = [p for p in pp or [] if p.end == 'return']
            if len(rs) != 1 or any(e['kind'] == 'call' and e.get('uid') is not None for e in rs[0].events):
                return None
            arg = n[2][0]
            # re-root the callee's view of its parameter onto the caller's argument term
            def g(x):
                if x and x[0] == 'in' and x[1][0] == 1:
                    rest = x[1][1:]
                    if rest and rest[0] == 'deref':
                        rest = rest[1:]
                    if arg[0] == 'in':
                        return ('in', arg[1] + rest)
                    if arg[0] == 'arg':
                        return ('in', (arg[1],) + rest)
                return None
            return effects.rebuild(rs[0].ret, g)
        if n and n[0] == 'proj' and n[1][0] == 'agg' and n[2][0] == 'f':
            try:
                return n[1][2][int(n[2][1])]
            except Exception:
                return None
        return None
    return effects.rebuild(t, f)


def check_state_writers(ctx, F):
    writers = {}
    n_lit = 0
    for b in F.bodies:
        if b.promoted is not None or b.dk not in ('Fn', 'AssocFn', 'Closure') or '::tests::' in b.defpath or b.defpath.startswith(('pybindings', '<pybindings')):
            continue
        has_lit = False
        writes_state = False
        for bl in b.blocks:
            if bl['cleanup']:
                continue
            for s in bl['stmts']:
                if s['k'] != 'assign':
                    continue
                if s['rv']['k'] == 'agg' and s['rv'].get('adt') == ANS:
                    has_lit = True
                for e in s['place']['p']:
                    if isinstance(e, dict) and e.get('of') == ANS and e.get('n') == 'state':
                        writes_state = True
        if b.derived:
            continue
        if writes_state:
            writers[b.defpath] = b
        if not has_lit:
            continue
        ev, paths = rules.evaluate(b)
        ctx.touch(b)
        # does the function have an AnsCoder to copy from?
        src_paths = []
        for l in range(1, b.arg_count + 1):
            if F.ty_adt(b.local_ty(l)) == ANS:
                t = F.ty(b.local_ty(l))
                src_paths.append((l, 'deref', ('f', 'state')) if t.get('k') == 'ref' else (l, ('f', 'state')))
        seen = {}
        for r in paths or []:
            for e in r.events:
                if e['kind'] == 'literal' and e['adt'] == ANS:
                    st = inline_accessors(F, e['vals'][e['fnames'].index('state')])
                    k = e['span'].split('-')[0]
                    if src_paths:
                        ok = any(st == ('in', sp) for sp in src_paths)
                        seen[k] = (seen.get(k, (True,))[0] and ok, sym.show(st)[:80])
                    else:
                        seen[k] = (True, sym.show(st)[:80])
        for i, (k, (ok, txt)) in enumerate(sorted(seen.items())):
            n_lit += 1
            key = 'R7/ans-literal/%s#%d' % (b.defpath, i)
            if src_paths:
                (ctx.ok if ok else ctx.bad)('R7', 'conversion copies `state` unchanged', b.defpath,
                                            'state := %s' % txt if ok else 'a conversion of an existing coder builds its result with state = %s instead of copying the source state' % txt, key=key, loc=k)
            else:
                ctx.ok('R7', 'constructor literal (inventory)', b.defpath, 'state := %s' % txt, key=key, loc=k)
    ctx.extra['ans_literals'] = n_lit
    ctx.floor('R7', 'floor: AnsCoder literal sites', ANS, n_lit, 10, 'only %d literal sites found (12 on the reference tree)' % n_lit, key='R7/floor/ans-literals')
    allowed = ('clear', 'encode_symbol', 'decode_symbol', 'seek')
    for dp, b in sorted(writers.items()):
        key = 'R7/state-writer/' + dp
        if b.name in allowed:
            ctx.ok('R7', 'assigns `state` (inventory of writers)', dp, 'one of the coding steps / clear / seek', key=key)
        else:
            ctx.unresolved('R7', 'assigns `state` (inventory of writers)', dp, 'new writer of AnsCoder::state outside {clear, encode_symbol, decode_symbol, seek}: not understood by this check', key=key, loc=rules.loc(b))
    ctx.floor('R7', 'floor: state writers', ANS, len(writers), 4, 'only %d functions assign `state` (4 expected)' % len(writers), key='R7/floor/state-writers')
    import props.C08 as c08
    c08.check_clone_complete(ctx, F, ANS)


def check_decode_iterator_overrides(ctx, F):
    """The lazy decode iterators (decode_symbols, try_decode_symbols, decode_iid_symbols) pop one symbol per item they yield,
    and every other way of driving an iterator (nth, skip, step_by, count, last, fold ..) is defined by the standard library
    in terms of `next`, so it pops the skipped symbols too.  An override of one of those provided methods is a second
    definition of "advance": the rule accepts it only if it does not discard items of the wrapped model iterator
    (`models.nth(n)`, `skip`, `advance_by` .. drop models whose symbols then stay on the coder)."""
    ALLOWED = {'next', 'size_hint'}
    DISCARDING = ('::nth', '::skip', '::advance_by', '::last', '::count', '::nth_back', '::step_by')
    n = 0
    for b in F.bodies:
        if b.promoted is not None or b.impl_trait != 'core::iter::Iterator' or b.dk != 'AssocFn' or not (b.self_adt or '').startswith('stream::') or '::tests::' in b.defpath:
            continue
        if 'Decode' not in (b.self_adt or '').split('::')[-1]:
            continue
        if b.name in ALLOWED:
            continue
        n += 1
        ctx.touch(b)
        key = 'R7/decode-iterator-override/' + b.defpath
        role = 'a decode iterator advances only by decoding'
        bodies = [b] + list(F.closures_of(b))
        bad = None
        calls_next = False
        for body in bodies:
            ev, paths = rules.evaluate(body)
            for r in paths or []:
                for e in r.events:
                    if e['kind'] != 'call':
                        continue
                    if str(e['callee']).startswith('core::iter::') and str(e['callee']).endswith(DISCARDING) and any(a[0] == 'ref' and a[1][:2] == (1, 'deref') and len(a[1]) > 2 for a in e['args']):
                        bad = '`%s` overrides the provided method and advances the wrapped iterator with %s: the items it skips are dropped without decoding their symbols, so everything after a `.skip()`, `.step_by()` or `.nth()` is decoded with the wrong models and from the wrong place of the stream' % (b.name, str(e['callee']).split('::')[-1])
                    if e['callee'] == 'core::iter::Iterator::next' and any(a == ('ref', (1, 'deref'), True) for a in e['args']):
                        calls_next = True
        if bad:
            ctx.bad('R7', role, b.defpath, bad, key=key, loc=rules.loc(b))
        elif calls_next:
            ctx.ok('R7', role, b.defpath, 'the override is written in terms of self.next()', key=key)
        else:
            ctx.unresolved('R7', role, b.defpath, 'an Iterator method other than next/size_hint is overridden in a form the rule does not read', key=key)
    ctx.extra['decode_iterator_overrides'] = n


def run(ctx):
    F = ctx.F
    check_override_inventory(ctx, F)
    check_decode_iterator_overrides(ctx, F)
    loop_batch_check(ctx, F, 'encode_symbols', False)
    loop_batch_check(ctx, F, 'try_encode_symbols', True)
    check_iid_encode(ctx, F)
    check_decode_adaptors(ctx, F)
    check_reverse_forms(ctx, F)
    check_state_writers(ctx, F)
    import props.C04 as c04
    c04.check_export_conversions(ctx, F)   # From<AnsCoder> for Vec is the shared export
    c04.check_refill_threshold(ctx, F)     # import loops establish the invariant the decoder's refill test maintains
    c04.check_import_read_errors(ctx, F)   # a failed read while the head is assembled ends the import with an error
    c04.check_top_word_nonzero(ctx, F, anchors.ans_import_loops(F)[1], 'stream::stack::AnsCoder::from_compressed', 'into_compressed')   # export/import identity
    if ctx.tier == 'thorough':
        from vlib import witness
        witness.run(ctx, 'C01')
        if 'pybindings' in ctx.facts_by_config:
            check_override_inventory(ctx, ctx.facts_by_config['pybindings'])
    ctx.assume('iterators supplied by the caller yield each item once (Iterator contract); DoubleEndedIterator::rev reverses the order')
    return {
        'level': 'other',
        'explanation': 'Decides that every batch / fallible / iid / reverse form of the stream-code traits is, by construction, the per-symbol loop the property quantifies over (override inventory over all impls; '
                       'loop-summarised structural check of the provided bodies and the lazy decode iterators), that every conversion of an AnsCoder copies its state unchanged, and lists the functions that '
                       'write the state. This removes the batch forms, conversions and Clone from the history quantifier; the core statement - encode_symbol and decode_symbol are algebraic inverses and '
                       'export/import is the identity - is value-level and NOT decided here (a changed threshold or state update is not detected).',
        'trusted_base': ['rustc type checker + MIR construction', 'cfacts extractor', 'Iterator / DoubleEndedIterator contracts'],
    }
