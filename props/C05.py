"""C05 — all representations of one entropy model are bit-for-bit the same model (partial).

Statically decided clauses:
  1. boundary consistency of the leaky quantizer (R10): every fixed-point cumulative has the shape
     as_(free_weight * cdf(A)) + slack(B) [+ 1]; with A, B affine in the same symbol, the boundary index
     A + 1/2 must equal B + [+1] in the encoder view, the decoder search and the symbol_table iterator
  2. pass-through: generic conversions store (symbol, cumulative, probability) of the table without
     arithmetic; views / projections build their literal from the same-named fields through as_ref/move (R3/R4)
  3. `impl Trait for &M` forwards every model method unchanged (R4 delegation)
  4. contiguous -> lookup conversion copies the cdf and fills the table from the *monotonic part* of that
     same cdf (the range the searched decoder uses: everything but the possibly wrapped last entry) (R4)
  5. lazy == eager (Tier 2, R4 DAG equality): `scale` and the validation predicates of fast_quantized_cdf and
     of the lazy constructor are structurally identical; both per-symbol formulas are
     as_(PREFIXSUM * scale) + INDEX with the last boundary pinned to wrapping_pow2(PRECISION)
Not decided: that two structurally identical float computations round identically is exactly what (5)
establishes; uniform-model views; numeric equality of different float paths.
"""
from fractions import Fraction
from vlib import pow2 as pow2mod, facts, sym, rules, effects, anchors, dbm as dbmmod

LQD = 'stream::model::quantize::LeakilyQuantizedDistribution'
MODEL_TRAITS = ('stream::model::EntropyModel', 'stream::model::EncoderModel', 'stream::model::DecoderModel', 'stream::model::IterableEntropyModel')


# ---------------------------------------------------------------- clause 1 (R10)

def lin(t):
    """term -> (atom, Fraction offset) for `atom + consts`, with one()=1 and 0.5f64=1/2; None otherwise."""
    if t[0] == 'k' and t[1] == 'one':
        return (None, Fraction(1))
    if t[0] == 'k' and t[1] == 'zero':
        return (None, Fraction(0))
    if sym.is_int(t):
        return (None, Fraction(t[1]))
    if t[0] == 'c' and t[1].rstrip('f3264_') in ('0.5',):
        return (None, Fraction(1, 2))
    if t[0] == 'c' and t[1].rstrip('f3264_') in ('1', '1.0'):
        return (None, Fraction(1))
    if t[0] == 'cast':
        return lin(t[2])
    if t[0] == 'bin' and t[1].split('.')[0] in ('Add', 'Sub'):
        a, b = lin(t[2]), lin(t[3])
        if a is None or b is None:
            return None
        sign = 1 if t[1].split('.')[0] == 'Add' else -1
        if a[0] is not None and b[0] is not None:
            return None
        if b[0] is not None and sign == -1:
            return None
        return (a[0] if a[0] is not None else b[0], a[1] + sign * b[1])
    return (sym.tkey(t), Fraction(0))


def flatten_add(t):
    if t[0] == 'bin' and t[1].split('.')[0] == 'Add':
        return flatten_add(t[2]) + flatten_add(t[3])
    return [t]


def cumulative_shapes(t):
    """All sub-terms of the shape  as_(.. distribution(_, A) ..) + slack(B, _) [+ one()]  ->  (A, B, n_one, term)."""
    out = []
    for x in sym.subterms(t):
        if not (isinstance(x, tuple) and x and x[0] == 'bin' and x[1].split('.')[0] == 'Add'):
            continue
        parts = flatten_add(x)
        dist = [p for p in parts if p[0] == 'cast' and sym.contains(p, lambda y: isinstance(y, tuple) and y and y[0] == 'call' and y[1].endswith('Distribution::distribution'))]
        slk = [p for p in parts if p[0] == 'call' and p[1].endswith('::slack')]
        ones = [p for p in parts if p[0] == 'k' and p[1] == 'one']
        rest = [p for p in parts if p not in dist and p not in slk and p not in ones]
        if len(dist) == 1 and len(slk) == 1 and not rest:
            dcall = [y for y in sym.subterms(dist[0]) if isinstance(y, tuple) and y and y[0] == 'call' and y[1].endswith('Distribution::distribution')][0]
            out.append((dcall[2][1], slk[0][2][0], len(ones), x))
    # keep only maximal shapes (an Add chain contains its own sub-chains)
    keep = []
    for s in out:
        if not any(s is not o and sym.contains(o[3], lambda y: y is s[3]) and len(flatten_add(o[3])) > len(flatten_add(s[3])) for o in out):
            keep.append(s)
    return keep


def check_quantizer_boundaries(ctx, F):
    # closures count as well: a cumulative that was moved into a local closure is still the same computation
    targets = [b for b in F.bodies if b.promoted is None and b.file.endswith('model/quantize.rs') and '::tests::' not in b.defpath and b.dk in ('Fn', 'AssocFn', 'Closure')
               and any((rules.callee(t) or {}).get('name') == 'slack' for _, t in b.calls())]
    total = 0
    for b in targets:
        ev, paths = rules.evaluate(b, max_paths=20000)
        ctx.touch(b, calls=sum(1 for _ in b.calls()))
        key = 'R10/boundary-consistency/' + b.defpath
        role = 'fixed-point cumulative uses the same boundary index in cdf(.) and in slack(.)'
        if paths is None:
            ctx.unresolved('R10', role, b.defpath, 'too many paths', key=key)
            continue
        seen = {}
        shapes = []
        for r in paths:
            terms = []
            for e in r.events:
                if e['kind'] == 'call':
                    terms.append(e['result'])
                    terms += e['args_val']
                elif e['kind'] == 'write':
                    terms.append(e['value'])
            if r.ret is not None:
                terms.append(r.ret)
            for t in terms:
                shapes += cumulative_shapes(t)
        # an intermediate value (before `+ 1` is added) is not a cumulative of its own: drop chains that are
        # proper sub-chains of another collected chain
        uniq = {}
        for sh in shapes:
            uniq[sym.tkey(sh[3])] = sh
        finals = []
        for k0, sh in uniq.items():
            n0 = len(flatten_add(sh[3]))
            if any(k1 != k0 and len(flatten_add(o[3])) > n0 and sym.contains(o[3], lambda y: y == sh[3]) for k1, o in uniq.items()):
                continue
            finals.append(sh)
        if True:
            if True:
                for A, B, n1, x in finals:
                    la, lb = lin(A), lin(B)
                    k = sym.show(effects.strip_uid(x))[:160]
                    if la is None or lb is None or la[0] != lb[0] or la[0] is None:
                        seen.setdefault(k, ('unres', 'arguments are not affine in one symbol: cdf(%s), slack(%s)' % (sym.show(A)[:60], sym.show(B)[:60])))
                        continue
                    ka = la[1] + Fraction(1, 2)
                    kb = lb[1] + n1
                    if ka == kb:
                        seen.setdefault(k, ('ok', 'boundary symbol%+d: cdf(symbol%+.1f), slack(symbol%+d)%s' % (int(ka), float(la[1]), int(lb[1]), ' + 1' * n1)))
                    else:
                        seen[k] = ('bad', 'cdf is evaluated at symbol%+.1f (boundary index symbol%+.1f) but the slack term and +1 correspond to boundary index symbol%+d: this cumulative is not a point of the tiling the encoder uses' % (
                            float(la[1]), float(ka), int(kb)))
        n_here = 0
        for i, (k, (st, txt)) in enumerate(sorted(seen.items())):
            n_here += 1
            kk = '%s#%d' % (key, i)
            if st == 'ok':
                ctx.ok('R10', role, b.defpath, txt, key=kk)
            elif st == 'bad':
                ctx.bad('R10', role, b.defpath, txt + ' [%s]' % k[:120], key=key + '/mismatch', loc=rules.loc(b))
            else:
                ctx.unresolved('R10', role, b.defpath, txt, key=kk)
        total += n_here
    ctx.extra['quantizer_cumulatives'] = total
    ctx.floor('R10', 'floor: quantizer cumulative computations', LQD, total, 6, 'only %d recognised (encoder 2, decoder search, iterator expected)' % total, key='R10/floor/cumulatives')


rules.callee = __import__('vlib.facts', fromlist=['callee']).callee


# ---------------------------------------------------------------- clause 2: views and pass-through

VIEW_NAMES = ('as_view', 'as_contiguous_categorical', 'into_contiguous_categorical', 'as_non_contiguous_categorical', 'into_non_contiguous_categorical')


def check_views(ctx, F):
    n = 0
    for b in F.bodies:
        if b.promoted is not None or b.name not in VIEW_NAMES or not b.file.startswith('src/stream/model'):
            continue
        n += 1
        ev, paths = rules.evaluate(b)
        ctx.touch(b)
        key = 'R4/view-same-fields/' + b.defpath
        role = 'view / projection is built from the same-named fields'
        rs = [r for r in paths or [] if r.end == 'return']
        bad = None
        ok = False
        for r in rs:
            for e in r.events:
                if e['kind'] == 'literal' and e['adt'].startswith('stream::model'):
                    ok = True
                    for fn, v in zip(e['fnames'], e['vals']):
                        if fn == 'phantom':
                            continue
                        core = v
                        while core[0] == 'call' and core[1].endswith(('::to_vec', '::into_boxed_slice', '::clone', '::to_owned', '::into')) and core[2]:
                            core = core[2][0]
                        if not (core[0] == 'in' and core[1][0] == 1 and core[1][-1] == ('f', fn)):
                            bad = 'field `%s` of the view is %s, not self.%s' % (fn, sym.show(v)[:80], fn)
        if bad or not ok:
            ctx.bad('R4', role, b.defpath, bad or 'no model literal found', key=key, loc=rules.loc(b))
        else:
            ctx.ok('R4', role, b.defpath, 'every field copied from the same-named field of self', key=key)
    ctx.extra['views'] = n
    ctx.floor('R4', 'floor: model views', 'stream::model', n, 8, 'only %d views/projections found (9 on the reference tree)' % n, key='R4/floor/views')


def check_forwarding(ctx, F, traits=None, floor=5, what='stream::model'):
    traits = MODEL_TRAITS if traits is None else traits
    n = 0
    for b in F.bodies:
        if b.promoted is not None or b.dk != 'AssocFn' or b.impl_trait not in traits:
            continue
        st = F.ty(b.impl_self) if b.impl_self is not None else {}
        if st.get('k') != 'ref':
            continue
        n += 1
        ev, paths = rules.evaluate(b)
        ctx.touch(b)
        key = 'R4/ref-forwards/' + b.defpath
        role = '`impl Trait for &M` forwards unchanged'
        rs = [r for r in paths or [] if r.end == 'return']
        ok = False
        if len(rs) == 1:
            calls = [e for e in rs[0].events if e['kind'] == 'call']
            if len(calls) == 1 and calls[0]['name'] == b.name and calls[0]['fn'].get('trait') == b.impl_trait and rs[0].ret == calls[0]['result']:
                want = [('arg', i) for i in range(2, b.arg_count + 1)]
                got = calls[0]['args'][1:]
                recv = calls[0]['args_val'][0]
                ok = got == want and recv[0] == 'in' and recv[1][0] == 1
        (ctx.ok if ok else ctx.bad)('R4', role, b.defpath, '(*self).%s(args unchanged)' % b.name if ok else 'body is not a pure delegation of %s' % b.name, key=key, loc=rules.loc(b))
    ctx.extra['ref_forwardings'] = n
    if n < floor:
        ctx.bad('R4', 'floor: &M forwardings', what, 'only %d forwarding methods found' % n, key='R4/floor/ref-forwardings')


def check_pass_through(ctx, F):
    """Generic conversions: closures mapping a symbol-table triple must not do arithmetic on it."""
    n = 0
    for b in F.bodies:
        if b.promoted is not None or b.name not in ('from_iterable_entropy_model', 'from') or not b.file.startswith('src/stream/model/categorical'):
            continue
        if not any((rules.callee(t) or {}).get('def') == 'stream::model::IterableEntropyModel::symbol_table' for _, t in b.calls()):
            continue
        for cb in F.closures_of(b):
            n += 1
            ev, paths = rules.evaluate(cb)
            ctx.touch(cb)
            key = 'R3/pass-through/' + cb.defpath
            role = 'conversion stores the table\'s (symbol, cumulative, probability) without arithmetic'
            bad = None
            for r in paths or []:
                if r.end != 'return' or r.ret is None:
                    continue
                for x in sym.subterms(r.ret):
                    if isinstance(x, tuple) and x and x[0] == 'bin':
                        bad = 'closure computes %s from the table entry' % sym.show(x)[:100]
            (ctx.bad if bad else ctx.ok)('R3', role, cb.defpath, bad or 'identity flow from the tuple components', key=key, loc=rules.loc(cb))
    ctx.extra['pass_through_closures'] = n


# ---------------------------------------------------------------- clause 4

def check_lookup_fill(ctx, F):
    bs = [b for b in F.bodies if b.promoted is None and b.name == 'from' and b.self_adt == 'stream::model::categorical::lookup_contiguous::ContiguousLookupDecoderModel']
    key = 'R4/lookup-fill-monotonic-part/ContiguousLookupDecoderModel::from'
    role = 'lookup table is filled from cdf[1..len-1] of the very cdf that is stored'
    if not bs:
        ctx.bad('R4', role, 'lookup_contiguous', 'From<&ContiguousCategoricalEntropyModel> impl not found', key=key)
        return
    b = bs[0]
    ev, paths = rules.evaluate(b)
    ctx.touch(b)
    bad = None
    seen = False
    src = ('in', (1, 'deref', ('f', 'cdf')))
    for r in paths or []:
        for e in r.events:
            if e['kind'] == 'call' and e['callee'].endswith('Index::index') and len(e['args_val']) == 2:
                rng = e['args_val'][1]
                if rng[0] == 'agg' and isinstance(rng[1], tuple) and rng[1][1].endswith(('::Range', 'RangeFrom', 'RangeTo', 'RangeInclusive')):
                    seen = True
                    base = e['args_val'][0]
                    while base[0] == 'call' and base[1].endswith(('::to_vec', '::clone')) and base[2]:
                        base = base[2][0]       # iterating the freshly made copy is iterating the same contents
                    if base != src:
                        bad = 'iterates %s, not the model\'s cdf' % sym.show(base)[:60]
                    elif not (rng[1][1].endswith('::Range') and rng[2][0] == sym.mk_int(1) and effects.strip_uid(rng[2][1]) == sym.mk_bin('Sub', sym.mk_len(src), sym.mk_int(1))):
                        bad = 'iterates cdf[%s]: the possibly wrapped last entry (wrapping_pow2(PRECISION) == 0 at full precision) takes part in the fill, unlike in the searched decoder (..len-1)' % sym.show(rng)[:80]
            if e['kind'] == 'literal' and e['adt'].endswith('ContiguousLookupDecoderModel'):
                c = dict(zip(e['fnames'], e['vals'])).get('cdf')
                core = c
                while core is not None and core[0] == 'call' and core[1].endswith(('::to_vec', '::clone')) and core[2]:
                    core = core[2][0]
                if core != src:
                    bad = 'stored cdf is %s, not a copy of the model\'s cdf' % (sym.show(c)[:60] if c else None)
    if bad or not seen:
        ctx.bad('R4', role, b.defpath, bad or 'range-indexed iteration over the cdf not found', key=key, loc=rules.loc(b))
    else:
        ctx.ok('R4', role, b.defpath, 'cdf copied unchanged; fill iterates model.cdf[1..len-1]', key=key)


def check_lookup_growth(ctx, F):
    """The table of a lookup decoder that is built from a symbol table only ever *grows*: every `resize` extends it by the
    current symbol's probability, with the length computed in usize as `len + probability`.  A target length computed in the
    Probability type (a right-sided cumulative) wraps to 0 for the last symbol when PRECISION == Probability::BITS, and
    `resize(0)` truncates everything filled so far, so the lookup decoder answers with the last symbol for every quantile
    while the model's symbol table still looks right."""
    n = 0
    for b in F.bodies:
        if b.promoted is not None or '::tests::' in b.defpath or 'stream::model::categorical::lookup_' not in b.defpath:
            continue
        if not any(facts.callee_name(t) == 'resize' for _, t in b.calls()):
            continue
        ev, paths = rules.evaluate(b)
        ctx.touch(b)
        key = 'R4/lookup-table-grows/' + b.defpath
        role = 'each resize of the lookup table extends it (target = len + probability, in usize)'
        bad = unk = None
        seen = 0
        for r in paths or []:
            for e in r.events:
                if e['kind'] != 'call' or not e['callee'].endswith('::resize') or len(e['args_val']) != 3:
                    continue
                seen += 1
                tgt = effects.strip_uid(e['args_val'][1])
                # the checked spelling `len.checked_add(p).filter(..).ok_or(..)?` is the sum len + p on the path that goes on
                peeled = tgt
                while isinstance(peeled, tuple) and peeled and (peeled[0] == 'unwrap' or (peeled[0] == 'payload' and peeled[2] in ('Some', 'Ok')) or (peeled[0] == 'call' and str(peeled[1]).endswith(('Option::<T>::ok_or', 'Option::<T>::ok_or_else', 'Option::<T>::filter')) and peeled[2])):
                    peeled = peeled[1] if peeled[0] in ('unwrap', 'payload') else peeled[2][0]
                if isinstance(peeled, tuple) and peeled and peeled[0] == 'call' and str(peeled[1]).endswith('::checked_add') and len(peeled[2]) == 2:
                    tgt = sym.mk_bin('Add', peeled[2][0], peeled[2][1])
                tab = e['args'][0]
                cur = [x for x in sym.subterms(tgt) if isinstance(x, tuple) and x and x[0] == 'len']
                wraps = sym.contains(tgt, lambda x: isinstance(x, tuple) and x and x[0] == 'bin' and x[1].endswith('.w'))
                grows = tgt[0] == 'bin' and tgt[1].split('.')[0] == 'Add' and not tgt[1].endswith('.w') and any(y[0] == 'len' for y in (tgt[2], tgt[3]))
                if wraps:
                    bad = 'the target length %s is computed with wrapping arithmetic in the probability type: it is 0 for the last symbol when PRECISION equals the bit width, and resize(0) discards the table filled so far' % sym.show(tgt)[:90]
                elif not grows:
                    core = tgt
                    while isinstance(core, tuple) and core and (core[0] == 'cast' or (core[0] == 'proj' and core[2] == 'deref')):
                        core = core[2] if core[0] == 'cast' else core[1]
                    if sym.show(core).startswith('payload(core::iter::Iterator::next(') and not sym.contains(core, lambda x: isinstance(x, tuple) and x and x[0] == 'bin'):
                        continue    # a cumulative taken as it is from the iterated sequence (the range/extent rules decide which entries take part)
                    a = sym.affine(tgt)
                    if not (a is not None and not a[0] and a[1] >= 0) and not pow2mod.p2(tgt):
                        unk = 'target length %s is not of the form len + probability' % sym.show(tgt)[:90]
        if not seen:
            continue
        n += 1
        if bad:
            ctx.bad('R4', role, b.defpath, bad, key=key, loc=rules.loc(b))
        elif unk:
            ctx.unresolved('R4', role, b.defpath, unk, key=key)
        else:
            ctx.ok('R4', role, b.defpath, '%d resize site(s)/path(s): len + probability' % seen, key=key)
    if n == 0:
        ctx.unresolved('R4', 'lookup tables filled by resize', 'stream::model::categorical', 'no constructor fills a lookup table by resize any more', key='R4/floor/lookup-table-grows')


# ---------------------------------------------------------------- clause 5 (Tier 2)

def _is_sum_of_table(F, v):
    """v is `table.iter().copied().sum()` written inline, or a closure whose body is exactly that."""
    def inline(t):
        return (t[0] == 'call' and t[1].endswith('Iterator::sum') and t[2] and t[2][0][0] == 'call' and t[2][0][1].endswith('Iterator::copied')
                and t[2][0][2][0][0] == 'call' and t[2][0][2][0][1].endswith('::iter'))
    if not isinstance(v, tuple) or not v:
        return False
    if inline(v):
        return True
    if v[0] == 'agg' and isinstance(v[1], tuple) and v[1][0] == 'closure' and F is not None:
        cb = F.by_def.get(v[1][1])
        if cb is not None:
            _, pp = rules.evaluate(cb)
            rs = [r for r in pp or [] if r.end == 'return']
            return len(rs) == 1 and inline(rs[0].ret)
    return False


def role_float(t, F=None, opt=None):
    """probabilities slice / pmf field -> ('PROBS',); normalization arg -> kept as is (same position);
    `normalization.unwrap_or(sum)` and `normalization.unwrap_or_else(|| sum)` -> the same NORM atom."""
    def pre(n):
        if n and n[0] == 'call' and isinstance(n[1], str) and n[1].endswith(('Option::<T>::unwrap_or', 'Option::<T>::unwrap_or_else')) and len(n[2]) == 2 and _is_sum_of_table(F, n[2][1]):
            return ('NORM', n[2][0])
        # the same choice written as `match normalization { Some(n) => n, None => sum }`: `opt` = (option argument, arm of this path)
        if opt is not None:
            arg, arm = opt
            if arm == 'Some' and n and n[0] == 'payload' and n[1] == arg and n[2] == 'Some':
                return ('NORM', arg)
            if arm == 'Some' and n and n[0] == 'in' and arg[0] == 'arg' and n[1][0] == arg[1] and len(n[1]) == 3 and n[1][1] == ('dc', 'Some'):
                return ('NORM', arg)
            if arm == 'None' and _is_sum_of_table(F, n):
                return ('NORM', arg)
        return None
    t = effects.rebuild(effects.strip_uid(t), pre)

    def f(n):
        if n and n[0] == 'arg' and n[1] == 1:
            return ('PROBS',)
        if n and n[0] == 'in' and n[1][0] == 1:
            return ('PROBS',)
        if n and n[0] == 'closure':
            return ('closure',)
        if n and n[0] == 'agg' and isinstance(n[1], tuple) and n[1][0] == 'closure':
            return ('closure',)
        return None
    return effects.rebuild(effects.strip_uid(t), f)


def _canon_guard(t, v):
    """integer comparisons modulo spelling: `!(a <= b)` is `b < a`, `a > b` is `b < a` (float comparisons are left alone: NaN)"""
    if isinstance(t, tuple) and t and t[0] == 'bin' and t[1] in ('Lt', 'Le', 'Gt', 'Ge') and not isinstance(v, tuple):
        op, a, b = t[1], t[2], t[3]
        if op in ('Gt', 'Ge'):
            op, a, b = ('Lt' if op == 'Gt' else 'Le'), b, a
        if not v:
            op, a, b = ('Le' if op == 'Lt' else 'Lt'), b, a
        return (('bin', op, a, b), 1)
    return (t, v)


def ctor_shape(F, b):
    """(set of validation predicates with Err exits, scale term) of a float-table constructor."""
    ev, paths = rules.evaluate(b)
    guards = set()
    scale = set()
    for r in paths or []:
        # an explicit match on the optional normalization argument splits the paths; fold both arms back into one atom
        opt = None
        for t, v, _ in r.preds:
            if t[0] == 'discr' and (t[1][0] == 'arg' or (t[1][0] == 'in' and len(t[1][1]) == 1)):
                arm = sym.discr_variant(t, v)
                if arm in ('Some', 'None'):
                    opt = (('arg', t[1][1] if t[1][0] == 'arg' else t[1][1][0]), arm)
        if r.end == 'return' and rules.ret_shape(r.ret)[0] == 'Err':
            for t, v, _ in r.preds:
                if opt is not None and t[0] == 'discr' and (t[1] == opt[0] or t[1] == ('in', (opt[0][1],))):
                    continue
                guards.add(repr(_canon_guard(role_float(t, F, opt), v)))
        for e in r.events:
            if e['kind'] == 'call' and e['callee'] == 'core::ops::Div::div':
                scale.add(repr(role_float(e['result'], F, opt)))
            if e['kind'] == 'call' and e['callee'] == 'core::ops::Mul::mul' and sym.contains(e['result'], lambda y: isinstance(y, tuple) and y and y[0] == 'call' and y[1].endswith('recip')):
                scale.add(repr(role_float(e['result'], F, opt)))
        for x in ([r.ret] if r.ret is not None else []):
            for y in sym.subterms(x):
                if isinstance(y, tuple) and y and y[0] == 'bin' and y[1] in ('Div',) and sym.contains(y, lambda z: isinstance(z, tuple) and z and z[0] == 'call' and z[1].endswith('wrapping_pow2')):
                    scale.add(repr(role_float(y, F, opt)))
    return guards, scale


def check_lazy_eager(ctx, F):
    ff = anchors.validators(F).get('float_fast')
    eager = [ff] if ff is not None else []
    lazy = [b for b in F.bodies if b.promoted is None and b.name == 'from_floating_point_probabilities_fast'
            and b.self_adt == 'stream::model::categorical::lazy_contiguous::LazyContiguousCategoricalEntropyModel']
    key = 'R4/lazy-equals-eager/scale'
    role = 'lazy and eager constructors compute the same `scale` under the same validation'
    if not eager or not lazy:
        ctx.bad('R4', role, 'stream::model::categorical', 'fast_quantized_cdf or the lazy constructor not found', key=key)
        return
    ge, se = ctor_shape(F, eager[0])
    gl, sl = ctor_shape(F, lazy[0])
    ctx.touch(eager[0])
    ctx.touch(lazy[0])
    if not se or not sl:
        ctx.unresolved('R4', role, lazy[0].defpath, 'scale computation not recognised (eager %d, lazy %d)' % (len(se), len(sl)), key=key)
    elif se != sl:
        ctx.bad('R4', role, lazy[0].defpath, 'eager: %s ; lazy: %s - the two models round differently, so their cumulatives can differ by one' % (sorted(se)[0][:200], sorted(sl)[0][:200]), key=key, loc=rules.loc(lazy[0]))
    else:
        ctx.ok('R4', role, lazy[0].defpath, 'scale = %s in both' % sorted(se)[0][:160], key=key)
    # validation: every guard of the lazy constructor is a guard of the eager one (the eager one may have more, e.g. the sign test)
    k2 = 'R4/lazy-equals-eager/validation'
    only_lazy = gl - ge
    if only_lazy:
        ctx.bad('R4', 'lazy constructor rejects only what the eager one rejects', lazy[0].defpath, 'guards without an eager twin: %s' % sorted(only_lazy)[0][:200], key=k2, loc=rules.loc(lazy[0]))
    else:
        missing = ge - gl
        ctx.ok('R4', 'lazy constructor rejects only what the eager one rejects', lazy[0].defpath,
               '%d shared guards%s' % (len(gl & ge), '; eager additionally has %d (sign test; known finding F7-lazy under C19)' % len(missing) if missing else ''), key=k2)
    # per-symbol formula shape: as_(PREFIXSUM * scale) + INDEX
    for b, what in ((F.closures_of(eager[0]), 'eager'),):
        pass
    enc = [b for b in F.bodies if b.promoted is None and b.name == 'left_cumulative_and_probability' and b.self_adt == lazy[0].self_adt]
    k3 = 'R4/lazy-equals-eager/formula'
    role3 = 'per-symbol formula is as_(prefix_sum * scale) + index in both, last boundary pinned to 2^PRECISION'
    shapes = {}

    def scaled_kind(p):
        """'raw' for as_(prefix * scale), 'clamped' for min(as_(prefix * scale), bound), else None"""
        if p[0] == 'cast' and p[2][0] == 'bin' and p[2][1] == 'Mul':
            return 'raw'
        if p[0] == 'call' and str(p[1]).endswith(('Ord::min', 'cmp::min')) and len(p[2]) == 2:
            ks = [scaled_kind(a) for a in p[2]]
            if ks.count('raw') == 1:
                return 'clamped'
        return None
    import props.C19 as c19
    for name, bodies in (('eager', F.closures_of(eager[0])), ('lazy', enc)):
        found = set()
        pinned = False
        for b in bodies:
            ev, paths = rules.evaluate(b)
            ctx.touch(b)
            for txt, clamped in c19._float_to_fixed_sites(F, b) or []:
                found.add('clamped' if clamped else 'raw')
            for r in paths or []:
                terms = [e['result'] for e in r.events if e['kind'] == 'call'] + ([r.ret] if r.ret is not None else [])
                for t in terms:
                    if sym.contains(t, lambda y: isinstance(y, tuple) and y and y[0] == 'call' and y[1].endswith('wrapping_pow2')):
                        pinned = True
        shapes[name] = (found, pinned)
    # the bound of the clamp: `min(converted, X - len)` with the same X = 2^PRECISION on both sides
    def clamp_bases(bodies, parent):
        out = []
        caps = {}
        if parent is not None:
            _, pp = rules.evaluate(parent)
            for r in pp or []:
                terms = ([r.ret] if r.ret is not None else []) + [a for e in r.events if e['kind'] == 'call' for a in e.get('args_val', e['args'])]
                for t in terms:
                    for x in sym.subterms(t):
                        if isinstance(x, tuple) and x and x[0] == 'agg' and isinstance(x[1], tuple) and x[1][0] == 'closure':
                            caps[x[1][1]] = x[2]
        for b in bodies:
            _, paths = rules.evaluate(b)
            for r in paths or []:
                terms = ([r.ret] if r.ret is not None else []) + [e['result'] for e in r.events if e['kind'] == 'call'] + [e['value'] for e in r.events if e['kind'] in ('write', 'write_ref')]
                for t in terms:
                    for x in sym.subterms(rules.inline_pure(F, t)):
                        if not (isinstance(x, tuple) and x and x[0] == 'call' and str(x[1]).endswith(('Ord::min', 'cmp::min')) and len(x[2]) == 2):
                            continue
                        for conv, bound in ((x[2][0], x[2][1]), (x[2][1], x[2][0])):
                            # a lower clamp in between (`max` with the running value keeps the table monotone) passes the conversion on
                            while conv[0] == 'call' and str(conv[1]).endswith(('Ord::max', 'cmp::max')) and len(conv[2]) == 2:
                                inner = [a for a in conv[2] if a[0] == 'cast']
                                if len(inner) != 1:
                                    break
                                conv = inner[0]
                            if not (conv[0] == 'cast' and sym.contains(conv[2], lambda y: isinstance(y, tuple) and y and y[0] == 'bin' and y[1].split('.')[0] == 'Mul')):
                                continue
                            bound = effects.strip_uid(bound)
                            # a captured variable of the closure: look its value up where the closure is built
                            if bound[0] == 'in' and bound[1][0] == 1 and len(bound[1]) >= 3 and isinstance(bound[1][2], tuple) and bound[1][2][0] == 'f' and b.defpath in caps:
                                k = int(bound[1][2][1])
                                if k < len(caps[b.defpath]):
                                    bound = effects.strip_uid(caps[b.defpath][k])
                            if bound[0] == 'bin' and bound[1].split('.')[0] == 'Sub' and sym.contains(bound[3], lambda y: isinstance(y, tuple) and y and y[0] == 'len'):
                                base = effects.rebuild(bound[2], lambda m: sym.mk_bin('Shl', ('k', 'one', 'Probability'), m[2][0]) if (m and m[0] == 'call' and str(m[1]).endswith('wrapping_pow2') and len(m[2]) == 1) else None)
                                pb = pow2mod.p2(base)
                                out.append((repr(sorted((k2, str(v[0])) for k2, v in pb.t.items())) if pb is not None else None, sym.show(bound[2])[:60]))
        return out
    be = clamp_bases(F.closures_of(eager[0]), eager[0])
    bl = clamp_bases(enc + [x for x in F.bodies if x.promoted is None and x.self_adt == lazy[0].self_adt and x.dk == 'AssocFn' and x.impl_trait is None and x not in enc], None)
    pe = {p_ for p_, _ in be if p_ is not None}
    pl = {p_ for p_, _ in bl if p_ is not None}
    if pe and pl and pe != pl:
        ctx.bad('R4', role3, lazy[0].defpath, 'the eager constructor clamps scaled prefix sums to `%s - len` and the lazy model to `%s - len`: for tables that end in (near-)zero weights the two models built from the same probabilities differ in the last symbols' % (be[0][1], bl[0][1]), key=k3 + '/clamp-bound', loc=rules.loc(lazy[0]))
    elif pe and pl:
        ctx.ok('R4', role3, lazy[0].defpath, 'both clamp to the same free weight (%s - len)' % be[0][1], key=k3 + '/clamp-bound')
    elif 'clamped' in shapes['eager'][0] and 'clamped' in shapes['lazy'][0]:
        ctx.unresolved('R4', role3, lazy[0].defpath, 'both sides clamp their conversions, but the bound of the clamp was not found in the form `min(conversion, X - len)` (eager: %d, lazy: %d)' % (len(pe), len(pl)), key=k3 + '/clamp-bound')
    # the eager path pins the last boundary in its callers (push of wrapping_pow2); accept that
    if shapes['eager'][0] and shapes['lazy'][0] and shapes['eager'][0] != shapes['lazy'][0]:
        ctx.bad('R4', role3, lazy[0].defpath, 'the eager constructor converts prefix sums as %s and the lazy model as %s: near the upper end (where rounding pushes the scaled sum past the free weight) the two produce different tables for the same probabilities' % (sorted(shapes['eager'][0]), sorted(shapes['lazy'][0])), key=k3, loc=rules.loc(lazy[0]))
    elif shapes['eager'][0] and shapes['lazy'][0] and shapes['lazy'][1]:
        ctx.ok('R4', role3, lazy[0].defpath, 'both use %s as_(float_prefix_sum * scale) + integer index; lazy pins the last boundary to wrapping_pow2(PRECISION)' % '/'.join(sorted(shapes['eager'][0])), key=k3)
    else:
        ctx.unresolved('R4', role3, lazy[0].defpath, 'formula shape not recognised: %s' % shapes, key=k3)


def _is_cdf_field(t):
    return isinstance(t, tuple) and t and t[0] == 'in' and isinstance(t[1][-1], tuple) and t[1][-1][0] == 'f' and t[1][-1][1] == 'cdf'


def _strip_view(t):
    while isinstance(t, tuple) and t and ((t[0] == 'proj' and t[2] == 'deref') or (t[0] == 'ref' and len(t) > 3 and t[3] == 'view')):
        t = t[1]
    return t


def check_cdf_search_extent(ctx, F):
    """Searched decoders search only the monotone part of their cdf.

    The last cdf entry is the total mass 1 << PRECISION, which wraps to 0 when PRECISION equals the width of
    Probability; the tables are therefore ordered only up to their last-but-one entry, and the encoder side, the
    iterated symbol table and the lookup decoders never consult the last entry as a left cumulative.  A std ordered
    search (binary_search*, partition_point) over the whole table is outside std's contract at full precision and
    resolves quantiles of the last bin differently from the encoder.  Rule: every such search in a categorical model
    receives `cdf[.. len(cdf) - 1]`."""
    n = 0
    for b in F.bodies:
        if b.promoted is not None or '::tests::' in b.defpath or b.dk not in ('Fn', 'AssocFn'):
            continue
        if 'stream::model::categorical' not in b.defpath:
            continue
        if not any(any(k in (facts_callee(t) or '') for k in ('binary_search', 'partition_point')) for _, t in b.calls()):
            continue
        ev, paths = rules.evaluate(b)
        verdict = None
        for r in paths or []:
            for e in r.events:
                if e['kind'] != 'call' or not any(k in e['callee'] for k in ('binary_search', 'partition_point')):
                    continue
                recv = _strip_view((e.get('args_val') or e['args'])[0])
                if _is_cdf_field(recv):
                    verdict = ('bad', 'the whole cdf (including the final total-mass entry, which is 0 at full precision)')
                elif recv[0] == 'call' and recv[1].endswith(('::get_unchecked', '::index', '::get')) and len(recv[2]) == 2 and _is_cdf_field(_strip_view(recv[2][0])):
                    rng = recv[2][1]
                    cdf = _strip_view(recv[2][0])
                    want = sym.mk_bin('Sub', sym.mk_len(cdf), ('int', 1))
                    if rng[0] == 'agg' and rng[1][-1] == 'RangeTo' and rng[2][0] == want:
                        verdict = verdict or ('ok', 'cdf[..len - 1]')
                    elif rng[0] == 'agg' and rng[1][-1] in ('RangeFrom', 'RangeFull'):
                        # open to the right: the slice ends with the total-mass entry whatever its start
                        verdict = ('bad', 'cdf[%s..] - a sub-slice that is open to the right, so it ends with the final total-mass entry (0 at full precision; and for a quantile >= 1 << PRECISION the result lies past the last bin, which the unchecked accesses behind the search do not expect)' % (sym.show(rng[2][0])[:20] if rng[2] else ''))
                    else:
                        verdict = verdict if verdict and verdict[0] == 'bad' else ('unres', 'sub-slice %s' % sym.show(rng)[:80])
                elif not sym.contains(recv, _is_cdf_field):
                    continue
                else:
                    verdict = verdict if verdict and verdict[0] == 'bad' else ('unres', 'receiver %s' % sym.show(recv)[:80])
        if verdict is None:
            continue
        n += 1
        ctx.touch(b)
        key = 'R4/cdf-search-extent/' + b.defpath
        role = 'ordered search over a cdf excludes the wrapping total-mass entry'
        if verdict[0] == 'ok':
            ctx.ok('R4', role, b.defpath, 'searches ' + verdict[1], key=key)
        elif verdict[0] == 'bad':
            ctx.bad('R4', role, b.defpath, 'searches ' + verdict[1] + ': with PRECISION == Probability::BITS a quantile in the last bin is resolved past the end / to a different symbol than the encoder, the symbol table and the lookup decoder use', key=key, loc=rules.loc(b))
        else:
            ctx.unresolved('R4', role, b.defpath, 'searched slice not recognised: ' + verdict[1], key=key)
    if n < 2:
        ctx.unresolved('R4', 'ordered search over a cdf excludes the wrapping total-mass entry', 'stream::model::categorical', 'only %d searched decoders found (2 confirmed by reading)' % n, key='R4/cdf-search-extent/floor')


def _payload_norm(t):
    """`unwrap(in:P)` (from `?`) and `in:P.as Some.0` (from `if let`) both denote the payload of the option stored at P."""
    def f(n):
        if n and n[0] == 'unwrap' and isinstance(n[1], tuple) and n[1][0] == 'in':
            return ('payload_of', n[1][1])
        if n and n[0] == 'in' and len(n[1]) >= 2 and n[1][-1] == ('f', '0') and isinstance(n[1][-2], tuple) and n[1][-2][0] in ('as', 'dc') and n[1][-2][1] == 'Some':
            return ('payload_of', n[1][:-2])
        if n and n[0] == 'payload' and isinstance(n[1], tuple) and n[1][0] == 'in' and n[2] == 'Some':
            return ('payload_of', n[1][1])
        return None
    return effects.rebuild(t, f)


def _is_width_mask(t):
    """2^(8*size_of::<T>()) - 1 : the mask that undoes the sign extension of a narrow signed value."""
    return sym.contains(t, lambda x: isinstance(x, tuple) and x and x[0] == 'call' and str(x[1]).endswith('mem::size_of'))


def _mod_affine(t, is_state):
    """affine form of a counter modulo wrap-around: constant masks and saturation are transparent; a cast of a *wrapping
    difference* is only transparent under the width mask (a generic symbol type may be signed and narrower than the
    target: a difference that is negative as a symbol would sign-extend) - otherwise it becomes an `unmasked` atom."""
    def pre(n):
        if n and n[0] == 'bin' and n[1] == 'BitAnd':
            for a, b in ((n[2], n[3]), (n[3], n[2])):
                if _is_width_mask(a) and isinstance(b, tuple) and b and b[0] == 'cast':
                    return ('masked', b[2])
        return None
    t = effects.rebuild(t, pre)

    def f(n):
        if not n:
            return None
        if n[0] == 'masked':
            return n[1]
        if n[0] == 'cast':
            inner = n[2]
            if isinstance(inner, tuple) and inner and inner[0] == 'bin' and inner[1] in ('Sub.w', 'Sub') and sym.contains(inner, is_state) and n[4] not in ('usize', 'u8', 'u16', 'u32', 'u64', 'u128'):
                return ('unmasked', inner)
            return n[2]
        if n[0] == 'k' and n[1] in ('one', 'zero'):
            return ('int', 1 if n[1] == 'one' else 0)
        if n[0] == 'bin' and n[1] == 'BitAnd':
            a, b = n[2], n[3]
            if not sym.contains(a, is_state):
                return b
            if not sym.contains(b, is_state):
                return a
        if n[0] == 'bin' and n[1] in ('Add.w', 'Sub.w'):
            return sym.mk_bin(n[1][:3], n[2], n[3])
        if n[0] == 'call' and isinstance(n[1], str) and n[1].endswith(('::saturating_add', '::wrapping_add', '::saturating_sub', '::wrapping_sub')) and len(n[2]) == 2:
            return sym.mk_bin('Add' if n[1].endswith('add') else 'Sub', n[2][0], n[2][1])
        return None
    return sym.affine(effects.rebuild(t, f))


def check_normalization_forwarded(ctx, F):
    """Every `_fast` constructor that takes an optional normalization hands exactly that argument to the shared quantiser: the
    five representations built by the same-named constructor from the same arguments are then the same model.  A member that
    quantises with its own idea of the normalization (the computed sum, say) builds a different table whenever the caller's
    value is not that sum."""
    ff = anchors.validators(F).get('float_fast')
    key0 = 'R4/normalization-forwarded'
    role = 'a `_fast` constructor passes its normalization argument on to the shared quantiser unchanged'
    if ff is None:
        return ctx.unresolved('R4', role, 'stream::model::categorical', 'the fast quantiser was not found', key=key0)
    n = 0
    for b in F.bodies:
        if b.promoted is not None or '::tests::' in b.defpath or b.defpath.startswith(('pybindings', '<pybindings')) or b.dk not in ('Fn', 'AssocFn'):
            continue
        if not any((facts.callee(t) or {}).get('def') == ff.defpath for _, t in b.calls()):
            continue
        opt_args = [i for i in range(1, b.arg_count + 1) if F.ty_s(b.local_ty(i)).startswith('core::option::Option<')]
        if len(opt_args) != 1:
            continue
        k = opt_args[0]
        try:
            _, paths = rules.evaluate(b)
        except sym.TooManyPaths:
            ctx.unresolved('R4', role, b.defpath, 'too many paths', key=key0 + '/' + b.defpath)
            continue
        ctx.touch(b)
        n += 1
        bad = None
        unres = None
        seen = 0
        for r in paths or []:
            for e in r.events:
                if e['kind'] == 'call' and e['callee'] == ff.defpath and len(e['args']) >= 2:
                    seen += 1
                    a = effects.strip_uid(e.get('args_val', e['args'])[1])
                    is_k = lambda x: x == ('arg', k) or (isinstance(x, tuple) and x and x[0] == 'in' and x[1][0] == k)
                    if a == ('arg', k) or (a[0] == 'in' and a[1] == (k,)):
                        continue
                    if sym.contains(a, is_k):
                        unres = 'hands `%s`, a value derived from its normalization argument, to the shared quantiser' % sym.show(a)[:80]
                        continue
                    # `None` passed on the arm of a match that decided the argument is None
                    if a[0] == 'agg' and isinstance(a[1], tuple) and a[1][0] == 'adt' and a[1][2] == 'None' and any(
                            t[0] == 'discr' and is_k(t[1]) and sym.discr_variant(t, v) == 'None' for t, v, _ in r.preds):
                        continue
                    if True:
                        bad = bad or ('hands `%s` to the shared quantiser instead of its own normalization argument: built from the same arguments, this representation differs from its siblings whenever the caller\'s normalization is not the value used here' % sym.show(a)[:80])
        if bad:
            ctx.bad('R4', role, b.defpath, bad, key=key0 + '/' + b.defpath, loc=rules.loc(b))
        elif unres:
            ctx.unresolved('R4', role, b.defpath, unres, key=key0 + '/' + b.defpath)
        elif seen:
            ctx.ok('R4', role, b.defpath, 'argument %d is passed on as it is' % k, key=key0 + '/' + b.defpath)
        else:
            ctx.unresolved('R4', role, b.defpath, 'the call of the quantiser lies on no enumerated path', key=key0 + '/' + b.defpath)
    ctx.floor('R4', 'floor: `_fast` constructors with a normalization argument', 'stream::model::categorical', n, 4, 'only %d found (5 on the reference tree)' % n, key=key0 + '/floor')


def check_legacy_constructors_agree(ctx, F):
    """The deprecated float constructors (`from_floating_point_probabilities`, `from_symbols_and_floating_point_probabilities`) of
    the five categorical model types are one family: each forwards to the sibling strategy of its own type, and all to the *same*
    strategy (today `_perfect`) - two representations built by the same-named constructor from the same table are the same model.
    A member that forwards to the other strategy produces a different table."""
    fam = [b for b in F.bodies if b.promoted is None and b.dk == 'AssocFn' and b.name in ('from_floating_point_probabilities', 'from_symbols_and_floating_point_probabilities')
           and '::tests::' not in b.defpath and not b.defpath.startswith(('pybindings', '<pybindings')) and (b.self_adt or '').startswith('stream::model::categorical')]
    key = 'R4/legacy-constructors-agree'
    role = 'the deprecated float constructors of all model types forward to the same strategy'
    if len(fam) < 3:
        return ctx.unresolved('R4', role, 'stream::model::categorical', 'only %d deprecated float constructors found' % len(fam), key=key)
    strat = {}
    for b in fam:
        ctx.touch(b)
        tg = sorted({(facts_callee(t) or '').rsplit('::', 1)[-1] for _, t in b.calls() if (facts_callee(t) or '').rsplit('::', 1)[-1].startswith('from_') and (facts_callee(t) or '').rsplit('::', 1)[-1] != b.name})
        suffix = sorted({x.rsplit('_', 1)[-1] for x in tg})
        strat[b.defpath] = suffix
    kinds = {}
    for d, sfx in strat.items():
        kinds.setdefault(tuple(sfx), []).append(d)
    if any(len(k) != 1 for k in kinds):
        return ctx.unresolved('R4', role, 'stream::model::categorical', 'a deprecated constructor does not forward to exactly one sibling constructor: %s' % {d.rsplit('::', 2)[-2][:40]: s_ for d, s_ in strat.items() if len(s_) != 1}, key=key)
    if len(kinds) == 1:
        return ctx.ok('R4', role, 'stream::model::categorical', '%d constructors, all forward to `..._%s`' % (len(fam), next(iter(kinds))[0]), key=key)
    major = max(kinds.items(), key=lambda kv: len(kv[1]))[0]
    odd = [d for k, ds in kinds.items() if k != major for d in ds]
    ob = F.by_def[odd[0]]
    ctx.bad('R4', role, odd[0], 'forwards to `..._%s` while its %d siblings forward to `..._%s`: the same-named constructor now builds a different table for this representation than for the others' % (strat[odd[0]][0], len(kinds[major]), major[0]), key=key, loc=rules.loc(ob))


def check_nth_agrees_with_size_hint(ctx, F):
    """An iterator over a symbol table that overrides `nth` (to jump instead of stepping) defines "advance by n" a second time.
    Whatever the jump does, it may return `None` for `n` only if fewer than `n + 1` items are left - and the number of items
    left is what the same type's `size_hint().0` reports (consistent with `next()` by the step rule above).  So on every path
    of `nth` that returns None with the iterator not yet finished, `n >= size_hint().0` is entailed by the path's decisions.
    (Zero instances on the pinned tree; the positive control is the seeded change r13-C05-mut1.)"""
    IT = 'core::iter::Iterator'
    n = 0
    for b in F.bodies:
        if b.promoted is not None or b.impl_trait != IT or b.name != 'nth' or b.dk != 'AssocFn' or '::tests::' in b.defpath or not (b.self_adt or '').startswith('stream::model'):
            continue
        hints = [x for x in F.bodies if x.promoted is None and x.impl_trait == IT and x.name == 'size_hint' and x.self_adt == b.self_adt and F.ty_s(x.impl_self) == F.ty_s(b.impl_self)]
        n += 1
        key = 'R10/nth-agrees-with-size-hint/' + b.defpath
        role = 'nth(n) returns None only if n >= size_hint().0'
        ctx.touch(b)
        if len(hints) != 1:
            ctx.unresolved('R10', role, b.defpath, 'no size_hint override of the same iterator to compare with', key=key)
            continue
        norm1 = lambda t: effects.rebuild(effects.strip_uid(t), lambda m: ('unwrap', m[1]) if (m and m[0] == 'payload' and m[2] == 'Some' and m[3] == '0') else (sym.mk_bin('Add', m[2][0], m[2][1]) if (m and m[0] == 'call' and str(m[1]).endswith('saturating_add') and len(m[2]) == 2) else None))
        def norm(t):
            for _ in range(3):
                t = norm1(t)
            # `if let Some(x) = self.field` reads the payload through a downcast place, `self.field?` through unwrap: one value
            return effects.rebuild(t, lambda m: ('unwrap', ('in', m[1][:-2])) if (m and m[0] == 'in' and len(m[1]) > 2 and m[1][-2:] == (('dc', 'Some'), ('f', '0'))) else None)
        _, hp = rules.evaluate(hints[0])
        lows = []
        for r in hp or []:
            if r.end == 'return' and r.ret is not None and r.ret[0] == 'agg' and r.ret[1] == 'tuple' and len(r.ret[2]) == 2 and r.ret[2][0] != sym.mk_int(0):
                lows.append(norm(r.ret[2][0]))
        if len(lows) != 1:
            ctx.unresolved('R10', role, b.defpath, 'size_hint().0 of the unfinished iterator not identified', key=key)
            continue
        L = lows[0]
        _, paths = rules.evaluate(b)
        bad = None
        n_none = 0
        for r in paths or []:
            if r.end != 'return' or r.ret is None or not (r.ret[0] == 'agg' and isinstance(r.ret[1], tuple) and r.ret[1][0] == 'adt' and r.ret[1][2] == 'None'):
                continue
            n_none += 1
            preds = [(norm(t), v, x) for t, v, x in r.preds]
            d = dbmmod.DBM()
            dbmmod.harvest(d, preds)
            if not d.entails_le(L, ('arg', 2)):
                bad = 'a path returns None without having decided n >= %s (what size_hint().0 reports for the same state): the jump gives up although the item at distance n exists - `nth`, `skip` and `step_by` then lose the last symbol(s) of the table that `next()` would still yield' % sym.show(L)[:80]
        if bad:
            ctx.bad('R10', role, b.defpath, bad, key=key, loc=rules.loc(b))
        elif n_none:
            ctx.ok('R10', role, b.defpath, '%d None-returning path(s), each entails n >= size_hint().0' % n_none, key=key)
        else:
            ctx.unresolved('R10', role, b.defpath, 'no path returns None directly', key=key)
    ctx.extra['nth_overrides'] = n


def check_size_hint_steps(ctx, F):
    """Iterator::size_hint is consistent with Iterator::next for every crate-local iterator that overrides it.

    `symbol_table()` is what every conversion to a generic / lookup model collects; the collectors reserve
    `size_hint().0` entries up front, so a lower bound that is not a lower bound makes the conversion abort instead of
    producing the equal model.  Two forms are recognised.
      forward: size_hint = inner.size_hint()  and every path of next() pulls exactly one item from the same inner iterator.
      counter: size_hint().0 = L(state); every path of next() that yields an item steps the state so that L drops by
               exactly one, and a path that ends the iteration starts from L = 1 (compared as affine forms modulo wrap)."""
    IT = 'core::iter::Iterator'
    hints = {b.self_ty if hasattr(b, 'self_ty') else b.defpath.rsplit('::', 1)[0]: b for b in rules.impl_bodies(F, IT, 'size_hint') if '::tests::' not in b.defpath}
    nexts = {b.defpath.rsplit('::', 1)[0]: b for b in rules.impl_bodies(F, IT, 'next')}
    n = 0
    for impl, sh in sorted(hints.items()):
        nx = nexts.get(impl)
        key = 'R10/size-hint-step/' + impl
        role = 'size_hint().0 decreases by one with every item next() yields'
        if nx is None:
            ctx.unresolved('R10', role, impl, 'next() of the same impl not found', key=key)
            continue
        n += 1
        ctx.touch(sh); ctx.touch(nx)
        ev_s, ps = rules.evaluate(sh)
        ev_n, pn = rules.evaluate(nx)
        ps = [r for r in ps or [] if r.end == 'return']
        pn = [r for r in pn or [] if r.end == 'return']
        if not ps or not pn:
            ctx.unresolved('R10', role, impl, 'bodies not evaluated', key=key)
            continue
        # ---- forward form
        if len(ps) == 1 and ps[0].ret[0] == 'call' and ps[0].ret[1].endswith('Iterator::size_hint'):
            inner = ps[0].ret[2][0]
            bad = None
            for r in pn:
                pulls = [e for e in r.events if e['kind'] == 'call' and e['callee'].endswith('Iterator::next') and e.get('args_val') and _strip_view(e['args_val'][0]) == _strip_view(inner)]
                if len(pulls) != 1:
                    bad = 'a path of next() pulls %d items from %s' % (len(pulls), sym.show(inner))
            if bad:
                ctx.bad('R10', role, impl, 'size_hint forwards to %s but %s' % (sym.show(inner), bad), key=key, loc=rules.loc(nx))
            else:
                ctx.ok('R10', role, impl, 'forwards to %s; each of %d paths of next() pulls exactly one item from it' % (sym.show(inner), len(pn)), key=key)
            continue
        # ---- counter form
        is_state = lambda x: isinstance(x, tuple) and x and x[0] in ('in', 'payload_of')
        cases = []   # (option path or None, variant, lower term)
        for r in ps:
            if not (r.ret[0] == 'agg' and r.ret[1] == 'tuple'):
                cases = None
                break
            lower = _payload_norm(rules.inline_pure(F, r.ret[2][0]))
            variant, opt = None, None
            for t, v, _ in r.preds:
                dv = sym.discr_variant(t, v)
                if dv and t[0] == 'discr' and t[1][0] == 'in':
                    variant, opt = dv, t[1][1]
            cases.append((opt, variant, lower))
        if not cases:
            ctx.unresolved('R10', role, impl, 'size_hint does not return a literal pair', key=key)
            continue

        def L_of(store_read, pre):
            """lower bound as a term, for the pre-state (pre=True) or for the state a path of next() leaves."""
            for opt, variant, lower in cases:
                if opt is None:
                    if pre:
                        return lower
                    m = {x: store_read(x[1]) for x in sym.subterms(lower) if isinstance(x, tuple) and x and x[0] == 'in' and x[1][:2] == (1, 'deref')}
                    return _payload_norm(sym.subst(lower, m))
                if pre:
                    if variant == 'Some':
                        return lower
                    continue
                v = store_read(opt)
                if v == ('in', opt):
                    if variant == 'Some':
                        return lower
                    continue
                if v[0] == 'agg' and isinstance(v[1], tuple) and v[1][-1] == variant:
                    if variant == 'Some':
                        return _payload_norm(sym.subst(lower, {('payload_of', opt): _payload_norm(v[2][0])}))
                    return lower
            return None
        verdict = []
        for r in pn:
            yields = r.ret[0] == 'agg' and isinstance(r.ret[1], tuple) and r.ret[1][-1] == 'Some'
            if not yields:
                continue
            pre = L_of(None, True)
            post = L_of(lambda path: ev_n.final_read(r, path), False)
            if pre is None or post is None:
                verdict.append(('unres', 'state after next() not matched with a case of size_hint'))
                continue
            # equalities the path knows (e.g. symbol == max on the last item)
            eqs = {}
            for t, v, _ in r.preds:
                t = _payload_norm(t)
                if t[0] == 'bin' and t[1] == 'Eq' and v:
                    a, b = t[2], t[3]
                    if sym.contains(a, lambda x: x and x[0] == 'payload_of'):
                        eqs[a] = b
                    elif sym.contains(b, lambda x: x and x[0] == 'payload_of'):
                        eqs[b] = a
            pre_s = sym.subst(pre, eqs)
            post_s = sym.subst(post, eqs)
            a, b = _mod_affine(pre_s, is_state), _mod_affine(post_s, is_state)
            if a is None or b is None:
                verdict.append(('unres', 'bound is not affine'))
                continue
            unmasked = [at for k, (c, at) in list(a[0].items()) + list(b[0].items()) if isinstance(at, tuple) and at and at[0] == 'unmasked']
            if unmasked:
                verdict.append(('bad', 'the bound casts the wrapping difference %s to a wider integer without masking it to the width of the symbol type: for a signed symbol type whose support spans half its range or more the '
                                'difference is negative as a symbol and sign-extends, so size_hint().0 is about 2^64 and collectors fail with a capacity overflow' % sym.show(unmasked[0][1])[:100]))
                continue
            d = sym.affine_sub(a, b)
            if not d[0] and d[1] == 1:
                verdict.append(('ok', ''))
            elif not d[0]:
                verdict.append(('bad', 'a path of next() that yields an item takes the bound from [%s] to [%s] (affine forms modulo wrap-around): it changes by %+d instead of -1, so size_hint().0 is not a lower bound of the remaining items and collectors reserve that many entries' % (
                    sym.affine_str(a)[:160], sym.affine_str(b)[:160], -d[1])))
            else:
                verdict.append(('unres', 'difference %s is not a constant' % sym.affine_str(d)))
        if not verdict:
            ctx.unresolved('R10', role, impl, 'next() has no yielding path', key=key)
        elif any(v[0] == 'bad' for v in verdict):
            ctx.bad('R10', role, impl, [v[1] for v in verdict if v[0] == 'bad'][0], key=key, loc=rules.loc(sh))
        elif any(v[0] == 'unres' for v in verdict):
            ctx.unresolved('R10', role, impl, [v[1] for v in verdict if v[0] == 'unres'][0], key=key)
        else:
            ctx.ok('R10', role, impl, '%d yielding path(s) of next(), each lowers the bound by exactly one' % len(verdict), key=key)
    if n < 5:
        ctx.unresolved('R10', 'size_hint().0 decreases by one with every item next() yields', 'crate', 'only %d iterators with a custom size_hint found (5 confirmed by reading)' % n, key='R10/size-hint-step/floor')


def check_uniform_table_extent(ctx, F):
    """UniformModel: the iterated symbol table covers exactly the support 0 ..= last_symbol (what the encoder and decoder views
    accept), i.e. it yields last_symbol + 1 entries starting at 0."""
    key = 'R5/uniform-table-extent/stream::model::uniform::UniformModel'
    role = 'symbol_table() of the uniform model yields exactly the symbols 0 ..= last_symbol'
    bs = [b for b in F.bodies if b.promoted is None and b.name == 'symbol_table' and (b.self_adt or '').endswith('uniform::UniformModel')]
    if not bs:
        return ctx.unresolved('R5', role, 'stream::model::uniform', 'symbol_table not found', key=key)
    b = bs[0]
    ev, paths = rules.evaluate(b)
    ctx.touch(b)
    rs = [r for r in paths or [] if r.end == 'return']
    if len(rs) != 1:
        return ctx.unresolved('R5', role, b.defpath, 'several paths', key=key)
    src = rs[0].ret
    while src[0] == 'call' and src[1].endswith(('Iterator::map', 'into_iter')):
        src = src[2][0]
    last = lambda t: sym.contains(t, lambda x: isinstance(x, tuple) and x and x[0] == 'in' and x[1][-1] == ('f', 'last_symbol'))
    inclusive = False
    if src[0] == 'call' and str(src[1]).endswith('RangeInclusive::<Idx>::new') and len(src[2]) == 2:
        inclusive = True                      # `a..=b` is built by RangeInclusive::new(a, b)
        start, end = src[2]
    elif src[0] == 'agg' and isinstance(src[1], tuple) and src[1][-1] in ('Range', 'RangeInclusive'):
        inclusive = src[1][-1] != 'Range'
        start, end = src[2][0], src[2][1]
    else:
        return ctx.unresolved('R5', role, b.defpath, 'iterator source is not a range: %s' % sym.show(src)[:80], key=key)
    strip = lambda t: effects.rebuild(t, lambda n: n[2] if n and n[0] == 'cast' else None)
    n_items = sym.affine(sym.mk_bin('Sub', strip(end), strip(start)))
    if inclusive:
        n_items = (n_items[0], n_items[1] + 1)
    atoms = [(c, at) for k, (c, at) in n_items[0].items()]
    if start != ('int', 0) or len(atoms) != 1 or atoms[0][0] != 1 or not last(atoms[0][1]):
        return ctx.unresolved('R5', role, b.defpath, 'range bounds not recognised: %s' % sym.show(src)[:100], key=key)
    if n_items[1] == 1:
        ctx.ok('R5', role, b.defpath, 'iterates %s: last_symbol + 1 entries from 0' % sym.show(src)[:80], key=key)
    else:
        ctx.bad('R5', role, b.defpath, 'the table iterates %s, i.e. last_symbol %+d entries: %s; a model tabulated from it (to_generic_*_model, From<&M>) disagrees with the uniform model itself' % (
            sym.show(src)[:80], n_items[1], 'it contains a symbol outside the support (accepted by the converted encoder model)' if n_items[1] > 1 else 'the last symbols of the support are missing'), key=key, loc=rules.loc(b))


def check_conservative_preskip(ctx, F):
    """The lazy categorical decoder first skips symbols using float arithmetic only and then searches exactly.  The skip
    is sound iff every skipped symbol's right cumulative is <= quantile.  With right_cumulative(i) = as_(rcf_i * scale) +
    (i + 1) <= rcf_i * scale + len, this follows from `rcf_i < (quantile - K) / (c * scale)` provided
      (1) the loop continues only on the *strict* comparison (it breaks as soon as LB <= rcf),
      (2) K >= len (the largest integer slack any right cumulative carries), subtracted saturatingly,
      (3) c >= 1.
    The three conditions are read off the break predicate of the float-only loop; anything else is unresolved."""
    lazy = [b for b in F.bodies if b.promoted is None and b.name == 'quantile_function' and b.impl_trait == 'stream::model::DecoderModel'
            and (b.self_adt or '').endswith('LazyContiguousCategoricalEntropyModel')]
    key = 'R6/conservative-preskip/lazy'
    role = 'the float-only pre-skip of the lazy decoder never skips the symbol that contains the quantile'
    if not lazy:
        return ctx.unresolved('R6', role, 'stream::model::categorical::lazy_contiguous', 'lazy quantile_function not found', key=key)
    b = lazy[0]
    ev, paths = rules.evaluate(b)
    ctx.touch(b)
    is_q = lambda x: x == ('arg', 2)
    found = None
    for r in paths or []:
        for t, v, _ in r.preds:
            if not (t[0] == 'bin' and t[1].endswith('.f') and t[1].split('.')[0] in ('Lt', 'Le', 'Gt', 'Ge')):
                continue
            a, c = t[2], t[3]
            op = t[1].split('.')[0]
            if op in ('Gt', 'Ge'):
                a, c = c, a
                op = {'Gt': 'Lt', 'Ge': 'Le'}[op]
            # normalised:  a OP c  with OP in Lt/Le
            if sym.contains(a, is_q) and sym.contains(c, lambda x: isinstance(x, tuple) and x and x[0] == 'loop') and not sym.contains(c, is_q):
                found = ('lb-left', op, a, c)
            elif sym.contains(c, is_q) and sym.contains(a, lambda x: isinstance(x, tuple) and x and x[0] == 'loop') and not sym.contains(a, is_q):
                found = ('lb-right', op, c, a)
    if not found:
        return ctx.unresolved('R6', role, b.defpath, 'no float comparison between a quantile-derived bound and a running float sum found', key=key)
    side, op, LB, rcf = found
    # (1) strictness: "break iff LB <= rcf"  ==  Le(LB, rcf) true -> break  (continue iff rcf < LB);  equivalently Lt(rcf, LB) true -> continue
    strict_ok = (side == 'lb-left' and op == 'Le') or (side == 'lb-right' and op == 'Lt')
    # (2), (3): LB = cast(saturating_sub(q, K)) / (c * scale)
    if not (LB[0] == 'bin' and LB[1].split('.')[0] == 'Div'):
        return ctx.unresolved('R6', role, b.defpath, 'bound is not a quotient: %s' % sym.show(LB)[:100], key=key)
    num, den = LB[2], LB[3]
    while num[0] == 'cast':
        num = num[2]
    problems = []
    if not strict_ok:
        problems.append('the skip loop continues on `running sum <= bound` (it should break as soon as bound <= running sum): on equality the symbol that contains the quantile can be skipped')
    if num[0] == 'call' and str(num[1]).endswith('saturating_sub') and is_q(num[2][0]):
        K = num[2][1]
        while K[0] == 'cast':
            K = K[2]
        lens = [x for x in sym.subterms(K) if isinstance(x, tuple) and x and x[0] == 'len']
        d = sym.affine_sub(sym.affine(K), sym.affine(lens[0])) if lens else None
        if d is None or d[0] or d[1] < 0:
            problems.append('the bound subtracts %s from the quantile, which is not provably >= the number of symbols (the integer slack a right cumulative can carry)' % sym.show(K)[:60])
    elif is_q(num):
        problems.append('the bound uses the quantile itself and does not subtract the integer slack (up to the number of symbols) that every right cumulative carries: symbols whose float mass is below the bound but whose slack lifts them above the quantile are skipped')
    else:
        return ctx.unresolved('R6', role, b.defpath, 'numerator not recognised: %s' % sym.show(num)[:100], key=key)
    scale_ok = sym.contains(den, lambda x: isinstance(x, tuple) and x and x[0] == 'in' and x[1][-1] == ('f', 'scale'))
    if not scale_ok:
        return ctx.unresolved('R6', role, b.defpath, 'denominator does not mention self.scale', key=key)
    if problems:
        ctx.bad('R6', role, b.defpath, '; '.join(problems) + ' - the decoder view then disagrees with the encoder view (and with the eager model) for those quantiles', key=key, loc=rules.loc(b))
    else:
        ctx.ok('R6', role, b.defpath, 'break iff bound <= running sum; bound = (quantile saturating_sub K) / (c * scale) with K >= len', key=key)


def facts_callee(t):
    from vlib.facts import callee
    c = callee(t)
    return (c.get('def') or '') if c else ''


def check_symbol_successor(ctx, F):
    """The walk over a quantized model's support (its symbol_table iterator, the conversions and diagnostics built on it) forms
    `symbol + 1` only for a symbol that is known to differ from / lie below another symbol of the support (its maximum): a
    support may end at `Symbol::max_value()`, where the unguarded successor overflows (panic in debug builds, a walk that never
    terminates in release builds) although the encoder and decoder views of the same model work.  Rule over every
    `Add::add(x, one())` on a value of a generic *symbol* type in the iterators of stream::model: a strict comparison of x with
    another symbol holds on the path."""
    n = 0
    for b in F.bodies:
        if b.promoted is not None or b.name != 'next' or b.impl_trait != 'core::iter::Iterator' or not b.defpath.startswith('<stream::model::') or '::tests::' in b.defpath:
            continue
        sites = []
        for i, t in b.calls():
            c = facts.callee(t)
            if c and c.get('name') == 'add' and str(c.get('def', '')).startswith('core::ops') and c.get('args'):
                ty = F.types[c['args'][0]['ty']] if isinstance(c['args'][0], dict) and 'ty' in c['args'][0] else None
                if ty and ty.get('k') == 'param':
                    sites.append(i)
        if not sites:
            continue
        ev, paths = rules.evaluate(b)
        ctx.touch(b)
        key = 'R9/symbol-successor/' + b.defpath
        role = 'the successor of a symbol is formed only below the end of the support'
        bad = unk = None
        seen = 0
        for r in paths or []:
            for i, e in enumerate(r.events):
                if e['kind'] != 'call' or e['callee'] != 'core::ops::Add::add' or e['block'] not in sites:
                    continue
                a = e['args_val']
                one = [x for x in a if x == ('call', 'num_traits::One::one', (), None) or sym.show(x) == 'one()']
                if len(one) != 1:
                    continue
                x = [y for y in a if y not in one][0]
                seen += 1
                ok = False
                for ev2 in r.events[:i]:
                    if ev2['kind'] != 'branch':
                        continue
                    t, v = ev2['term'], bool(ev2['value'])
                    while isinstance(t, tuple) and t and t[0] == 'not':
                        t, v = t[1], not v
                    if not (isinstance(t, tuple) and t and t[0] == 'bin'):
                        continue
                    op = t[1].split('.')[0]
                    l, rr = t[2], t[3]
                    if op in ('Eq',) and not v and x in (l, rr):
                        ok = True
                    if op in ('Ne',) and v and x in (l, rr):
                        ok = True
                    if (op == 'Lt' and v and l == x) or (op == 'Gt' and v and rr == x) or (op == 'Ge' and not v and l == x) or (op == 'Le' and not v and rr == x):
                        ok = True
                mentioned = any(ev2['kind'] == 'branch' and sym.contains(ev2['term'], lambda y: y == x) and not (ev2['term'][0] == 'discr' and ev2['term'][1] == x) for ev2 in r.events[:i])
                if not ok and mentioned:
                    unk = 'the successor of %s follows a test on it that the rule does not read' % sym.show(x)[:60]
                elif not ok:
                    bad = 'the successor of %s is formed on a path without a test that it is below/different from the last symbol: for a support that ends at the largest value of the symbol type the increment overflows' % sym.show(x)[:60]
        if seen == 0:
            continue
        n += 1
        if bad:
            ctx.bad('R9', role, b.defpath, bad, key=key, loc=rules.loc(b))
        elif unk:
            ctx.unresolved('R9', role, b.defpath, unk, key=key)
        else:
            ctx.ok('R9', role, b.defpath, '%d successor site(s)/path(s), each behind a strict comparison' % seen, key=key)
    if n == 0:
        ctx.unresolved('R9', 'symbol-table iterators that step a generic symbol', 'stream::model', 'none found (the quantized model\'s iterator no longer forms `x + one()`?)', key='R9/floor/symbol-successor')


def run(ctx):
    F = ctx.F
    check_quantizer_boundaries(ctx, F)
    check_cdf_search_extent(ctx, F)
    check_size_hint_steps(ctx, F)
    check_nth_agrees_with_size_hint(ctx, F)
    check_legacy_constructors_agree(ctx, F)
    check_normalization_forwarded(ctx, F)
    check_conservative_preskip(ctx, F)
    check_uniform_table_extent(ctx, F)
    check_symbol_successor(ctx, F)
    check_views(ctx, F)
    check_forwarding(ctx, F)
    check_pass_through(ctx, F)
    check_lookup_fill(ctx, F)
    check_lookup_growth(ctx, F)
    check_lazy_eager(ctx, F)
    ctx.assume('structural equality of two float computations implies bit-identical results (same operations in the same order); an algebraically equivalent rewrite of one sibling would be reported (DESIGN R4)')
    return {
        'level': 'other',
        'explanation': 'Affine boundary-consistency rule (R10) over every fixed-point cumulative of the leaky quantizer; same-field rule for views; delegation rule for &M; no-arithmetic rule for the generic '
                       'conversions; monotonic-part agreement between the lookup fill and the searched decoder; structural equality of the scale computation and validation of the lazy and eager categorical '
                       'constructors. These are necessary conditions for the representations to be the same model for all inputs; numeric equality of genuinely different float paths is not decided.',
        'trusted_base': ['rustc type checker + MIR construction', 'cfacts extractor'],
    }
