"""C10 — decoding arbitrary data is total and stays inside the model (partial).

Statically decided clauses:
  1. bounded quantile: at every call of DecoderModel::quantile_function inside a coder the argument is
     < 2^PRECISION on every path: by construction (`% (1 << PRECISION)`), by a dominating guard whose
     failing arm returns an error, or by the type width on the PRECISION == BITS edge          (R2 + bounded-value domain)
  2. model-side guards: lookup models index their table only under `quantile < 1 << PRECISION`
     (or BITS == PRECISION); the quantizer asserts the bound before searching                   (R8/R6)
  3. documented errors only, as far as structure shows: the front-end error values constructed by the
     decode_symbol impls are {InvalidData} (range), {OutOfCompressedData} (chain), none (ANS)    (R2)
Not decided: absence of arithmetic panics, termination of the quantizer search, symbol in support.
"""
from vlib import sym, rules, effects, anchors, pow2

DEC = 'stream::Decode'
POW_P = lambda t: t[0] == 'bin' and t[1] == 'Shl' and ((t[2][0] == 'k' and t[2][1] == 'one') or t[2] == sym.mk_int(1)) and t[3] == ('c', 'PRECISION')


def peel_casts(t):
    n = 0
    while t[0] == 'cast' and n < 6:
        t = t[2]
        n += 1
    return t


def bounded(q, preds):
    """Why is q < 2^PRECISION on this path? returns reason or None."""
    core = peel_casts(q)
    if core[0] == 'bin' and core[1] == 'Rem' and POW_P(core[3]):
        return 'reduced modulo 1 << PRECISION'
    if core[0] == 'bin' and core[1] == 'BitAnd':
        # x & ((1 << PRECISION) - 1): the same reduction written as a mask
        for m in (core[2], core[3]):
            pm = pow2.p2(m)
            e = pow2.all_ones(pm) if pm is not None else None
            if e is not None and pow2.exp_cmp(e, pow2.width_exp(('c', 'PRECISION'))) == 0:
                return 'masked with (1 << PRECISION) - 1'
    for t, v, _ in preds:
        if isinstance(v, tuple):
            continue
        if t[0] == 'bin' and t[1] == 'Lt' and peel_casts(t[2]) == core and POW_P(t[3]) and v == 1:
            return 'dominating guard quantile < 1 << PRECISION'
        if t[0] == 'bin' and t[1] == 'Le' and POW_P(t[2]) and peel_casts(t[3]) == core and v == 0:
            return 'dominating guard !(quantile >= 1 << PRECISION)'
        # any other spelling of the same threshold (`q >> PRECISION == 0`, `1 << PRECISION > q`, ...)
        c = pow2.below_pow2(t, v)
        if c is not None and peel_casts(c[0]) == core and c[2] and pow2.exp_cmp(c[1], pow2.width_exp(('c', 'PRECISION'))) == 0:
            return 'dominating guard equivalent to quantile < 1 << PRECISION'
    # type-width edge: PRECISION == BITS of the quantile's own type (no narrowing needed: every value fits)
    for t, v, _ in preds:
        if t[0] == 'bin' and t[1] == 'Eq' and v == 1 and ('c', 'PRECISION') in (t[2], t[3]):
            o = t[3] if t[2] == ('c', 'PRECISION') else t[2]
            if o[0] == 'c' and o[1].endswith('BITS'):
                return 'PRECISION == %s: every value of that width is a legal quantile' % o[1]
        if t[0] == 'bin' and t[1] == 'Ne' and v == 0 and ('c', 'PRECISION') in (t[2], t[3]):
            o = t[3] if t[2] == ('c', 'PRECISION') else t[2]
            if o[0] == 'c' and o[1].endswith('BITS'):
                return 'PRECISION == %s: every value of that width is a legal quantile' % o[1]
        # PRECISION >= BITS in any spelling: 2^BITS <= 2^PRECISION, so again every value of that width is below the bound
        if not isinstance(v, tuple) and t[0] == 'bin' and t[1] in ('Lt', 'Le', 'Gt', 'Ge') and ('c', 'PRECISION') in (t[2], t[3]):
            op = t[1] if v else {'Lt': 'Ge', 'Le': 'Gt', 'Gt': 'Le', 'Ge': 'Lt'}[t[1]]
            P_left = t[2] == ('c', 'PRECISION')
            o = t[3] if P_left else t[2]
            if o[0] == 'c' and o[1].endswith('BITS') and ((P_left and op == 'Ge') or (not P_left and op == 'Le')):
                return 'PRECISION >= %s: every value of that width is a legal quantile' % o[1]
    return None


def check_coders(ctx, F):
    impls = [b for b in F.bodies if b.promoted is None and b.name == 'decode_symbol' and b.impl_trait == DEC and not b.defpath.startswith('<pybindings')]
    if len(impls) < 3:
        ctx.bad('R2', 'floor: Decode impls', DEC, 'only %d decode_symbol impls found (AnsCoder, RangeDecoder, ChainCoder expected)' % len(impls), key='R2/floor/decode-impls')
    for b in impls:
        ev, paths = rules.evaluate(b)
        ctx.touch(b, calls=sum(1 for _ in b.calls()))
        key = 'R2/bounded-quantile/' + b.defpath
        role = 'the quantile handed to the model is < 2^PRECISION on every path'
        if paths is None:
            ctx.unresolved('R2', role, b.defpath, 'too many paths', key=key)
            continue
        n = 0
        bad = None
        reasons = set()
        for r in paths:
            for i, e in enumerate(r.events):
                if e['kind'] == 'call' and e['callee'].endswith('DecoderModel::quantile_function'):
                    n += 1
                    q = e['args'][1]
                    why = bounded(q, r.preds[:rules.preds_before(r, i)])
                    if why:
                        reasons.add(why)
                    else:
                        bad = 'quantile `%s` reaches the model without a proof that it is below 1 << PRECISION (no modulo, no dominating strict guard, not on the full-width edge)' % sym.show(q)[:140]
        if bad:
            ctx.bad('R2', role, b.defpath, bad, key=key, loc=rules.loc(b))
        elif n == 0:
            ctx.bad('R2', role, b.defpath, 'decode_symbol never consults the model', key=key, loc=rules.loc(b))
        else:
            ctx.ok('R2', role, b.defpath, '%d (path, call) pairs: %s' % (n, '; '.join(sorted(reasons))), key=key)
        # documented errors only
        k3 = 'R2/documented-errors/' + b.defpath
        allowed = {'stream::stack::AnsCoder': set(), 'stream::queue::RangeDecoder': {'InvalidData'}, 'stream::chain::ChainCoder': {'OutOfCompressedData'}}.get(b.self_adt)
        made = set()
        for r in paths:
            terms = [r.ret] if r.ret is not None else []
            for t in terms:
                for x in sym.subterms(t):
                    if isinstance(x, tuple) and x and x[0] == 'agg' and isinstance(x[1], tuple) and x[1][0] == 'adt' and x[1][1].endswith('FrontendError'):
                        made.add(x[1][2])
        if allowed is None:
            ctx.unresolved('R2', 'front-end errors are the documented ones', b.defpath, 'unknown coder type', key=k3)
        elif made <= allowed:
            ctx.ok('R2', 'front-end errors are the documented ones', b.defpath, 'constructs %s' % (sorted(made) or 'no front-end error (Infallible)'), key=k3)
        else:
            ctx.bad('R2', 'front-end errors are the documented ones', b.defpath, 'constructs %s; documented: %s' % (sorted(made), sorted(allowed)), key=k3, loc=rules.loc(b))


def check_models(ctx, F):
    targets = [b for b in F.bodies if b.promoted is None and b.name == 'quantile_function' and b.impl_trait == 'stream::model::DecoderModel'
               and b.self_adt in ('stream::model::categorical::lookup_contiguous::ContiguousLookupDecoderModel',
                                  'stream::model::categorical::lookup_noncontiguous::NonContiguousLookupDecoderModel',
                                  'stream::model::quantize::LeakilyQuantizedDistribution')]
    if len(targets) < 3:
        ctx.bad('R8', 'floor: guarded decoder models', 'stream::model', 'only %d of 3 quantile_function impls with an entry guard found' % len(targets), key='R8/floor/guarded-models')
    for b in targets:
        ev, paths = rules.evaluate(b, max_paths=20000)
        ctx.touch(b, calls=sum(1 for _ in b.calls()))
        key = 'R8/model-entry-guard/' + b.defpath
        role = 'the model rejects (panics on) a quantile >= 2^PRECISION before using it'
        if paths is None:
            # the quantizer's search has many paths: fall back to the CFG: the first branch must be the guard
            ok = _first_decision_is_bound_guard(b)
            (ctx.ok if ok else ctx.unresolved)('R8', role, b.defpath, 'entry block decides `quantile <= max_probability` before anything else (CFG check; body has too many paths to enumerate)' if ok else 'too many paths and entry guard not recognised', key=key)
            continue
        bad = None
        n = 0
        for r in paths:
            uses = [i for i, e in enumerate(r.events) if e['kind'] == 'call' and (e['name'] in ('get_unchecked', 'inverse', 'distribution') or e['kind'] == 'index')]
            if not uses:
                continue
            n += 1
            preds = r.preds[:rules.preds_before(r, uses[0])]
            why = bounded(('arg', 2), preds) or _le_max_probability(preds)
            if not why:
                bad = 'a path uses the quantile (%s) without a preceding bound check' % r.events[uses[0]].get('callee', 'index')
        if bad:
            ctx.bad('R8', role, b.defpath, bad, key=key, loc=rules.loc(b))
        elif n == 0:
            ctx.unresolved('R8', role, b.defpath, 'no use of the quantile found', key=key)
        else:
            ctx.ok('R8', role, b.defpath, '%d paths, each with the bound (or the PRECISION == BITS edge) before the first use' % n, key=key)


def _le_max_probability(preds):
    for t, v, _ in preds:
        if t[0] == 'bin' and t[1] == 'Le' and t[2] == ('arg', 2) and v == 1:
            rhs = t[3]
            if rhs[0] == 'bin' and rhs[1] == 'Shr' and rhs[2][0] == 'k' and rhs[2][1] == 'max_value':
                return 'asserted quantile <= max_value >> (BITS - PRECISION)'
    return None


def _first_decision_is_bound_guard(b):
    from vlib import sym as S
    ev = S.Evaluator(b, max_paths=10)
    # walk from the entry until the first switch; evaluate the straight-line prefix only
    st = S.State()
    blk = 0
    seen = set()
    while blk not in seen:
        seen.add(blk)
        bl = b.blocks[blk]
        for s in bl['stmts']:
            if s['k'] == 'assign':
                p = s['place']
                ev.write(st, ev.canon(st, p['l'], p['p']), ev.rvalue(st, s['rv']))
        t = bl['term']
        if t['k'] == 'goto':
            blk = t['t']
        elif t['k'] == 'call' and t.get('t') is not None:
            res = ev.model_call(st, t, blk)
            d = t['dest']
            ev.write(st, ev.canon(st, d['l'], d['p']), res)
            blk = t['t']
        elif t['k'] == 'switch':
            term = ev.operand(st, t['op'])
            return bool(_le_max_probability([(term, 1, blk)]))
        else:
            return False
    return False


def _mentions_field(t, name):
    for x in sym.subterms(t):
        if isinstance(x, tuple) and x and x[0] == 'in' and any(isinstance(e, tuple) and e[0] == 'f' and e[1] == name for e in x[1]):
            return True
    return False


def check_state_ctor_threshold(ctx, F):
    """The public constructor of the range coder state (reached from from_raw_parts with untrusted parts) must reject every
    range below the threshold the coding steps maintain; otherwise `scale = range >> PRECISION` can be zero and decoding
    divides by it.  Both thresholds are canonicalised to `x < 2^E` (vlib/pow2.py) and the exponents compared."""
    RCS = 'stream::queue::RangeCoderState'
    key = 'R10/ctor-threshold/' + RCS
    role = 'state constructor rejects every range below the renormalisation threshold'
    ctor = anchors.method(F, RCS, 'new')
    if ctor is None:
        ctx.unresolved('R10', role, RCS, 'constructor not found', key=key)
        return
    # reference: "range < 2^E  => renormalise" in the coding steps
    ref = []
    for adt, trait, name in ((anchors.RDEC, 'stream::Decode', 'decode_symbol'), (anchors.RENC, 'stream::Encode', 'encode_symbol')):
        m = anchors.method(F, adt, name, trait)
        if m is None:
            continue
        ctx.touch(m)
        ev, paths = rules.evaluate(m)
        for r in paths or []:
            for t, v, _ in r.preds:
                c = pow2.below_pow2(t, v)
                if c is not None and _mentions_field(c[0], 'range') and not _mentions_field(c[0], 'point'):
                    ref.append((pow2._exp_key(c[1]), c[1], m.defpath))
    exps = {k: e for k, e, _ in ref}
    if len(exps) != 1:
        ctx.unresolved('R10', role, RCS, '%d distinct renormalisation thresholds found in the coding steps' % len(exps), key=key)
        return
    E_ref = list(exps.values())[0]
    ctx.touch(ctor)
    ev, paths = rules.evaluate(ctor)
    fidx = [i for i, f in enumerate(F.adts[RCS]['variants'][0]['fields']) if f['name'] == 'range']
    verdicts = []
    for r in paths or []:
        if r.end != 'return' or r.ret is None:
            continue
        ok = r.ret[0] == 'agg' and r.ret[1][-1] == 'Ok'
        if not ok:
            continue
        inner = r.ret[2][0]
        if not (inner[0] == 'agg' and fidx):
            verdicts.append(('unres', 'returned value is not a literal struct'))
            continue
        rng = inner[2][fidx[0]]
        args = {x for x in sym.subterms(rng) if isinstance(x, tuple) and x and x[0] == 'arg'}
        if len(args) != 1:
            verdicts.append(('unres', 'range field does not come from one argument'))
            continue
        arg = list(args)[0]
        bits = lambda x: pow2.bits_of(F.ty_s(ctor.local_ty(x[1]))) if (isinstance(x, tuple) and x[0] == 'arg') else None
        best = None
        seen_other = False
        for t, v, _ in r.preds:
            c = pow2.below_pow2(t, v, bits)
            if c is None:
                if any(x == arg for x in sym.subterms(t)):
                    seen_other = True
                continue
            if c[0] != arg or c[2]:
                continue
            # on this path: not (arg < 2^E)
            d = pow2.exp_cmp(c[1], E_ref)
            if d is None:
                seen_other = True
            elif best is None or d > best:
                best = d
        if best is not None and best >= 0:
            verdicts.append(('ok', 'accepts only range >= 2^(%s)' % sym.affine_str(E_ref)))
        elif seen_other:
            verdicts.append(('unres', 'a test of the range argument has an unrecognised shape'))
        elif best is not None:
            verdicts.append(('bad', 'accepts every range >= 2^(%s %+d), i.e. also ranges below the threshold 2^(%s) that encode_symbol/decode_symbol maintain; with PRECISION == Word::BITS and State::BITS == 2*Word::BITS decoding with such a state computes scale = range >> PRECISION = 0 and divides by it' % (
                sym.affine_str(E_ref), best, sym.affine_str(E_ref))))
        else:
            verdicts.append(('bad', 'accepts a range without comparing it with the threshold 2^(%s) that encode_symbol/decode_symbol maintain' % sym.affine_str(E_ref)))
    if not verdicts:
        ctx.unresolved('R10', role, RCS, 'no accepting path found', key=key)
    elif any(v[0] == 'bad' for v in verdicts):
        ctx.bad('R10', role, RCS, [v[1] for v in verdicts if v[0] == 'bad'][0], key=key, loc=rules.loc(ctor))
    elif any(v[0] == 'unres' for v in verdicts):
        ctx.unresolved('R10', role, RCS, [v[1] for v in verdicts if v[0] == 'unres'][0], key=key)
    else:
        ctx.ok('R10', role, RCS, '%d accepting path(s): %s; reference threshold from %d renormalisation tests' % (len(verdicts), verdicts[0][1], len(ref)), key=key)


ORD = ('Lt', 'Le', 'Gt', 'Ge')
UNSIGNED = ('u8', 'u16', 'u32', 'u64', 'u128', 'usize')


def _impl_preds(F, b):
    for imp in F.impls:
        if imp.get('path') == b.impl:
            return imp.get('preds') or []
    return []


def check_cdf_differences_wrap(ctx, F):
    """The last entry of every categorical cdf is the total mass 1 << PRECISION, stored as 0 when PRECISION equals the
    width of Probability.  A probability is a difference of two cdf entries, so it must be a *wrapping* difference: a
    plain `-` overflows for the last symbol at full precision (a panic in checked builds, reachable by decoding)."""
    is_cdf = lambda y: sym.contains(y, lambda z: isinstance(z, tuple) and z and z[0] == 'in' and any(isinstance(q, tuple) and q[0] == 'f' and q[1] == 'cdf' for q in z[1]))
    n = 0
    for b in F.bodies:
        if b.promoted is not None or '::tests::' in b.defpath or 'model::categorical' not in b.defpath or b.dk not in ('Fn', 'AssocFn', 'Closure'):
            continue
        try:
            ev, paths = rules.evaluate(b)
        except sym.TooManyPaths:
            continue
        ops = set()
        for r in paths or []:
            terms = [t for t, v, _ in r.preds] + ([r.ret] if r.ret is not None else []) + [e['result'] for e in r.events if e['kind'] == 'call']
            for t in terms:
                for x in sym.subterms(t):
                    if isinstance(x, tuple) and x and x[0] == 'bin' and x[1].split('.')[0] == 'Sub' and is_cdf(x[2]) and is_cdf(x[3]):
                        ops.add(x[1])
        if not ops:
            continue
        n += 1
        ctx.touch(b)
        key = 'R2/cdf-difference-wraps/' + b.defpath
        role = 'a probability computed as the difference of two cdf entries uses wrapping subtraction'
        if ops <= {'Sub.w'}:
            ctx.ok('R2', role, b.defpath, 'wrapping_sub', key=key)
        else:
            ctx.bad('R2', role, b.defpath, 'two cdf entries are subtracted with a plain `-`: with PRECISION == Probability::BITS the final entry 1 << PRECISION is stored as 0, so the last symbol\'s probability is `0 - left`, '
                    'which overflows (a panic when decoding a quantile in the last bin)', key=key, loc=rules.loc(b))
    # the same in constructors: a function that appends the closing entry `wrapping_pow2(PRECISION)` to a stream of cumulatives
    # (iter::once / chain) and lets a closure subtract consecutive items
    for b in F.bodies:
        if b.promoted is not None or '::tests::' in b.defpath or 'model::categorical' not in b.defpath or b.dk not in ('Fn', 'AssocFn'):
            continue
        try:
            ev, paths = rules.evaluate(b)
        except sym.TooManyPaths:
            continue
        closing = False
        for r in paths or []:
            for e in r.events:
                if e['kind'] == 'call' and str(e['callee']).endswith(('iter::once', 'sources::once::once', 'Iterator::chain')) and any(
                        sym.contains(a, lambda z: isinstance(z, tuple) and z and z[0] == 'call' and str(z[1]).endswith('wrapping_pow2')) for a in e.get('args_val') or [] if isinstance(a, tuple)):
                    closing = True
        if not closing:
            continue
        plain = []
        for cb in F.closures_of(b):
            for _, t in cb.calls():
                c = rules.callee(t)
                if c and c.get('def') == 'core::ops::Sub::sub' and c.get('args'):
                    ty = F.types[c['args'][0]['ty']] if isinstance(c['args'][0], dict) and 'ty' in c['args'][0] else {}
                    if ty.get('k') == 'param':
                        plain.append(cb)
        n += 1
        ctx.touch(b)
        key = 'R2/cdf-difference-wraps/' + b.defpath
        role = 'a probability computed as the difference of two cdf entries uses wrapping subtraction'
        if plain:
            ctx.bad('R2', role, b.defpath, 'the stream of cumulatives is closed with wrapping_pow2(PRECISION) (0 at PRECISION == Probability::BITS) and a closure subtracts consecutive entries with a plain `-`: the last symbol\'s probability is `0 - left`, which overflows, so the constructor panics at full precision although its siblings build the same model', key=key, loc=rules.loc(plain[0]))
        else:
            ctx.ok('R2', role, b.defpath, 'closing entry appended; no plain subtraction of probabilities in the closures', key=key)
    if n < 4:
        ctx.unresolved('R2', 'a probability computed as the difference of two cdf entries uses wrapping subtraction', 'stream::model::categorical', 'only %d functions with a cdf difference found (5 confirmed by reading)' % n, key='R2/cdf-difference-wraps/floor')


def check_ctor_panic_free(ctx, F):
    """Constructing a decoder over arbitrary words never panics: the public constructors of the three decoders that take a
    data source have no panicking path whose condition depends on the data, and do not unwrap / expect / mark unreachable a
    value computed from it (errors about the data are returned).  Compile-time assertions (conditions over constants only)
    do not count."""
    ADTS = ('stream::stack::AnsCoder', 'stream::queue::RangeDecoder', 'stream::chain::ChainCoder')
    n = 0
    for b in F.bodies:
        if b.promoted is not None or b.dk != 'AssocFn' or b.self_adt not in ADTS or b.vis != 'pub' or b.impl_trait is not None or '::tests::' in b.defpath:
            continue
        if not (b.name.startswith(('from_', 'with_backend', 'for_compressed')) and b.arg_count >= 1):
            continue
        if b.name.startswith('from_raw_parts'):
            continue          # raw parts are validated and rejected with Err (checked by the threshold / distance rules)
        try:
            ev, paths = rules.evaluate(b)
        except sym.TooManyPaths:
            continue
        if not paths:
            continue
        n += 1
        ctx.touch(b)
        key = 'R2/ctor-panic-free/' + b.defpath
        role = 'constructing a decoder over arbitrary words cannot panic'
        data_dep = lambda t: sym.contains(t, lambda x: isinstance(x, tuple) and x and (x[0] == 'arg' or (x[0] == 'call' and str(x[1]).endswith(('ReadWords::read', 'FnMut::call_mut'))) or x[0] in ('post', 'loop')))
        bad = None
        for r in paths:
            if r.end == 'diverge':
                dd = [t for t, v, _ in r.preds if data_dep(t)]
                if dd:
                    bad = 'a panicking path is taken depending on the data (%s)' % sym.show(dd[-1])[:100]
            for e in r.events:
                if e['kind'] == 'call' and e['callee'].endswith(('::unwrap', '::expect', 'unreachable_unchecked')) and e['args'] and data_dep(e['args'][0]) \
                        and not e['callee'].endswith('unwrap_infallible'):
                    # unwrapping the Ok of a call that cannot fail for type reasons is fine; anything computed from the data is not
                    bad = '%s is applied to a value computed from the data (%s)' % (e['callee'].rsplit('::', 1)[-1], sym.show(e['args'][0])[:90])
        if bad:
            ctx.bad('R2', role, b.defpath, bad + ': some word sequences make the constructor panic instead of returning a decoder (whose first decode would report invalid data) or an error', key=key, loc=rules.loc(b))
        else:
            ctx.ok('R2', role, b.defpath, '%d paths: no data-dependent panic, unwrap or expect' % len(paths), key=key)
    ctx.extra['decoder_constructors'] = n
    if n < 8:
        ctx.unresolved('R2', 'constructing a decoder over arbitrary words cannot panic', 'stream', 'only %d public constructors found' % n, key='R2/ctor-panic-free/floor')


def check_sign_safe_doubling(ctx, F):
    """A search step that is doubled under the overflow guard `step << 1 != 0` stays positive only for unsigned types: for
    a signed type 2^(N-2) << 1 is -2^(N-1), non-zero and negative, and a negative step defeats the wrap check of the search
    (`new_symbol >= symbol`), which then halves the step forever (arithmetic shift of a negative number never reaches 0) or
    overflows.  Rule: where a loop-carried integer of a type that may be signed (a type parameter without an `Unsigned`
    bound) is replaced by its double, the dominating guard orders the doubled value against zero; `!= 0` alone is refuted."""
    n = 0
    for b in F.bodies:
        if b.promoted is not None or b.name != 'quantile_function' or b.dk != 'AssocFn' or '::tests::' in b.defpath or not b.defpath.startswith('<'):
            continue
        try:
            ev, paths = rules.evaluate(b)
        except sym.TooManyPaths:
            paths = None
        if not paths:
            continue
        preds_txt = _impl_preds(F, b)
        sites = {}
        unguarded = set()
        for r in paths:
            # values a local takes: at the end of the path, or when an inner loop is entered (the doubling is followed by one)
            cands = list(r.store.items())
            for e in r.events:
                if e['kind'] == 'loop_enter':
                    cands += list(e['pre'].items())
            for k, v in cands:
                if not (len(k) == 1 and isinstance(v, tuple) and v and v[0] == 'bin' and v[1] == 'Shl' and v[3] == ('int', 1)):
                    continue
                x = v[2]
                if not (isinstance(x, tuple) and x and x[0] == 'loop' and x[-1] == k):
                    continue
                ty = F.ty_s(ev.body.local_ty(k[0]))
                if ty in UNSIGNED or any(p.startswith(ty + ': ') and p.endswith('Unsigned') for p in preds_txt):
                    continue
                ordered = ne_only = False
                mentioned = any(sym.contains(t, lambda z: z == v) for t, val, _ in r.preds)
                for t, val, _ in r.preds:
                    if not (t[0] == 'bin' and v in (t[2], t[3])):
                        continue
                    other = t[3] if t[2] == v else t[2]
                    if not pow2._is_zero(other):
                        continue
                    op = t[1].split('.')[0]
                    if op in ('Ne', 'Eq'):
                        ne_only = True
                    if op in ORD:
                        # zero < doubled (true)  /  doubled <= zero (false) ...
                        lo, hi = (t[2], t[3]) if op in ('Lt', 'Le') else (t[3], t[2])
                        if (lo == other and hi == v and val) or (lo == v and hi == other and not val):
                            ordered = True
                key = (k, ty)
                cur = sites.get(key, (True, False))
                sites[key] = (cur[0] and ordered, cur[1] or (ne_only and not ordered))
                if not mentioned:
                    unguarded.add(key)
        for (k, ty), (ok, ne_only) in sorted(sites.items()):
            n += 1
            ctx.touch(b)
            okey = 'R2/sign-safe-doubling/%s/_%d' % (b.defpath, k[0])
            role = 'a doubled search step of a possibly signed type is kept positive'
            if ok:
                ctx.ok('R2', role, b.defpath, 'every doubling of the %s-typed step is guarded by `0 < step << 1`' % ty, key=okey)
            elif ne_only:
                ctx.bad('R2', role, b.defpath, 'the step (type parameter `%s`, no `Unsigned` bound) is doubled under the guard `step << 1 != 0` only: for a signed symbol type such as i8 or i16 the doubled value can be negative (64i8 << 1 == -128), '
                        'after which the search never terminates or overflows' % ty, key=okey, loc=rules.loc(b))
            elif (k, ty) in unguarded:
                ctx.bad('R2', role, b.defpath, 'the step (type parameter `%s`) is doubled on a path that never looks at the doubled value: once it reaches the top bit of the type it becomes 0 (unsigned) or negative (signed), and the search that follows never terminates - reachable by decoding a quantile in the far tail of a narrow symbol type' % ty, key=okey, loc=rules.loc(b))
            else:
                ctx.unresolved('R2', role, b.defpath, 'doubling of a %s-typed loop variable without a recognised guard' % ty, key=okey)
    ctx.extra['doubling_sites'] = n


def check_wrapping_search_steps(ctx, F):
    """A search position that is advanced by a wrapping step and then range-checked must also be wrap-checked.

    Instance: a path on which a loop-carried local L ends as W = L (+/-).w s, and W is order-compared with a bound that is
    not one of its own operands (so W is used as an ordered quantity).  Obligation: the same path orders W against L with
    the no-wrap outcome (L <= W for +, W <= L for -).  Without it a wrapped candidate that happens to lie inside the bound
    is accepted and the search of the decoder model jumps to the other end of the symbol type (wrong symbol or no
    termination).  Instances are found over all DecoderModel::quantile_function bodies; floor = the two quantizer searches."""
    n_inst = 0
    plain_seen = set()
    for b in F.bodies:
        if b.promoted is not None or b.name != 'quantile_function' or b.dk != 'AssocFn' or '::tests::' in b.defpath:
            continue
        if not b.defpath.startswith('<'):
            continue
        try:
            ev, paths = rules.evaluate(b)
        except sym.TooManyPaths:
            paths = None
        if not paths:
            continue
        ctx.touch(b)
        inst = {}
        for r in paths:
            for k, W in r.store.items():
                # the same search step in *plain* arithmetic: position (+/-) step with both operands loop-carried.  The wrap comparison
                # that follows shows that wrapping is expected; plain `+` panics there in builds with overflow checks.
                if len(k) == 1 and isinstance(W, tuple) and W and W[0] == 'bin' and W[1] in ('Add', 'Sub') and all(isinstance(o, tuple) and o and o[0] == 'loop' for o in W[2:4]) \
                        and any(o[-1] == k for o in W[2:4]) and any(isinstance(t, tuple) and t and t[0] == 'bin' and t[1].split('.')[0] in ORD and W in (t[2], t[3]) for t, v, _ in r.preds):
                    plain_key = 'R2/wrap-checked-step/%s/plain-%s' % (b.defpath, 'upward' if W[1] == 'Add' else 'downward')
                    if plain_key not in plain_seen:
                        plain_seen.add(plain_key)
                        ctx.bad('R2', 'the search step tolerates the edge of the symbol type', b.defpath, 'the candidate `position %s step` is computed with the plain operator: when the step carries it past the largest (smallest) value of the symbol type - narrow symbol types, supports that end at the type\'s edge - builds with overflow checks panic inside quantile_function instead of rejecting the candidate through the wrap comparison that follows' % ('+' if W[1] == 'Add' else '-'), key=plain_key, loc=rules.loc(b))
                if not (len(k) == 1 and isinstance(W, tuple) and W and W[0] == 'bin' and W[1] in ('Add.w', 'Sub.w')):
                    continue
                own = [o for o in W[2:4] if isinstance(o, tuple) and o[0] == 'loop' and o[-1] == k]
                if len(own) != 1:
                    continue
                L = own[0]
                if W[1] == 'Sub.w' and W[2] != L:
                    continue
                bound_cmp = wrap_ok = False
                for t, v, _ in r.preds:
                    if not (isinstance(t, tuple) and t and t[0] == 'bin' and t[1].split('.')[0] in ORD):
                        continue
                    a, c = t[2], t[3]
                    if W not in (a, c):
                        continue
                    other = c if a == W else a
                    op = t[1].split('.')[0]
                    if other == L:
                        # normalise to  lo <= hi  /  lo < hi  being `v`
                        lo, hi = (a, c) if op in ('Lt', 'Le') else (c, a)
                        want = (lo == L and hi == W) if W[1] == 'Add.w' else (lo == W and hi == L)
                        if want and v:
                            wrap_ok = True
                        if (not want) and (not v) and op in ('Lt', 'Gt'):
                            wrap_ok = True      # not (W < L)  ==  L <= W
                    elif other not in W[2:4]:
                        bound_cmp = True
                if not bound_cmp:
                    continue
                key = (b.defpath, W[1], k)
                cur = inst.get(key, True)
                inst[key] = cur and wrap_ok
        for (dp, op, k), ok in sorted(inst.items()):
            n_inst += 1
            direction = 'upward' if op == 'Add.w' else 'downward'
            okey = 'R2/wrap-checked-step/%s/%s' % (dp, direction)
            role = 'range-checked wrapping search step is also wrap-checked'
            if ok:
                ctx.ok('R2', role, dp, '%s search: every path that adopts the wrapped candidate compares it with the previous position' % direction, key=okey)
            else:
                ctx.bad('R2', role, dp, '%s search adopts `position %s step` after comparing it only with the support bound: a candidate that wrapped around the symbol type and landed inside the support is accepted, '
                        'so the search moves the wrong way (wrong symbol, or it never terminates)' % (direction, '+' if op == 'Add.w' else '-'), key=okey, loc=rules.loc(b))
    if n_inst < 2:
        ctx.unresolved('R2', 'range-checked wrapping search step is also wrap-checked', 'stream::model::quantize', 'only %d instances found (2 confirmed by reading: upward and downward search of the leaky quantizer)' % n_inst,
                       key='R2/wrap-checked-step/floor')


def run(ctx):
    F = ctx.F
    check_coders(ctx, F)
    check_wrapping_search_steps(ctx, F)
    check_sign_safe_doubling(ctx, F)
    check_cdf_differences_wrap(ctx, F)
    check_ctor_panic_free(ctx, F)
    check_models(ctx, F)
    check_state_ctor_threshold(ctx, F)
    import props.C05 as c05
    c05.check_conservative_preskip(ctx, F)      # the lazily quantised model returns the symbol whose bin contains the quantile
    ctx.assume('models honour DecoderModel: quantile_function is total for quantile < 2^PRECISION')
    return {
        'level': 'other',
        'explanation': 'Bounded-value domain {< 2^PRECISION, unknown} over the value graph: every quantile_function call in the three decoders receives a value that is reduced modulo 2^PRECISION, guarded by a '
                       'dominating strict comparison whose failing arm returns InvalidData, or lives on the PRECISION == BITS edge; lookup models and the quantizer check the bound before their first use of '
                       'the quantile; only the documented front-end errors are constructed. Not decided: absence of overflow panics, termination of the quantizer search, membership of the returned symbol in '
                       'the support (value-level).',
        'trusted_base': ['rustc type checker + MIR construction', 'cfacts extractor'],
    }
