"""C16 — bit-level stack and queue coders (claimed: position / direction / marker agreement; bit contents not decided).

The coders keep a one-hot mask next to the current word.  Writing `mask = 2^p` turns every update of the mask into
arithmetic on the bit position p, which vlib/pow2.py can normalise (`mask << 1` is p+1, `Word::one()` is position 0,
`Word::one() << (BITS-1)` is position BITS-1, `leading_zeros` gives the top set bit).  Over that *position domain* the
rules below are sibling agreements between the step functions; each is a necessary condition of the LIFO / FIFO /
length / re-import clauses and holds for every word type and history (induction over calls):

  P1  write_bit stores the new bit at the position the mask points to afterwards, and that position is pre+1; a fresh
      word starts at position 0 holding the bit at position 0; the word is flushed exactly when position BITS would be next.
  P2  StackCoder::read_bit tests the bit at the position the mask points to, clears it and leaves the mask at pre-1: it undoes P1;
      after fetching a word it starts at position BITS-1, the last position P1 fills before it flushes.
  P3  QueueDecoder::read_bit tests the bit at the mask and moves to pre+1; after fetching a word it tests position 0 and
      leaves the mask at 1: it replays P1 in the same order.
  P4  the two write_bit bodies (queue, stack) are structurally identical.
  P5  len() counts remaining * BITS + (position + 1) with the position taken from trailing_zeros(mask).
  P6  into_compressed seals with write_bit(true) (the marker lands above all data bits, by P1); from_compressed takes the
      marker at the top set bit of the last word, removes it from the word and leaves the mask one position below it.
  P7  emptiness sentinel (shared with C18) and guard pairing (shared with C08).

Not decided: the contents of the word (that bits other than the addressed one are preserved, that bits above the mask
are zero), Exp-Golomb and Huffman round trips, exactness of len() across refills.
"""
from vlib import sym, rules, effects, dageq, anchors, pow2
import props.C18 as c18
import props.C08 as c08

SC = 'symbol::SymbolCoder'
QD = 'symbol::QueueDecoder'
P = ('c', 'p')                      # symbolic position of the mask's set bit


def body_of(F, adt, name, trait=None, sem=None):
    for b in F.bodies:
        if b.promoted is not None or b.name != name or b.self_adt != adt or b.dk != 'AssocFn' or '::tests::' in b.defpath:
            continue
        if trait is not None and (b.impl_trait or '') .split('<')[0] != trait:
            continue
        if sem is not None and (', %s,' % sem) not in b.defpath and ('<%s>' % sem) not in b.defpath:
            continue
        return b
    return None


def position(t, mask_field):
    """affine exponent E with t == 2^E when `in:self.<mask_field>` == 2^p; 'none' for the zero mask; None if not one-hot."""
    if (isinstance(t, tuple) and t and t[0] == 'k' and t[1] == 'zero') or t == ('int', 0):
        return 'none'

    def f(n):
        if n and n[0] == 'in' and isinstance(n[1][-1], tuple) and n[1][-1] == ('f', mask_field):
            return ('bin', 'Shl', ('k', 'one', 'Word'), P)
        return None
    q = pow2.p2(effects.rebuild(t, f))
    if q is None:
        return None
    m = q.monomial()
    if m is None or m[0] != 1:
        return None
    return m[1]


def exp_is(e, pcoef, const, bits=0):
    """e == pcoef*p + bits*BITS + const ?"""
    if e in (None, 'none'):
        return False
    d = {k: v[0] for k, v in e[0].items()}
    want = {}
    if pcoef:
        want[sym.tkey(P)] = pcoef
    if bits:
        want[sym.tkey(('c', '<Word as BitArray>::BITS'))] = bits
    return d == want and e[1] == const


def exp_str(e):
    if e is None:
        return '?'
    if e == 'none':
        return 'none'
    return sym.affine_str(e).replace("c('p')", 'p') or '0'


def _field(ev, r, name):
    return ev.final_read(r, (1, 'deref', ('f', name)))


def _mask_in(name):
    return ('in', (1, 'deref', ('f', name)))


def _tested_positions(t, mask_field):
    """positions of one-hot masks that are BitAnd-ed with a word inside t."""
    out = []
    for x in sym.subterms(t):
        if isinstance(x, tuple) and x and x[0] == 'bin' and x[1] == 'BitAnd':
            for a in (x[2], x[3]):
                e = position(a, mask_field)
                if e not in (None, 'none'):
                    out.append(e)
    return out


def check_write(ctx, F, b, who):
    """P1 on one write_bit body."""
    key = 'R4/position/write/' + who
    role = 'write_bit stores the bit where the mask then points, one position above the previous bit; fresh words start at position 0'
    ev, paths = rules.evaluate(b)
    ctx.touch(b)
    seen = {'step': 0, 'fresh': 0}
    for r in paths or []:
        if r.end != 'return' or not (r.ret[0] == 'agg' and r.ret[1][-1] == 'Ok'):
            continue
        m = _field(ev, r, 'mask_last_written')
        w = _field(ev, r, 'current_word')
        e = position(m, 'mask_last_written')
        bit_true = any(t == ('arg', 2) and v for t, v, _ in r.preds)
        flushed = any(e2['kind'] == 'call' and e2['callee'].endswith('WriteWords::write') for e2 in r.events)
        full = [v for t, v, _ in r.preds if t[0] == 'bin' and t[1] == 'Ne' and position(t[2], 'mask_last_written') is not None and exp_is(position(t[2], 'mask_last_written'), 1, 1)]
        had_bits = [v for t, v, _ in r.preds if t[0] == 'bin' and t[1] == 'Ne' and t[2] == _mask_in('mask_last_written') and pow2._is_zero(t[3])]
        if exp_is(e, 1, 1):
            seen['step'] += 1
            if bit_true:
                stored = [position(x, 'mask_last_written') for x in (w[2], w[3])] if (w[0] == 'bin' and w[1] == 'BitOr') else []
                if not any(exp_is(s, 1, 1) for s in stored):
                    return ctx.bad('R4', role, b.defpath, 'the mask moves to position p+1 but the bit is stored at %s' % [exp_str(s) for s in stored], key=key, loc=rules.loc(b))
            if flushed:
                return ctx.bad('R4', role, b.defpath, 'a word is flushed although the next position is still inside the word', key=key, loc=rules.loc(b))
            if not (full and all(full)):
                return ctx.unresolved('R4', role, b.defpath, 'step path is not guarded by `mask << 1 != 0`', key=key)
        elif exp_is(e, 0, 0):
            seen['fresh'] += 1
            want = ('k', 'one', None) if bit_true else ('k', 'zero', None)
            if not (w[0] == 'k' and w[1] == want[1]):
                return ctx.bad('R4', role, b.defpath, 'a fresh word starts with the mask at position 0 but the word is %s' % sym.show(w)[:60], key=key, loc=rules.loc(b))
            if not (full and not any(full)):
                return ctx.unresolved('R4', role, b.defpath, 'fresh-word path is not guarded by `mask << 1 == 0`', key=key)
            if had_bits and had_bits[0] and not flushed:
                return ctx.bad('R4', role, b.defpath, 'a full word is replaced by a fresh one without being written to the backend', key=key, loc=rules.loc(b))
            if had_bits and not had_bits[0] and flushed:
                return ctx.bad('R4', role, b.defpath, 'an empty word is written to the backend', key=key, loc=rules.loc(b))
        else:
            return ctx.bad('R4', role, b.defpath, 'a successful path leaves the mask at position %s (expected p+1 or 0)' % exp_str(e), key=key, loc=rules.loc(b))
    if seen['step'] < 2 or seen['fresh'] < 4:
        return ctx.unresolved('R4', role, b.defpath, 'expected 2 step paths and 4 fresh-word paths, found %s' % seen, key=key)
    return ctx.ok('R4', role, b.defpath, '%d step paths (mask p -> p+1, bit stored at p+1, no flush) and %d fresh-word paths (mask -> 0, word = bit, flush iff the old word held bits)' % (seen['step'], seen['fresh']), key=key)


def check_empty_read_untouched(ctx, F, b, who):
    """A read that finds nothing (`Ok(None)`: the coder is empty / the source has run out) leaves the coder as it was: no field
    of the bit coder is assigned on that exit.  Otherwise an empty coder turns into one that claims to hold bits (a mask that
    already points into a word that never arrived)."""
    key = 'R1/empty-read-untouched/' + who
    role = 'read_bit leaves the coder untouched when it returns no bit'
    ev, paths = rules.evaluate(b)
    n = 0
    bad = None
    for r in paths or []:
        if r.end != 'return' or r.ret is None:
            continue
        sh = rules.ret_shape(r.ret)
        none_exit = (r.ret[0] == 'agg' and r.ret[1][-1] == 'Ok' and r.ret[2] and isinstance(r.ret[2][0], tuple) and r.ret[2][0][0] == 'agg' and r.ret[2][0][1][-1] == 'None') or sh[0] == 'Err'
        if not none_exit:
            continue
        n += 1
        ws = [e for e in r.events if e['kind'] == 'write' and e['path'][:2] == (1, 'deref') and e['path'][2:3] != (('f', 'backend'),)]
        if ws:
            bad = 'on an exit that returns no bit, field %s has been assigned: an empty coder is left with a mask that points into a word it never received, so is_empty() turns false, len() reports a full word and later writes flush a spurious zero word' % sym.path_str(ws[0]['path'])
    if bad:
        return ctx.bad('R1', role, b.defpath, bad, key=key, loc=rules.loc(b))
    if n == 0:
        return ctx.unresolved('R1', role, b.defpath, 'no exit without a bit found', key=key)
    ctx.ok('R1', role, b.defpath, '%d exit(s) without a bit, none after an assignment to the coder' % n, key=key)


def check_read(ctx, F, b, who, mask_field, step, fresh_test, fresh_post):
    """P2 / P3: step = -1 (stack) or +1 (queue); fresh_* = (bits coefficient, const) of the position tested / left after a refill."""
    key = 'R4/position/read/' + who
    role = 'read_bit tests the bit the mask points to and moves the mask by %+d; after a refill it starts at %s' % (step, 'BITS-1' if fresh_test[0] else '0')
    ev, paths = rules.evaluate(b)
    ctx.touch(b)
    n_step = n_fresh = 0
    for r in paths or []:
        if r.end != 'return' or not (r.ret[0] == 'agg' and r.ret[1][-1] == 'Ok'):
            continue
        inner = r.ret[2][0]
        if not (inner[0] == 'agg' and inner[1][-1] == 'Some'):
            continue
        refilled = any(e2['kind'] == 'call' and e2['callee'].endswith('ReadWords::read') for e2 in r.events)
        tested = _tested_positions(inner, mask_field)
        m = position(_field(ev, r, mask_field), mask_field)
        if not refilled:
            n_step += 1
            if not any(exp_is(t, 1, 0) for t in tested):
                return ctx.bad('R4', role, b.defpath, 'the returned bit is taken from position %s, not from the position p of the mask' % [exp_str(t) for t in tested], key=key, loc=rules.loc(b))
            ok = exp_is(m, 1, step) or (step < 0 and m == 'none')
            if not ok:
                return ctx.bad('R4', role, b.defpath, 'the mask moves from p to %s (expected p%+d)' % (exp_str(m), step), key=key, loc=rules.loc(b))
            if step < 0:
                # a stack that is written again after a read ORs new bits in: the popped bit must be cleared
                w = _field(ev, r, 'current_word')
                W0, M0 = ('in', (1, 'deref', ('f', 'current_word'))), _mask_in(mask_field)
                tested_bit = sym.mk_bin('BitAnd', W0, M0)
                cleared = (w == sym.mk_bin('BitXor', W0, tested_bit)) or (w[0] == 'bin' and w[1] == 'BitAnd' and W0 in (w[2], w[3]) and any(
                    isinstance(o, tuple) and o and ((o[0] == 'un' and o[1] == 'Not' and o[2] in (M0, tested_bit, sym.mk_bin('BitAnd', M0, W0))) or (o[0] == 'not' and o[1] in (M0, tested_bit))) for o in (w[2], w[3])))
                if not cleared:
                    return ctx.bad('R4', role, b.defpath, 'the popped bit is not cleared from current_word (it ends as %s): write_bit ORs new bits into the word and relies on the bits above the mask being zero, so a 0 written after a popped 1 reads back as 1, and the export marker search sees stale bits' % sym.show(w)[:80],
                                   key=key, loc=rules.loc(b))
        else:
            n_fresh += 1
            if not any(exp_is(t, 0, fresh_test[1], fresh_test[0]) for t in tested):
                return ctx.bad('R4', role, b.defpath, 'after fetching a word the returned bit is taken from position %s (expected %s)' % (
                    [exp_str(t) for t in tested], 'BITS-1' if fresh_test[0] else '0'), key=key, loc=rules.loc(b))
            if not exp_is(m, 0, fresh_post[1], fresh_post[0]):
                return ctx.bad('R4', role, b.defpath, 'after fetching a word the mask is left at position %s' % exp_str(m), key=key, loc=rules.loc(b))
    if n_step != 1 or n_fresh != 1:
        return ctx.unresolved('R4', role, b.defpath, 'expected one step path and one refill path, found %d / %d' % (n_step, n_fresh), key=key)
    return ctx.ok('R4', role, b.defpath, 'step path: tests position p, mask -> p%+d; refill path: tests %s, mask -> %s' % (
        step, 'BITS-1' if fresh_test[0] else '0', ('BITS%+d' % fresh_post[1]) if fresh_post[0] else str(fresh_post[1])), key=key)


def check_len(ctx, F):
    """len(): the bits held in the current word are (position of the mask) + 1, and 0 when the mask is empty.

    The mask has three kinds of states: empty (0), 2^p with p < BITS-1, and 2^(BITS-1) (word full, not yet flushed).  Every
    return path of len() is matched with the states its predicates admit (`mask == 0`, `mask << 1 == 0`, ...), and the
    value it adds is evaluated in the position domain (trailing_zeros(2^e) = e); it must be p+1 resp. 0 in every admitted
    state."""
    key = 'R4/position/len/' + SC
    role = 'len() counts (position of the last written bit) + 1 bits for the current word'
    b = body_of(F, SC, 'len')
    if b is None:
        return ctx.unresolved('R4', role, SC, 'len not found', key=key)
    ev, paths = rules.evaluate(b)
    ctx.touch(b)
    mask = _mask_in('mask_last_written')
    BITS = pow2.bits_of('Word')
    STATES = {          # name -> (exponent of the mask or None for the empty mask, expected number of bits)
        'empty': (None, ({}, 0)),
        'partial': (({sym.tkey(P): (1, P)}, 0), ({sym.tkey(P): (1, P)}, 1)),
        'full': (pow2._exp_add(BITS, ({}, 1), -1), BITS),
    }

    def exp_of(t, state):
        """exponent of the one-hot value t in `state` ('zero' if it is 0, None if unknown)."""
        e0 = STATES[state][0]
        if t == mask:
            return 'zero' if e0 is None else e0
        if t[0] == 'bin' and t[1] == 'Shl' and sym.is_int(t[3]):
            e = exp_of(t[2], state)
            if e in (None, 'zero'):
                return e
            e2 = pow2._exp_add(e, ({}, t[3][1]))
            # shifted out of the word?
            if state == 'full' and pow2.exp_cmp(e2, BITS) is not None and pow2.exp_cmp(e2, BITS) >= 0:
                return 'zero'
            return e2
        return None

    def holds(t, v, state):
        """does predicate (t == v) hold in this mask state?  True / False / None (unknown or unrelated)."""
        if t[0] == 'bin' and t[1] in ('Eq', 'Ne'):
            for x, z in ((t[2], t[3]), (t[3], t[2])):
                if pow2._is_zero(z):
                    e = exp_of(x, state)
                    if e is None:
                        return None
                    is_zero = (e == 'zero')
                    truth = is_zero if t[1] == 'Eq' else not is_zero
                    return truth == bool(v)
        return None

    def count_of(extra, state):
        """value added for the current word, as an affine exponent-like form, or None."""
        def f(n):
            if n and n[0] == 'cast':
                return n[2]
            return None
        x = effects.rebuild(extra, f)
        a = sym.affine(x)
        if a is None:
            return None
        total = ({}, a[1])
        for k, (c, at) in a[0].items():
            if at[0] == 'call' and str(at[1]).endswith('trailing_zeros'):
                e = exp_of(at[2][0], state)
                if e in (None, 'zero'):
                    return None
                total = pow2._exp_add(total, ({kk: (vv[0] * c, vv[1]) for kk, vv in e[0].items()}, e[1] * c))
            else:
                return None
        return total
    n_checked = 0
    for r in paths or []:
        if r.end != 'return':
            continue
        adds = [x for x in sym.subterms(r.ret) if isinstance(x, tuple) and x and x[0] == 'call' and str(x[1]).endswith('::checked_add')]
        if len(adds) != 1:
            return ctx.unresolved('R4', role, b.defpath, 'shape not recognised (no single checked_add)', key=key)
        extra = adds[0][2][1]
        for state, (e0, want) in STATES.items():
            verdicts = [holds(t, v, state) for t, v, _ in r.preds]
            if any(x is False for x in verdicts):
                continue            # this path is not taken in this state
            if not any(x is True for x in verdicts):
                continue            # the path does not constrain the mask: cannot attribute it
            n_checked += 1
            got = count_of(extra, state)
            if got is None:
                return ctx.unresolved('R4', role, b.defpath, 'the value added for state `%s` is not a constant / trailing_zeros form: %s' % (state, sym.show(extra)[:80]), key=key)
            if pow2.exp_cmp(got, want) != 0:
                desc = {'empty': 'the mask is empty', 'partial': 'the mask sits at position p < BITS-1', 'full': 'the current word is full (mask at position BITS-1) but not yet flushed'}[state]
                return ctx.bad('R4', role, b.defpath, 'when %s, len() adds %s bits for the current word where %s are held: %s' % (
                    desc, exp_str(got), exp_str(want), 'the reported length is short by a whole word exactly when the bit count is a multiple of the word size' if state == 'full' else 'the reported length is off'),
                    key=key, loc=rules.loc(b))
    if n_checked < 3:
        return ctx.unresolved('R4', role, b.defpath, 'only %d (path, mask state) pairs could be attributed' % n_checked, key=key)
    return ctx.ok('R4', role, b.defpath, '%d (path, mask state) pairs: + 0 for the empty mask, + p + 1 at position p, + BITS for a full unflushed word' % n_checked, key=key)


def check_marker(ctx, F):
    key = 'R4/position/marker/' + SC
    role = 'from_compressed finds the end marker where into_compressed puts it (top set bit), removes it and leaves the mask one below'
    imp = exp = None
    for b in F.bodies:
        if b.promoted is None and b.self_adt == SC and b.dk == 'AssocFn' and '::tests::' not in b.defpath and 'Stack' in b.defpath.split('>::')[0]:
            if b.name == 'from_compressed':
                imp = b
            if b.name == 'into_compressed':
                exp = b
    if imp is None or exp is None:
        return ctx.unresolved('R4', role, SC, 'stack from_compressed / into_compressed not found', key=key)
    ctx.touch(imp); ctx.touch(exp)
    # export: first event is write_bit(self, true); then flush iff mask != 0
    ev, paths = rules.evaluate(exp)
    for r in paths or []:
        calls = [e for e in r.events if e['kind'] == 'call' and e.get('uid') is not None]
        if not calls or not calls[0]['callee'].endswith('write_bit') or calls[0]['args'][1] != ('int', 1):
            return ctx.bad('R4', role, exp.defpath, 'export does not start by pushing the terminating 1 bit with write_bit(true)', key=key, loc=rules.loc(exp))
    # import
    ev, paths = rules.evaluate(imp)
    fields = [f['name'] for f in F.adts[SC]['variants'][0]['fields']]
    n = 0
    for r in paths or []:
        if r.end != 'return' or not (r.ret[0] == 'agg' and r.ret[1][-1] == 'Ok'):
            continue
        lit = r.ret[2][0]
        word, mask = lit[2][fields.index('current_word')], lit[2][fields.index('mask_last_written')]
        if pow2._is_zero(word) and pow2._is_zero(mask):
            continue
        n += 1
        # mask == marker >> 1 ; word == last ^ marker ; marker == 1 << (BITS - 1 - leading_zeros(last))
        if not (mask[0] == 'bin' and mask[1] == 'Shr' and mask[3] == ('int', 1)):
            return ctx.bad('R4', role, imp.defpath, 'the mask is not placed one position below the marker (%s)' % sym.show(mask)[:80], key=key, loc=rules.loc(imp))
        marker = mask[2]
        if not (word[0] == 'bin' and word[1] == 'BitXor' and marker in (word[2], word[3])):
            return ctx.bad('R4', role, imp.defpath, 'the marker is not removed from the imported word (%s)' % sym.show(word)[:80], key=key, loc=rules.loc(imp))
        last = word[3] if word[2] == marker else word[2]
        ok = marker[0] == 'bin' and marker[1] == 'Shl' and marker[2][0] == 'k' and marker[2][1] == 'one'
        if ok:
            a = sym.affine(effects.rebuild(marker[3], lambda n_: n_[2] if n_ and n_[0] == 'cast' else None))
            atoms = [(c, at) for k, (c, at) in (a[0].items() if a else [])]
            lz = [(c, at) for c, at in atoms if at[0] == 'call' and str(at[1]).endswith('leading_zeros') and at[2][0] == last]
            bits = [(c, at) for c, at in atoms if at == ('c', '<Word as BitArray>::BITS')]
            tz = [at for c, at in atoms if at[0] == 'call' and str(at[1]).endswith('trailing_zeros')]
            if tz:
                return ctx.bad('R4', role, imp.defpath, 'the marker is searched with trailing_zeros (lowest set bit), but bits fill a word upwards from position 0 and into_compressed puts the marker above all of them: it is the top set bit', key=key, loc=rules.loc(imp))
            ok = a is not None and len(atoms) == 2 and lz and lz[0][0] == -1 and bits and bits[0][0] == 1 and a[1] == -1
        if not ok:
            return ctx.unresolved('R4', role, imp.defpath, 'marker expression not recognised: %s' % sym.show(marker)[:100], key=key)
    if n != 1:
        return ctx.unresolved('R4', role, imp.defpath, '%d importing paths with a partial word' % n, key=key)
    return ctx.ok('R4', role, imp.defpath, 'marker = 1 << (BITS - 1 - leading_zeros(last)); word = last ^ marker; mask = marker >> 1; export seals with write_bit(true)', key=key)


def _fold3(t):
    """constant folding over the three word constants 0, 1, all-ones (enough to evaluate a mask expression at mask == 0)."""
    Z, O, A = ('k', 'zero', 'W'), ('k', 'one', 'W'), ('k', 'all_ones', 'W')

    def norm(x):
        if isinstance(x, tuple) and x and x[0] == 'k' and x[1] in ('zero', 'one', 'all_ones', 'max_value'):
            return (Z if x[1] == 'zero' else O if x[1] == 'one' else A)
        if x == ('int', 0):
            return Z
        return x

    def f(n):
        if not n:
            return None
        n = norm(n)
        if n[0] == 'bin':
            a, b = norm(n[2]), norm(n[3])
            op = n[1]
            if op in ('Sub.w',) or (op == 'call-wrapping_sub'):
                if a == Z and b == O:
                    return A
                if b == Z:
                    return a
            if op == 'BitAnd':
                if Z in (a, b):
                    return Z
                if a == A:
                    return b
                if b == A:
                    return a
            if op == 'BitOr':
                if a == Z:
                    return b
                if b == Z:
                    return a
            if op in ('Eq', 'Le', 'Ge') and a == b:
                return ('int', 1)         # x == x whatever x is: the test no longer depends on it
            if op in ('Ne', 'Lt', 'Gt') and a == b:
                return ('int', 0)
            if op in ('Eq',) and a in (Z, O, A) and b in (Z, O, A):
                return ('int', int(a == b))
            if op in ('Ne',) and a in (Z, O, A) and b in (Z, O, A):
                return ('int', int(a != b))
        if n[0] == 'un' and n[1] == 'Not':
            a = norm(n[2])
            if a == Z:
                return A
            if a == A:
                return Z
        if n[0] == 'call' and isinstance(n[1], str) and len(n[2]) == 2:
            a, b = norm(n[2][0]), norm(n[2][1])
            if n[1].endswith('::saturating_sub') and a == Z:
                return Z
            if n[1].endswith('::wrapping_sub') and a == Z and b == O:
                return A
        return n if n is not None else None
    return effects.rebuild(t, f)


def check_queue_exhaustion(ctx, F):
    """QueueDecoder: when the buffered word is fully consumed (mask_next_to_read == 0) `current_word` is stale (the struct
    documents it as meaningless); maybe_exhausted() must then be decided by the backend alone.  The decision predicates are
    evaluated at mask == 0 by constant folding over {0, 1, all-ones} and must not mention current_word any more."""
    key = 'R3/queue-exhaustion/' + QD
    role = 'with the buffered word fully consumed, maybe_exhausted() does not look at the stale current_word'
    b = body_of(F, QD, 'maybe_exhausted')
    if b is None:
        return ctx.unresolved('R3', role, QD, 'maybe_exhausted not found', key=key)
    ev, paths = rules.evaluate(b)
    ctx.touch(b)
    mask = _mask_in('mask_next_to_read')
    cw = ('in', (1, 'deref', ('f', 'current_word')))
    n = 0
    def excludes_zero_mask(r):
        # the path itself knows mask != 0 (e.g. after an early return for the consumed case): mask == 0 is infeasible on it
        for t, v, _ in r.preds:
            if t[0] == 'bin' and t[1] in ('Eq', 'Ne') and mask in (t[2], t[3]) and pow2._is_zero(t[3] if t[2] == mask else t[2]):
                if (t[1] == 'Eq' and not v) or (t[1] == 'Ne' and v):
                    return True
        return False
    for r in paths or []:
        if r.end != 'return':
            continue
        if excludes_zero_mask(r):
            n += 1
            continue
        for t, v, _ in r.preds:
            if not sym.contains(t, lambda x: x == mask):
                continue
            n += 1
            folded = _fold3(sym.subst(t, {mask: ('k', 'zero', 'W')}))
            if sym.contains(folded, lambda x: x == cw):
                return ctx.bad('R3', role, b.defpath, 'at mask_next_to_read == 0 the test `%s` becomes `%s`: it still reads current_word, which holds the bits of the word that was already consumed, so a decoder that has read '
                               'every bit of a stream ending in a non-zero word denies being exhausted' % (sym.show(t)[:110], sym.show(folded)[:80]), key=key, loc=rules.loc(b))
    if not n:
        return ctx.unresolved('R3', role, b.defpath, 'no decision mentions the mask', key=key)
    return ctx.ok('R3', role, b.defpath, '%d mask-dependent decision(s); each folds to a constant at mask == 0' % n, key=key)


def check_write_clones(ctx, F, wq, ws):
    key = 'R4/write-clones/' + SC
    role = 'queue and stack write_bit are the same function'
    fq, fs = dageq.fingerprint(wq), dageq.fingerprint(ws)
    if fq == fs:
        ctx.ok('R4', role, SC, 'structurally identical bodies', key=key)
    else:
        ctx.bad('R4', role, SC, 'the two write_bit bodies differ: ' + dageq.diff(fq, fs), key=key, loc=rules.loc(ws))


def _is_bits_of_n(t):
    """the number of bits of the symbol type, in the spellings the code uses"""
    t = effects.strip_uid(t)
    if not (isinstance(t, tuple) and t):
        return False
    if t[0] == 'call' and t[2]:
        a = effects.strip_uid(t[2][0])
        nm = str(t[1])
        if nm.endswith('count_ones') and (a[:2] == ('k', 'max_value') or (a[0] == 'call' and str(a[1]).endswith('max_value'))):
            return True
        if nm.endswith('count_zeros') and (a[:2] == ('k', 'zero') or (a[0] == 'call' and str(a[1]).endswith('Zero::zero'))):
            return True
    return 'BITS' in sym.show(t) and t[0] in ('const', 'k', 'assoc')


def check_exp_golomb_agreement(ctx, F):
    """Writer and reader of the Exp-Golomb code agree on the longest code word.  The writer emits, for the maximum of the integer
    type, as many leading zeros as the type has bits (the branch where `symbol + 1` wraps to zero).  So (A) the reader has an
    accepting path on which the counted run of leading zeros equals that number, and (B) every accepting path goes on to read
    as many bits as it counted zeros (the writer always emits them), unless the count is decided to be zero."""
    EG = 'symbol::exp_golomb::ExpGolomb'
    enc = [b for b in F.bodies if b.promoted is None and b.name == 'encode_symbol_prefix' and EG in b.defpath and b.dk == 'AssocFn']
    dec = [b for b in F.bodies if b.promoted is None and b.name == 'decode_symbol' and EG in b.defpath and b.dk == 'AssocFn']
    keyA = 'R4/exp-golomb-longest-codeword/' + EG
    keyB = 'R4/exp-golomb-reads-tail/' + EG
    roleA = 'the reader accepts the longest run of leading zeros the writer emits (bits of the type)'
    roleB = 'every accepting path reads as many bits behind the marker as it counted zeros'
    if not enc or not dec:
        ctx.unresolved('R4', roleA, EG, 'Exp-Golomb writer or reader not found', key=keyA)
        return
    ctx.touch(enc[0]); ctx.touch(dec[0])
    _, ep = rules.evaluate(enc[0])
    writer_max = False
    for r in ep or []:
        for e in r.events:
            if e['kind'] == 'loop_enter':
                for v in e['pre'].values():
                    for x in sym.subterms(v):
                        if isinstance(x, tuple) and x and x[0] == 'agg' and 'Range' in str(x[1]) and len(x[2]) == 2 and _is_bits_of_n(x[2][1]):
                            writer_max = True
    _, dp = rules.evaluate(dec[0])
    if not dp:
        ctx.unresolved('R4', roleA, dec[0].defpath, 'reader not evaluated', key=keyA)
        return
    oks = [r for r in dp if r.end == 'return' and r.ret is not None and rules.ret_shape(r.ret)[0] == 'Ok']
    if not oks:
        ctx.unresolved('R4', roleA, dec[0].defpath, 'no accepting path', key=keyA)
        return
    # the counter: the loop variable of the first loop that is compared with the number of bits
    feasible = 0
    unknown = None
    counters = set()
    for r in oks:
        ok = True
        for t, v, _ in r.preds:
            if t[0] != 'bin' or t[1] not in ('Lt', 'Le', 'Gt', 'Ge', 'Eq', 'Ne'):
                continue
            a, b = t[2], t[3]
            if _is_bits_of_n(a) and isinstance(b, tuple) and b and b[0] == 'loop':
                op, L = t[1], b           # K op L
            elif _is_bits_of_n(b) and isinstance(a, tuple) and a and a[0] == 'loop':
                op, L = {'Lt': 'Gt', 'Le': 'Ge', 'Gt': 'Lt', 'Ge': 'Le'}.get(t[1], t[1]), a
            elif (_is_bits_of_n(a) or _is_bits_of_n(b)):
                unknown = 'comparison of the bit count with %s' % sym.show(b if _is_bits_of_n(a) else a)[:50]
                continue
            else:
                continue
            counters.add(L)
            at_eq = op in ('Le', 'Ge', 'Eq')          # truth of `K op L` at L == K
            if bool(v) != at_eq:
                ok = False
        if ok:
            feasible += 1
    # the counter may also be compared with the number of bits inside the counting loop only (on the stepped counter)
    ev_d0 = rules.evaluate(dec[0])[0]
    loop_counters = set()
    for r in dp:
        if r.end != 'backedge':
            continue
        les = [e for e in r.events if e['kind'] == 'loop_enter']
        if not les:
            continue
        for path in les[-1]['pre']:
            if not (len(path) == 1 and isinstance(path[0], int)):
                continue
            me = ('loop', les[-1]['head'], path)
            fin = ev_d0.final_read(r, path)
            if isinstance(fin, tuple) and fin and fin[0] == 'bin' and fin[1].split('.')[0] == 'Add' and me in (fin[2], fin[3]) and sym.mk_int(1) in (fin[2], fin[3]):
                for t, v, _ in r.preds:
                    if t[0] == 'bin' and t[1] in ('Lt', 'Le', 'Gt', 'Ge', 'Eq', 'Ne') and ((_is_bits_of_n(t[2]) and t[3] in (me, fin)) or (_is_bits_of_n(t[3]) and t[2] in (me, fin))):
                        loop_counters.add(me)
    in_loop_only = not counters and len(loop_counters) == 1
    if in_loop_only:
        counters = set(loop_counters)
    if not writer_max:
        ctx.unresolved('R4', roleA, enc[0].defpath, 'the writer\'s run of `bits of the type` zeros was not recognised', key=keyA)
    elif in_loop_only:
        ctx.ok('R4', roleA, dec[0].defpath, 'the count is compared with the bits of the type inside the counting loop only; whether a run of exactly that many zeros may go on is decided by the counter rule', key=keyA)
    elif unknown:
        ctx.unresolved('R4', roleA, dec[0].defpath, unknown, key=keyA)
    elif not counters:
        ctx.unresolved('R4', roleA, dec[0].defpath, 'the reader does not compare its zero count with the number of bits', key=keyA)
    elif not feasible:
        ctx.bad('R4', roleA, dec[0].defpath, 'no accepting path is compatible with a run of exactly `bits of the type` leading zeros, which is what the writer emits for the maximum of the type: the largest symbol is written but cannot be read back', key=keyA, loc=rules.loc(dec[0]))
    else:
        ctx.ok('R4', roleA, dec[0].defpath, '%d of %d accepting path(s) admit count == bits of the type' % (feasible, len(oks)), key=keyA)
    if len(counters) != 1:
        ctx.unresolved('R4', roleB, dec[0].defpath, 'zero counter not identified', key=keyB)
        return
    L = next(iter(counters))
    # (C) the counter is bounded inside the counting loop: an iteration that goes on has decided `count <= bits of the type`
    # on the stepped counter.  Without that the u32 counter wraps after 2^32 zero bits (a panic in debug builds; a release
    # build then takes the run for a short one and accepts an invalid code word), and an invalid stream is read to its end.
    keyC = 'R4/exp-golomb-counter-bounded/' + EG
    roleC = 'the zero counter is bounded inside the counting loop (and a run of exactly `bits of the type` zeros may go on)'
    ev_d = rules.evaluate(dec[0])[0]
    n_back = 0
    verdict = None
    for r in dp:
        if r.end != 'backedge':
            continue
        les = [e for e in r.events if e['kind'] == 'loop_enter']
        if not les or les[-1]['head'] != L[1]:
            continue
        fin = ev_d.final_read(r, tuple(L[2]))
        stepped = isinstance(fin, tuple) and fin and fin[0] == 'bin' and fin[1].split('.')[0] == 'Add' and L in (fin[2], fin[3])
        if not stepped:
            continue
        n_back += 1
        bounded = False
        admits = True
        for t, v, _ in r.preds:
            if isinstance(v, tuple) or t[0] != 'bin' or t[1] not in ('Lt', 'Le', 'Gt', 'Ge', 'Eq', 'Ne'):
                continue
            a, b_ = t[2], t[3]
            is_cnt = lambda u: u == L or u == fin
            if _is_bits_of_n(a) and is_cnt(b_):
                op, cnt = t[1], b_
            elif _is_bits_of_n(b_) and is_cnt(a):
                op, cnt = {'Lt': 'Gt', 'Le': 'Ge', 'Gt': 'Lt', 'Ge': 'Le'}.get(t[1], t[1]), a
            else:
                continue
            # `K op cnt` decided as v.  Does it bound cnt from above, and is it consistent with stepped counter == K?
            if not v:
                op = {'Lt': 'Ge', 'Le': 'Gt', 'Gt': 'Le', 'Ge': 'Lt', 'Eq': 'Ne', 'Ne': 'Eq'}[op]
            if op in ('Ge', 'Gt', 'Eq'):          # K >= cnt, K > cnt, K == cnt
                bounded = True
            # with the stepped counter equal to K: cnt == fin means cnt == K; cnt == L means cnt == K - 1
            at_k = {'Ge': True, 'Gt': cnt == L, 'Eq': cnt == fin, 'Le': cnt == fin, 'Lt': False, 'Ne': cnt == L}[op]
            if not at_k:
                admits = False
        if not bounded:
            verdict = ('bad', 'an iteration of the counting loop steps the counter and goes on without any decision that bounds it by the bits of the type: after 2^32 zero bits the u32 counter wraps (debug builds panic, release builds take the run for a short one and accept an invalid code word)')
        elif not admits and verdict is None:
            verdict = ('bad', 'the counting loop refuses to go on when the stepped counter equals the bits of the type: the code word of the maximum, which starts with exactly that many zeros, is refused')
    if n_back == 0:
        ctx.unresolved('R4', roleC, dec[0].defpath, 'no iteration of the counting loop steps the counter', key=keyC)
    elif verdict:
        ctx.bad('R4', roleC, dec[0].defpath, verdict[1], key=keyC, loc=rules.loc(dec[0]))
    else:
        ctx.ok('R4', roleC, dec[0].defpath, '%d continuing iteration(s), each with `stepped count <= bits of the type` decided' % n_back, key=keyC)
    for r in oks:
        reads_tail = False
        # the same loop driven by a short-circuiting adaptor: (0..count).try_fold(..) / try_for_each(..)
        for x in ([r.ret] if r.ret is not None else []) + [e['result'] for e in r.events if e['kind'] == 'call'] + [t for t, v, _ in r.preds]:
            for y in sym.subterms(x):
                if isinstance(y, tuple) and y and y[0] == 'call' and str(y[1]).endswith(('Iterator::try_fold', 'Iterator::try_for_each')) and y[2]:
                    for z in sym.subterms(y[2][0]):
                        if isinstance(z, tuple) and z and z[0] == 'agg' and 'Range' in str(z[1]) and len(z[2]) == 2 and z[2][1] == L and sym.is_int(z[2][0]) and z[2][0][1] == 0:
                            reads_tail = True
        for e in r.events:
            if e['kind'] == 'loop_enter':
                for v in e['pre'].values():
                    for x in sym.subterms(v):
                        if isinstance(x, tuple) and x and x[0] == 'agg' and 'Range' in str(x[1]) and len(x[2]) == 2 and x[2][1] == L and sym.is_int(x[2][0]) and x[2][0][1] == 0:
                            reads_tail = True
        zero_decided = any(t[0] == 'bin' and t[1] in ('Eq', 'Ne') and ((t[2] == L and sym.is_int(t[3]) and t[3][1] == 0) or (t[3] == L and sym.is_int(t[2]) and t[2][1] == 0)) and bool(v) == (t[1] == 'Eq') for t, v, _ in r.preds)
        if not reads_tail and not zero_decided:
            ctx.bad('R4', roleB, dec[0].defpath, 'an accepting path returns without the loop over 0..count that reads the bits behind the marker: the writer emits them for every symbol, so the reader stops in the middle of the code word and the next symbol is read from its tail', key=keyB, loc=rules.loc(dec[0]))
            return
    ctx.ok('R4', roleB, dec[0].defpath, '%d accepting path(s), each through the loop over 0..count' % len(oks), key=keyB)


def check_symbol_delegation(ctx, F):
    """The bit coders do not interpret code words: `decode_symbol` hands the coder itself (as the bit source) to the code book and
    returns what the code book returns.  A read-ahead (`peek`), a pre-check on the buffered bits or any other exit in front of
    the code book changes what the code book sees: a bit that is popped for a look is gone when the code book consumes none (the
    empty code word of a one-symbol tree), and buffered zeros are data, not padding (the all-zero code word).  Rule: on every
    path exactly one call, the code book's `decode_symbol` with the coder as its source, and the result is that call's result."""
    n = 0
    for b in F.bodies:
        if b.promoted is not None or b.name != 'decode_symbol' or b.impl_trait != 'symbol::ReadBitStream' or b.dk != 'AssocFn' or '::tests::' in b.defpath:
            continue
        n += 1
        key = 'R1/decode-symbol-delegates/' + b.defpath
        role = 'decode_symbol is a pure delegation to the code book with the coder as the bit source'
        ctx.touch(b)
        _, paths = rules.evaluate(b)
        bad = None
        for r in paths or []:
            if r.end not in ('return', 'backedge'):
                continue
            cb = [e for e in r.events if e['kind'] == 'call' and e['callee'] == 'symbol::DecoderCodebook::decode_symbol']
            others = [e for e in r.events if e['kind'] == 'call' and e not in cb and (e.get('uid') is not None or any(isinstance(a, tuple) and a and a[0] == 'ref' and len(a) > 2 and a[2] and tuple(a[1])[:1] == (1,) for a in e['args']))]
            src_is_self = lambda a: a == ('arg', 1) or a == ('ref', (1, 'deref'), True) or a == ('in', (1,))
            if others:
                bad = 'the coder is touched by `%s` in front of / besides the code book: bits popped or examined there never reach the code book' % others[0]['callee'].rsplit('::', 1)[-1]
            elif len(cb) != 1:
                bad = 'a path %s without consulting the code book' % ('returns' if r.end == 'return' else 'loops') if not cb else 'the code book is consulted %d times on one path' % len(cb)
            elif not src_is_self(cb[0]['args'][1]) or r.ret != cb[0]['result']:
                bad = 'the code book does not receive the coder itself as its source, or its result is not what is returned'
            if bad:
                break
        if bad:
            ctx.bad('R1', role, b.defpath, bad, key=key, loc=rules.loc(b))
        elif not paths:
            ctx.unresolved('R1', role, b.defpath, 'not evaluated', key=key)
        else:
            ctx.ok('R1', role, b.defpath, 'codebook.decode_symbol(self)', key=key)
    ctx.floor('R1', 'floor: ReadBitStream::decode_symbol impls', 'symbol', n, 2, 'only %d impls of ReadBitStream::decode_symbol found (stack coder and queue decoder expected)' % n, key='R1/floor/decode-symbol-delegates', public=True)


def run(ctx):
    F = ctx.F
    wq = ws = rs = rq = None
    for b in F.bodies:
        if b.promoted is not None or b.dk != 'AssocFn' or '::tests::' in b.defpath:
            continue
        if b.self_adt == SC and b.name == 'write_bit':
            if 'WriteBitStream<Queue>' in b.defpath:
                wq = b
            elif 'WriteBitStream<Stack>' in b.defpath:
                ws = b
        if b.self_adt == SC and b.name == 'read_bit':
            rs = b
        if b.self_adt == QD and b.name == 'read_bit':
            rq = b
    if not all((wq, ws, rs, rq)):
        ctx.bad('R4', 'anchor', SC, 'write_bit / read_bit of the bit coders not found (public trait methods)', key='R4/anchor/bit-coders')
    else:
        check_write(ctx, F, wq, 'queue')
        check_write(ctx, F, ws, 'stack')
        check_write_clones(ctx, F, wq, ws)
        check_read(ctx, F, rs, 'stack', 'mask_last_written', -1, (1, -1), (1, -2))
        check_read(ctx, F, rq, 'queue', 'mask_next_to_read', +1, (0, 0), (0, 1))
        check_empty_read_untouched(ctx, F, rs, 'stack')
        check_empty_read_untouched(ctx, F, rq, 'queue')
    check_len(ctx, F)
    check_marker(ctx, F)
    check_queue_exhaustion(ctx, F)
    check_exp_golomb_agreement(ctx, F)
    check_symbol_delegation(ctx, F)
    c18.check_bit_coder_sentinel(ctx, F)
    c08.check_bit_guards(ctx, F)
    if ctx.tier == 'thorough':
        from vlib import witness
        witness.run(ctx, 'C16')
    ctx.assume('the mask holds at most one set bit (established by the constructors, which store zero, and preserved by the step functions, which store 1, mask << 1, mask >> 1 or 1 << (BITS-1))')
    return {
        'level': 'other',
        'explanation': 'Position-domain agreement rules over extracted MIR of src/symbol/mod.rs: with mask = 2^p every mask update is arithmetic on p (vlib/pow2.py); write_bit stores at the new position p+1 and starts fresh '
                       'words at 0 with flush-iff-full; the stack reader tests position p and steps to p-1 (refill: BITS-1), the queue reader tests p and steps to p+1 (refill: 0); both write_bit bodies are identical; '
                       'len() adds trailing_zeros(mask)+1; re-import takes the marker at the top set bit, removes it and leaves the mask one below; sentinel and guard pairing shared with C18/C08. These are necessary '
                       'conditions of the LIFO/FIFO, length and re-import clauses for all histories. Not decided: the bit contents of the word, Exp-Golomb/Huffman round trips.',
        'trusted_base': ['rustc type checker + MIR construction', 'cfacts extractor', 'shift semantics of one-hot masks (mask << 1 == 0 iff p == BITS-1)'],
    }
