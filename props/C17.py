"""C17 — word sources and sinks honour their read/write/bounds/position contracts.

Statically decided clauses (DESIGN §4 C17):
  1. Cursor invariant pos <= len(buf): established at every literal, preserved by every method
     that writes `pos` or the buffer length, not breakable through a `&mut` escape      (R6/R7)
  2. counting contract: remaining()/space_left() = number of reads/writes that will succeed (R6)
  3. inverse cell: a write followed by the paired read returns the written cell          (R6)
  4. seek accepts exactly the valid positions and pos() reports the sought position      (R6)
  5. end-of-data is sticky: failing reads/writes change nothing; adapters hold a Fuse    (R1)
  6. Reverse<B> and the provided (default) query methods are pure delegations            (R4)
"""
from vlib import effects, facts, sym, dbm as dbmmod, rules
from vlib.facts import callee
from vlib.report import DISCHARGED

CURSOR = 'backends::Cursor'
REVERSE = 'backends::Reverse'
POS = ('f', 'pos')
BUF = ('f', 'buf')

# std contracts used for the Vec / SmallVec / iterator backends (trusted, DESIGN §6)
STD_READ_PAIRS = {
    # E-function callee           read callee                      reason
    ('alloc::vec::Vec::<T, A>::len', 'alloc::vec::Vec::<T, A>::pop'): 'Vec::pop returns Some and shrinks len by one iff len > 0',
    ('smallvec::SmallVec::<A>::len', 'smallvec::SmallVec::<A>::pop'): 'SmallVec::pop returns Some and shrinks len by one iff len > 0',
    ('core::iter::ExactSizeIterator::len', 'core::iter::Iterator::next'): 'ExactSizeIterator::len is the exact number of Some items next() still yields',
}
STD_WRITERS = {'alloc::vec::Vec::<T, A>::push': 'Vec::push appends exactly one element',
               'smallvec::SmallVec::<A>::push': 'SmallVec::push appends exactly one element'}


def cursor_base(body, local=1):
    F = body.facts
    if local >= len(body.locals):
        return None
    t = F.ty(body.local_ty(local))
    path = (local,)
    if t.get('k') == 'ref' and 'inner' in t:
        path += ('deref',)
        t = F.ty(t['inner'])
    if t.get('k') != 'adt':
        return None
    if t['adt'] == REVERSE:
        a = rules.first_type_arg(F, t)
        if a is not None and a.get('k') == 'adt' and a['adt'] == CURSOR:
            return path + (('f', '0'),)
        return None
    if t['adt'] == CURSOR:
        return path
    return None


def inv_extra(base):
    def extra(d):
        d.assume_le(('in', base + (POS,)), sym.mk_len(('in', base + (BUF,))))
        d.assume_nonneg(('in', base + (POS,)))
    return extra


def body_mentions_cursor_state(body):
    """Cheap syntactic pre-filter on raw MIR: Cursor literal or a write to a Cursor's pos/buf."""
    for bl in body.blocks:
        if bl['cleanup']:
            continue
        for s in bl['stmts']:
            if s['k'] != 'assign':
                continue
            rv = s['rv']
            if rv['k'] == 'agg' and rv.get('adt') == CURSOR:
                return True
            for e in s['place']['p']:
                if isinstance(e, dict) and e.get('of') == CURSOR and e.get('n') in ('pos', 'buf'):
                    return True
            if rv['k'] in ('ref', 'rawptr') and rv['mut']:
                for e in rv['place']['p']:
                    if isinstance(e, dict) and e.get('of') == CURSOR and e.get('n') in ('pos', 'buf'):
                        return True
    return False


def ret_contains_mut_ref(F, ty_id, depth=0):
    t = F.ty(ty_id)
    if depth > 6:
        return False
    if t.get('k') == 'ref' and t.get('mut'):
        return True
    for key in ('inner',):
        if key in t and ret_contains_mut_ref(F, t[key], depth + 1):
            return True
    for a in t.get('args', []):
        if isinstance(a, int) and ret_contains_mut_ref(F, a, depth + 1):
            return True
    return False


def check_invariant(ctx, F):
    """Clause 1."""
    n_lit = n_meth = 0
    # field visibility: the invariant-carrying fields must not be public
    adt = F.adts.get(CURSOR)
    if adt is None:
        ctx.bad('R7', 'anchor: struct Cursor', CURSOR, 'the Cursor backend is gone: anchor missing', key='R7/anchor/Cursor')
        return
    for f in adt['variants'][0]['fields']:
        if f['name'] in ('pos', 'buf'):
            if f['vis'] == 'pub':
                ctx.bad('R7', 'invariant field is private', CURSOR + '.' + f['name'],
                        'field `%s` carries the invariant pos <= len(buf) and is `pub`: any user can break it' % f['name'],
                        key='R7/pub-field/%s.%s' % (CURSOR, f['name']))
            else:
                ctx.ok('R7', 'invariant field is private', CURSOR + '.' + f['name'], 'visibility: ' + f['vis'])
    for b in F.bodies:
        if b.promoted is not None or b.derived or b.dk not in ('Fn', 'AssocFn', 'Closure'):
            continue
        if '::tests::' in b.defpath:
            continue
        base = cursor_base(b)
        interesting = body_mentions_cursor_state(b)
        returns_mut = b.dk != 'Closure' and base is not None and 'ret' in b.raw and ret_contains_mut_ref(F, b.raw['ret'])
        if not interesting and not returns_mut:
            continue
        ev, paths = rules.evaluate(b)
        ctx.touch(b, calls=sum(1 for _ in b.calls()))
        if paths is None:
            ctx.unresolved('R6', 'Cursor invariant', b.defpath, 'too many paths', loc=rules.loc(b))
            continue
        extra = inv_extra(base) if base is not None else None
        # (a) literals
        lit_seen = {}
        for r in paths:
            for e in r.events:
                if e['kind'] != 'literal' or e['adt'] != CURSOR:
                    continue
                fn = e['fnames']
                pos_t = rules.inline_pure(F, e['vals'][fn.index('pos')], depth=2)
                buf_t = rules.inline_pure(F, e['vals'][fn.index('buf')], depth=2)
                d = rules.path_dbm(r, extra=extra, upto=e['npreds'])
                ok = d.entails_le(pos_t, sym.mk_len(buf_t))
                k = e['span'].split('-')[0]
                prev = lit_seen.get(k, (True, None))
                lit_seen[k] = (prev[0] and ok, 'pos = %s, buf = %s' % (sym.show(pos_t), sym.show(buf_t)))
        for i, (k, (ok, txt)) in enumerate(sorted(lit_seen.items())):
            n_lit += 1
            key = 'R6/cursor-literal/%s#%d' % (b.defpath, i)
            if ok:
                ctx.ok('R6', 'Cursor literal establishes pos <= len(buf)', b.defpath, txt, loc=k, key=key)
            else:
                ctx.bad('R6', 'Cursor literal establishes pos <= len(buf)', b.defpath,
                        'cannot derive pos <= len(buf) on every path to this literal (%s)' % txt, loc=k, key=key)
        # (b) preservation by methods on an existing cursor
        if base is not None:
            recv = F.ty(b.local_ty(1))
            mutable = (recv.get('k') == 'ref' and recv.get('mut')) or recv.get('k') == 'adt'
            if mutable:
                bad = None
                touched = False
                for r in paths:
                    if r.end != 'return':
                        continue
                    posf = ev.final_read(r, base + (POS,))
                    buff = ev.final_read(r, base + (BUF,))
                    if posf == ('in', base + (POS,)) and buff == ('in', base + (BUF,)):
                        continue
                    if recv.get('k') == 'adt' and posf[0] == 'uninit':
                        continue
                    touched = True
                    d = rules.path_dbm(r, extra=extra)
                    if not d.entails_le(posf, sym.mk_len(buff)):
                        bad = 'exit via blocks %s: pos\' = %s, buf\' = %s' % (r.blocks[-3:], sym.show(posf), sym.show(buff))
                        break
                if touched or bad:
                    n_meth += 1
                    key = 'R6/cursor-preserve/%s' % b.defpath
                    if bad:
                        ctx.bad('R6', 'method preserves pos <= len(buf)', b.defpath, bad, loc=rules.loc(b), key=key)
                    else:
                        ctx.ok('R6', 'method preserves pos <= len(buf)', b.defpath,
                               'inductive on all %d return paths' % sum(1 for r in paths if r.end == 'return'), loc=rules.loc(b), key=key)
            # (c) &mut escape of an invariant-carrying field
            if returns_mut and not b.unsafe and ctx.prop == 'C20':
                esc = None
                for r in paths:
                    if r.end != 'return' or r.ret is None:
                        continue
                    for x in sym.subterms(r.ret):
                        if isinstance(x, tuple) and x and x[0] == 'ref' and x[2] and len(x) == 3 and x[1][:len(base)] == base and len(x[1]) > len(base) and x[1][len(base)] in (POS, BUF):
                            # handing out `&mut [Word]` obtained through as_mut is harmless (slice length is fixed);
                            # the escape is the reference to the *container* field itself
                            esc = sym.path_str(x[1])
                key = 'R7/mut-escape/%s' % b.defpath
                if esc:
                    ctx.bad('R7', 'no safe fn returns &mut to an invariant field', b.defpath,
                            'returns `&mut` to %s: safe code can shrink/replace the buffer and break pos <= len(buf), '
                            'which the unchecked accesses in ReadWords<Stack>::read / Reverse::write rely on' % esc,
                            loc=rules.loc(b), key=key)
                else:
                    ctx.ok('R7', 'no safe fn returns &mut to an invariant field', b.defpath, 'returned reference does not point at pos/buf', key=key)
    ctx.extra['cursor_literals'] = n_lit
    ctx.extra['cursor_mutators'] = n_meth
    ctx.floor('R6', 'floor: Cursor literal sites', CURSOR, n_lit, 5, 'only %d literal sites found (>= 5 constructors expected): role nearly empty' % n_lit, key='R6/floor/cursor-literals')


def _ret_is_slice_ref(F, ty_id):
    t = F.ty(ty_id)
    return t.get('k') == 'ref' and 'inner' in t and F.ty(t['inner']).get('k') == 'slice'


# ---------------------------------------------------------------- clause 2, 3, 5

def trait_ref_key(b, frm, to):
    return (b.impl_trait_ref or '').replace(frm, to)


def single_return(paths):
    rs = [r for r in paths if r.end == 'return']
    return rs[0] if len(rs) == 1 else None


def delegation_of(ev, paths):
    """If the body is `callee(args..)` (possibly wrapped in Ok{..}) on a single path: (callee fn dict, event, wrapped)"""
    r = single_return(paths)
    if r is None:
        return None
    calls = [e for e in r.events if e['kind'] == 'call']
    if len(calls) != 1:
        return None
    e = calls[0]
    if r.ret == e['result']:
        return e, False
    sh = rules.ret_shape(r.ret)
    if sh[0] == 'Ok' and sh[1] == e['result']:
        return e, True
    return None


def check_contracts(ctx, F):
    pairs = []
    for b in F.bodies:
        if b.promoted is not None or b.dk != 'AssocFn':
            continue
        if b.impl_trait == 'backends::BoundedReadWords' and b.name == 'remaining':
            key = trait_ref_key(b, 'backends::BoundedReadWords', 'backends::ReadWords')
            ops = [o for o in F.bodies if o.promoted is None and o.name == 'read' and o.impl_trait == 'backends::ReadWords' and o.impl_trait_ref == key]
            pairs.append(('read', b, ops[0] if ops else None))
        if b.impl_trait == 'backends::BoundedWriteWords' and b.name == 'space_left':
            key = trait_ref_key(b, 'backends::BoundedWriteWords', 'backends::WriteWords')
            ops = [o for o in F.bodies if o.promoted is None and o.name == 'write' and o.impl_trait == 'backends::WriteWords' and o.impl_trait_ref == key]
            pairs.append(('write', b, ops[0] if ops else None))
    ctx.extra['contract_pairs'] = len(pairs)
    if len(pairs) < 8:
        ctx.bad('R6', 'floor: bounded backends', 'backends', 'only %d Bounded{Read,Write}Words impls found (>= 8 on the reference tree)' % len(pairs), key='R6/floor/contract-pairs')
    cells = {}
    for kind, efn, opfn in pairs:
        role = 'remaining() counts successful reads' if kind == 'read' else 'space_left() counts successful writes'
        key = 'R6/contract/%s' % efn.defpath
        if opfn is None:
            ctx.unresolved('R6', role, efn.defpath, 'paired %s impl not found' % kind, key=key)
            continue
        eev, epaths = rules.evaluate(efn)
        oev, opaths = rules.evaluate(opfn)
        ctx.touch(efn)
        ctx.touch(opfn)
        if epaths is None or opaths is None:
            ctx.unresolved('R6', role, efn.defpath, 'too many paths', key=key)
            continue
        er = single_return(epaths)
        if er is None:
            ctx.unresolved('R6', role, efn.defpath, 'query function has several paths', key=key)
            continue
        E = rules.inline_pure(F, er.ret)      # the count may be computed by a private pure helper shared by the sibling queries
        base = cursor_base(opfn)
        if base is not None:
            verdict, txt, cell = cursor_contract(kind, E, opfn, oev, opaths, base)
            if cell:
                cells[(kind, opfn.impl_trait_ref)] = cell
            (ctx.ok if verdict else ctx.bad)('R6', role, efn.defpath, txt, loc=rules.loc(efn), key=key,
                                            facts={'E': sym.show(E), 'op': opfn.defpath})
            continue
        # delegation / std contract
        ed = delegation_of(eev, epaths)
        od = delegation_of(oev, opaths)
        if E[0] == 'len' and od and kind == 'read':
            pair = ('alloc::vec::Vec::<T, A>::len' if 'Vec' in od[0]['callee'] else 'smallvec::SmallVec::<A>::len', od[0]['callee'])
            if pair in STD_READ_PAIRS and _same_receiver(E[1], od[0]):
                ctx.ok('R6', role, efn.defpath, 'std contract: ' + STD_READ_PAIRS[pair], key=key, facts={'E': sym.show(E), 'op': od[0]['callee']})
                ctx.assume('std: ' + STD_READ_PAIRS[pair])
                continue
        if ed and od:
            ecal, ocal = ed[0]['callee'], od[0]['callee']
            if (ecal, ocal) in STD_READ_PAIRS and _same_receiver_ev(ed[0], od[0]):
                ctx.ok('R6', role, efn.defpath, 'std contract: ' + STD_READ_PAIRS[(ecal, ocal)], key=key, facts={'E': ecal, 'op': ocal})
                ctx.assume('std: ' + STD_READ_PAIRS[(ecal, ocal)])
                continue
            # delegation to the same traits on an inner backend with the same semantics argument
            want_e = 'backends::BoundedReadWords::remaining' if kind == 'read' else 'backends::BoundedWriteWords::space_left'
            want_o = 'backends::ReadWords::read' if kind == 'read' else 'backends::WriteWords::write'
            if ecal == want_e and ocal == want_o and _same_receiver_ev(ed[0], od[0]) and _same_trait_args(F, ed[0], od[0]):
                ctx.ok('R4', role + ' (delegation)', efn.defpath,
                       'both delegate to the same inner backend with the same semantics: %s / %s' % (ecal, ocal), key=key)
                continue
        # last resort: transposed iterator read
        if ed and kind == 'read':
            calls = [e for e in single_return(opaths).events if e['kind'] == 'call'] if single_return(opaths) else []
            if calls and (ed[0]['callee'], calls[0]['callee']) in STD_READ_PAIRS and _same_receiver_ev(ed[0], calls[0]):
                ctx.ok('R6', role, efn.defpath, 'std contract: ' + STD_READ_PAIRS[(ed[0]['callee'], calls[0]['callee'])], key=key)
                ctx.assume('std: ' + STD_READ_PAIRS[(ed[0]['callee'], calls[0]['callee'])])
                continue
        ctx.unresolved('R6', role, efn.defpath, 'shape outside the idiom list (E = %s)' % sym.show(E), key=key)
    # clause 3: inverse cells
    check_cells(ctx, F, cells)


def _same_receiver(val, ev_call):
    a = ev_call['args'][0] if ev_call['args'] else None
    return a is not None and a[0] == 'ref' and ('in', a[1]) == val


def _same_receiver_ev(e1, e2):
    a, b = (e1['args'] or [None])[0], (e2['args'] or [None])[0]
    return a is not None and b is not None and a[0] == 'ref' and b[0] == 'ref' and a[1] == b[1]


def _same_trait_args(F, e1, e2):
    def targs(e):
        out = []
        for a in e['fn']['args'][1:]:
            out.append(F.ty_s(a['ty']) if 'ty' in a else a.get('const'))
        return out
    return targs(e1) == targs(e2)


def cursor_contract(kind, E, opfn, ev, paths, base):
    """Clause 2 for Cursor-based backends. Returns (ok, text, cell) where cell = (index affine, pos' affine)."""
    extra = inv_extra(base)
    posin = ('in', base + (POS,))
    n_succ = n_fail = 0
    cell = None
    for r in paths:
        if r.end != 'return':
            continue
        sh = rules.ret_shape(r.ret)
        success = None
        if kind == 'read' and sh[0] == 'Ok':
            inner = rules.ret_shape(sh[1]) if sh[1] is not None else ('opaque',)
            if inner[0] == 'Some':
                success = True
            elif inner[0] == 'None':
                success = False
            else:
                # Ok(opaque option): decided by the path predicate on is_Some(option)
                val = None
                for t, v, _ in r.preds:
                    if t == sym.mk_is('Some', sh[1]) or (t[0] == 'discr' and t[1] == sh[1]):
                        val = (v == 1) if t[0] == 'is' else (sym.discr_variant(t, v) == 'Some')
                success = val
        elif kind == 'write':
            success = True if sh[0] == 'Ok' else (False if sh[0] == 'Err' else None)
        if success is None:
            return (False, 'cannot classify exit %s of %s as success/failure' % (sym.show(r.ret), opfn.defpath), None)
        d = rules.path_dbm(r, extra=extra)
        writes = rules.self_writes(r, base[:2] if len(base) > 1 else base)
        m = ev.final_map(r, E)
        E1 = sym.subst(E, m)
        if success:
            n_succ += 1
            idx = _accessed_index(r)
            if idx is not None:
                cell = (idx, ev.final_read(r, base + (POS,)))
            diff = sym.affine_sub(sym.affine(E1), sym.affine(E))
            if diff[0] or diff[1] != -1:
                return (False, 'on the success path of %s the reported count changes by %s (E = %s, E\' = %s): it must drop by exactly one per successful %s'
                        % (opfn.defpath, sym.affine_str(diff), sym.show(E), sym.show(E1), kind), cell)
            if not d.entails_le(sym.mk_int(1), E):
                return (False, 'success path of %s does not imply %s >= 1' % (opfn.defpath, sym.show(E)), None)
        else:
            n_fail += 1
            if not d.entails_le(E, sym.mk_int(0)):
                return (False, 'failure path of %s does not imply %s == 0 (under pos <= len(buf))' % (opfn.defpath, sym.show(E)), None)
            if writes or rules.mut_calls_on(r, base[:2] if len(base) > 1 else base) and any(e['uid'] for e in rules.mut_calls_on(r, base[:2]) if not e['callee'].endswith('get_mut')):
                return (False, 'failure path of %s writes to the backend (end-of-data must be sticky / idempotent)' % opfn.defpath, None)
    if not n_succ or not n_fail:
        return (False, '%s has no %s path' % (opfn.defpath, 'success' if not n_succ else 'failure'), None)
    return (True, 'E = %s; %d success path(s): E\' = E - 1 and E >= 1; %d failure path(s): E == 0 and no write' % (sym.show(E), n_succ, n_fail), cell)


def _accessed_index(r):
    for e in r.events:
        if e['kind'] == 'index':
            return e['index']
        if e['kind'] == 'call' and e['name'] in ('get_unchecked', 'get_unchecked_mut', 'get', 'get_mut', 'index', 'index_mut') and len(e['args']) == 2:
            return e['args'][1]
    return None


def check_cells(ctx, F, cells):
    """Clause 3: write cell / read cell are inverse (LIFO for Cursor+Stack, FIFO order for Reverse<Cursor>+Queue)."""
    def find(kind, frag):
        for (k, ref), cell in cells.items():
            if k == kind and frag in ref:
                return ref, cell
        return None
    combos = [
        ('Cursor write / Stack read', find('write', '<backends::Cursor<Word, Buf> as'), find('read', 'backends::Cursor<Word, Buf> as backends::ReadWords<Word, Stack>'), (1, 'deref')),
        ('Reverse<Cursor> write / Queue read', find('write', '<backends::Reverse<backends::Cursor<Word, Buf>> as'), find('read', 'backends::Cursor<Word, Buf> as backends::ReadWords<Word, Queue>'), None),
    ]
    for name, w, r, _ in combos:
        key = 'R6/inverse-cell/%s' % name
        if not w or not r:
            ctx.unresolved('R6', 'inverse cell', name, 'write or read impl not resolved', key=key)
            continue
        (wref, (widx, wpos)), (rref, (ridx, rpos)) = w, r
        # express everything over the single atom p = initial pos of the respective function
        def norm(t):
            atoms = [x for x in sym.subterms(t) if isinstance(x, tuple) and x and x[0] == 'in' and x[1][-1] == POS]
            m = {a: ('c', 'p') for a in atoms}
            return sym.subst(t, m)
        f, g, h, k = norm(widx), norm(wpos), norm(ridx), norm(rpos)
        hg = sym.subst(h, {('c', 'p'): g})
        kg = sym.subst(k, {('c', 'p'): g})
        d1 = sym.affine_sub(sym.affine(hg), sym.affine(f))
        d2 = sym.affine_sub(sym.affine(kg), sym.affine(('c', 'p')))
        ok = not d1[0] and d1[1] == 0 and not d2[0] and d2[1] == 0
        txt = 'write: cell %s, pos\' = %s; read: cell %s, pos\' = %s' % (sym.show(f), sym.show(g), sym.show(h), sym.show(k))
        (ctx.ok if ok else ctx.bad)('R6', 'inverse cell: the paired read returns the cell just written and restores the position', name, txt, key=key)


# ---------------------------------------------------------------- clause 4: seek

def resolve_self_trait_calls(F, b, t):
    """a call of a backend trait method on `self` resolves to the impl for the very self type of body b (or the provided method)"""
    def f(n_):
        if n_ and n_[0] == 'call' and n_[3] is None and isinstance(n_[1], str) and n_[1].startswith('backends::') and n_[2] and n_[2][0] in (('in', (1, 'deref')), ('arg', 1)):
            tr, meth = n_[1].rsplit('::', 1)
            cands = [x for x in F.bodies if x.promoted is None and x.name == meth and x.impl_trait == tr and x.impl_self is not None and b.impl_self is not None and F.ty_s(x.impl_self) == F.ty_s(b.impl_self)]
            if len(cands) == 1:
                _, pp = rules.evaluate(cands[0])
                r1 = single_return(pp or [])
                if r1 is not None and not any(e['kind'] == 'call' and e.get('uid') is not None for e in r1.events):
                    return r1.ret
            elif not cands:
                # provided method of the trait (e.g. is_full = space_left() == 0)
                prov = [x for x in F.bodies if x.promoted is None and x.name == meth and x.trait == tr and x.impl is None]
                if len(prov) == 1:
                    _, pp = rules.evaluate(prov[0])
                    r1 = single_return(pp or [])
                    if r1 is not None:
                        return r1.ret
        return None
    return effects.rebuild(t, f)


def check_seek(ctx, F):
    seeks = rules.impl_bodies(F, 'Seek', 'seek')
    n = 0
    for b in seeks:
        st = rules.self_type(b)
        if st is None or st.get('k') != 'adt':
            continue
        adt = st['adt']
        if adt not in (CURSOR, 'alloc::vec::Vec', 'smallvec::SmallVec', REVERSE):
            continue
        n += 1
        ev, paths = rules.evaluate(b)
        ctx.touch(b)
        key = 'R6/seek/%s' % b.defpath
        role = 'seek accepts exactly the valid positions'
        if paths is None:
            ctx.unresolved('R6', role, b.defpath, 'too many paths', key=key)
            continue
        if adt == REVERSE:
            d = delegation_of(ev, paths)
            if d and d[0]['callee'] == 'Seek::seek' and d[0]['args'][1] == ('arg', 2):
                ctx.ok('R4', 'Reverse::seek delegates with the unmodified position', b.defpath, 'self.0.seek(pos)', key=key)
            else:
                ctx.bad('R4', 'Reverse::seek delegates with the unmodified position', b.defpath, 'not a pure delegation of (pos)', key=key, loc=rules.loc(b))
            continue
        posfn = [p for p in rules.impl_bodies(F, 'Pos', 'pos') if p.impl_self == b.impl_self]
        bad = None
        n_ok = n_err = 0
        for r in paths:
            if r.end != 'return':
                continue
            sh = rules.ret_shape(r.ret)
            d = rules.path_dbm(r)
            if adt == CURSOR:
                length = sym.mk_len(('in', (1, 'deref', BUF)))
            else:
                length = sym.mk_len(('in', (1, 'deref')))
            if sh[0] == 'Ok':
                n_ok += 1
                if not d.entails_le(('arg', 2), length):
                    bad = 'an accepted position is not proven <= len'
                if adt == CURSOR:
                    if ev.final_read(r, (1, 'deref', POS)) != ('arg', 2):
                        bad = 'accepted seek does not set pos to the requested position'
                else:
                    tr = [e for e in r.events if e['kind'] == 'call' and e['name'] == 'truncate']
                    if len(tr) != 1 or tr[0]['args'][1] != ('arg', 2):
                        bad = 'accepted seek does not truncate to the requested position'
            elif sh[0] == 'Err':
                n_err += 1
                if not d.entails_le(length, ('arg', 2), strict=True):
                    bad = 'a rejected position is not proven > len: a position that pos() can report would be refused'
                if rules.self_writes(r) or any(e['uid'] for e in rules.mut_calls_on(r)):
                    bad = 'rejected seek modifies the backend'
            else:
                bad = 'unclassified exit'
            if bad:
                break
        if not bad and (not n_ok or not n_err):
            bad = 'seek has no %s path' % ('accepting' if not n_ok else 'rejecting')
        # pos() reports the field that seek sets
        if not bad and posfn:
            pev, pp = rules.evaluate(posfn[0])
            pr = single_return(pp) if pp else None
            want = ('in', (1, 'deref', POS)) if adt == CURSOR else sym.mk_len(('in', (1, 'deref')))
            got = pr.ret if pr is not None else None
            for _ in range(3):
                if got is None or got == want:
                    break
                got = resolve_self_trait_calls(F, posfn[0], rules.inline_pure(F, got))
            if got is None or got != want:
                bad = 'pos() does not return the quantity that seek establishes (returns %s)' % (sym.show(pr.ret) if pr else '?')
        if bad:
            ctx.bad('R6', role, b.defpath, bad, loc=rules.loc(b), key=key)
        else:
            ctx.ok('R6', role, b.defpath, 'Ok => p <= len and position := p; Err => p > len and nothing written; pos() reads the same quantity', key=key)
    if n < 4:
        ctx.bad('R6', 'floor: Seek impls of provided backends', 'backends', 'only %d found (4 expected: Cursor, Vec, SmallVec, Reverse)' % n, key='R6/floor/seek')


def check_maybe_exhausted_sources(ctx, F):
    """ReadWords::maybe_exhausted() may only answer `false` when the next read certainly yields a word.  An iterator's
    size_hint upper bound says nothing about that (it may be None or loose while the iterator is already empty); only the
    *lower* bound (> 0) or an exact remaining count justify `false`.  Rule: a maybe_exhausted override whose answer is
    computed from `size_hint().1` is refuted; from `size_hint().0`, `remaining()`, `is_exhausted()` or the trait default it
    is accepted."""
    n = 0
    for b in rules.impl_bodies(F, 'backends::ReadWords', 'maybe_exhausted'):
        if '::tests::' in b.defpath:
            continue
        ev, paths = rules.evaluate(b)
        terms = []
        for r in paths or []:
            if r.ret is not None:
                terms.append(r.ret)
            terms += [t for t, v, _ in r.preds]
        uses_upper = any(sym.contains(t, lambda x: isinstance(x, tuple) and x and x[0] == 'proj' and x[2] == ('f', '1') and isinstance(x[1], tuple) and x[1][0] == 'call' and str(x[1][1]).endswith('Iterator::size_hint')) for t in terms)
        uses_hint = any(sym.contains(t, lambda x: isinstance(x, tuple) and x and x[0] == 'call' and str(x[1]).endswith('Iterator::size_hint')) for t in terms)
        if not uses_hint:
            continue
        n += 1
        ctx.touch(b)
        key = 'R6/maybe-exhausted-source/' + b.defpath
        role = 'maybe_exhausted() says `false` only on evidence that a word is left'
        if uses_upper:
            ctx.bad('R6', role, b.defpath, 'the answer is computed from the *upper* bound of the iterator\'s size_hint: an iterator with a loose or unknown upper bound (filter, take_while, from_fn) that is already empty makes the backend claim '
                    '"certainly more data" although the next read returns None, so a decoder that consumed everything reports that it is not exhausted', key=key, loc=rules.loc(b))
        else:
            ctx.ok('R6', role, b.defpath, 'derived from the lower bound of size_hint', key=key)
    ctx.extra['maybe_exhausted_size_hint_overrides'] = n


def check_true_answer_unused(ctx, F):
    """`maybe_exhausted() == true` says nothing (it is the trait's default answer): only `false` is a promise.  A coder that
    stops reading because the backend answered `true` treats "don't know" as "empty" and truncates its input on every backend
    that keeps the default.  Rule, over every function of the library that both reads words and asks the question: on the
    path where the answer is `true` a read of the backend still follows (or the function is itself an advisory query that
    forwards the answer).  Today no library function branches on the answer at all; the rule instance count is reported."""
    def is_q(x):
        return isinstance(x, tuple) and x and x[0] == 'call' and str(x[1]).endswith('ReadWords::maybe_exhausted')
    n_fn = n_br = 0
    for b in F.bodies:
        if b.promoted is not None or b.dk not in ('Fn', 'AssocFn') or '::tests::' in b.defpath or b.defpath.startswith('pybindings'):
            continue
        if not any(facts.callee_name(t) == 'maybe_exhausted' for _, t in b.calls()):
            continue
        ev, paths = rules.evaluate(b)
        if not paths:
            continue
        reads_somewhere = any(e['kind'] == 'call' and e['name'] == 'read' and 'ReadWords' in str(e.get('callee', '')) for r in paths for e in r.events)
        if not reads_somewhere:
            continue
        n_fn += 1
        key = 'R6/true-answer-unused/' + b.defpath
        role = 'a `true` answer of maybe_exhausted() does not stop the reading'
        bad = None
        seen = False
        for r in paths:
            for i, e in enumerate(r.events):
                if e['kind'] != 'branch' or not sym.contains(e['term'], is_q):
                    continue
                seen = True
                # outcome `true` of the query: the branch term is the call itself (or its negation)
                t, v = e['term'], bool(e['value'])
                while isinstance(t, tuple) and t and t[0] == 'not':
                    t, v = t[1], not v
                if not is_q(t):
                    bad = bad or ('unknown', 'the answer is combined into a condition the rule cannot read')
                    continue
                if not v:
                    continue
                later_read = any(x['kind'] == 'call' and x['name'] == 'read' and 'ReadWords' in str(x.get('callee', '')) for x in r.events[i + 1:])
                if not later_read and r.end in ('return', 'backedge'):
                    if r.end == 'return':
                        bad = ('bad', 'when the backend answers `true` (the default of every backend that does not override the query) the function returns without a further read, while it goes on reading on `false`')
        if not seen:
            continue
        n_br += 1
        ctx.touch(b)
        if bad and bad[0] == 'bad':
            ctx.bad('R6', role, b.defpath, bad[1] + ': input is truncated on backends with the default answer', key=key, loc=rules.loc(b))
        elif bad:
            ctx.unresolved('R6', role, b.defpath, bad[1], key=key)
        else:
            ctx.ok('R6', role, b.defpath, 'every `true` outcome is followed by a read', key=key)
    ctx.extra['functions_reading_and_asking_maybe_exhausted'] = n_fn
    ctx.extra['of_which_branch_on_the_answer'] = n_br


def check_maybe_full_sources(ctx, F):
    """WriteWords::maybe_full() may answer `false` only when the next write certainly succeeds (the default answers `true`).
    For the buffer-backed sinks the rule puts the answer next to the refusing exit of the *same impl's* write: the state in
    which write() refuses must be one in which maybe_full() says `true`.  An override that asks the wrapped value (the forward
    cursor inside a reversed one) answers for the wrong direction."""
    n = 0
    for b in F.bodies:
        if b.promoted is not None or b.name != 'maybe_full' or b.impl_trait != 'backends::WriteWords' or '::tests::' in b.defpath or b.dk != 'AssocFn':
            continue
        ops = [o for o in F.bodies if o.promoted is None and o.name == 'write' and o.impl_trait == 'backends::WriteWords' and o.impl_trait_ref == b.impl_trait_ref]
        base = cursor_base(ops[0]) if ops else None
        if not ops or base is None:
            continue          # Vec / SmallVec (never full) and forwarding wrappers are covered by the delegation rules
        n += 1
        ctx.touch(b)
        key = 'R6/maybe-full-source/' + b.defpath
        role = 'maybe_full() says `true` in every state in which write() refuses'
        _, mp = rules.evaluate(b)
        rm = single_return(mp or [])
        oev, opaths = rules.evaluate(ops[0])
        if rm is None or not opaths:
            ctx.unresolved('R6', role, b.defpath, 'maybe_full has several paths / write not evaluated', key=key)
            continue
        answer = rm.ret

        resolve = lambda t: resolve_self_trait_calls(F, b, t)
        for _ in range(4):
            answer = resolve(rules.inline_pure(F, answer))
        bad = None
        n_fail = 0
        for r in opaths:
            if r.end != 'return' or rules.ret_shape(r.ret)[0] != 'Err':
                continue
            n_fail += 1
            d = dbmmod.DBM()
            preds = list(r.preds) + [(answer, 0, None)]      # the refusing state of write() together with "maybe_full() == false"
            dbmmod.harvest(d, preds, extra=inv_extra(base))
            d.close()
            if not d.inconsistent():
                bad = 'write() refuses in a state in which maybe_full() (= %s) can be false: the sink then promises room it does not have (the answer is taken from the wrapped cursor, whose free space is at the other end of the buffer)' % sym.show(answer)[:90]
        if bad:
            ctx.bad('R6', role, b.defpath, bad, key=key, loc=rules.loc(b))
        elif not n_fail:
            ctx.unresolved('R6', role, b.defpath, 'write() has no refusing exit', key=key)
        else:
            ctx.ok('R6', role, b.defpath, 'answer %s is true on all %d refusing exit(s) of write()' % (sym.show(answer)[:60], n_fail), key=key)
    ctx.extra['maybe_full_overrides_of_buffer_sinks'] = n


def check_cursor_copies_keep_pos(ctx, F):
    """A view or a copy of a cursor (as_view, as_mut_view, cloned, ..: `&self` / `&mut self` -> Cursor) is a cursor over the
    same words *at the same position*: a decoder that is taken apart, whose cursor is copied and which is put together again
    must go on reading where it was."""
    n = 0
    for b in F.bodies:
        if b.promoted is not None or b.dk != 'AssocFn' or b.self_adt != CURSOR or b.impl_trait is not None or '::tests::' in b.defpath or b.vis != 'pub':
            continue
        if b.receiver_kind() not in ('&self', '&mut self') or b.arg_count != 1:
            continue
        sig = b.raw.get('sig') or ''
        if '->' not in sig or not sig.split('->')[-1].strip().startswith(CURSOR + '<'):
            continue
        n += 1
        ctx.touch(b)
        key = 'R6/cursor-copy-keeps-pos/' + b.defpath
        role = 'a view / copy of a cursor keeps the position'
        _, paths = rules.evaluate(b)
        rr = single_return(paths or [])
        if rr is None:
            ctx.unresolved('R6', role, b.defpath, 'several paths', key=key)
            continue
        t = rr.ret
        for _ in range(2):
            t = rules.inline_pure(F, t)
        if not (isinstance(t, tuple) and t and t[0] == 'agg' and t[3] and 'pos' in t[3]):
            ctx.unresolved('R6', role, b.defpath, 'the result is not a Cursor literal (%s)' % sym.show(t)[:60], key=key)
            continue
        pos = t[2][t[3].index('pos')]
        if pos == ('in', (1, 'deref', POS)):
            ctx.ok('R6', role, b.defpath, 'pos: self.pos', key=key)
        else:
            ctx.bad('R6', role, b.defpath, 'the returned cursor starts at %s instead of self.pos: a reader built on the copy re-reads (or skips) words the original had already passed' % sym.show(pos)[:60], key=key, loc=rules.loc(b))
    ctx.extra['cursor_view_functions'] = n


def check_extend_stops(ctx, F):
    """`extend_from_iter` hands the words to `write` one by one and stops at the first refusal: after a refused word no
    further word reaches the sink (a sink whose failure is transient would otherwise receive a stream with a hole), and the
    caller's iterator is not drained past the failure.  Decided on the trait's provided body (which every sink without an
    override inherits): in loop form, each iteration that goes on has examined the result of its write (`?` or a match); in
    adaptor form, the closure that writes is driven by a short-circuiting adaptor (try_for_each / try_fold), not by
    fold / for_each / map, which evaluate the closure for every remaining item."""
    TR = 'backends::WriteWords'
    key = 'R2/extend-stops-at-first-refusal/' + TR
    role = 'extend_from_iter stops at the first refused word'
    bs = [b for b in F.bodies if b.promoted is None and b.name == 'extend_from_iter' and b.trait == TR and b.impl is None]
    if not bs:
        return ctx.bad('R2', role, TR, 'provided method not found (public anchor missing)', key=key)
    b = bs[0]
    ctx.touch(b)
    ev, paths = rules.evaluate(b)
    is_write = lambda e: e['kind'] == 'call' and e['callee'].endswith('WriteWords::write')
    bad = unk = None
    n_sites = 0
    for r in paths or []:
        ws = [e for e in r.events if is_write(e)]
        if not ws:
            continue
        n_sites += 1
        if r.end == 'backedge':
            res = ws[-1]['result']
            examined = any(t[0] == 'discr' and ((t[1] == ('try', res) and sym.discr_variant(t, v) == 'Continue') or (t[1] == res and sym.discr_variant(t, v) == 'Ok')) for t, v, _ in r.preds)
            if not examined:
                bad = 'a loop iteration goes on to the next word without having examined the result of write()'
    for cb in F.closures_of(b):
        _, cp = rules.evaluate(cb)
        if not any(is_write(e) for r in cp or [] for e in r.events):
            continue
        n_sites += 1
        drivers = set()
        for r in paths or []:
            for e in r.events:
                if e['kind'] == 'call' and any(sym.contains(a, lambda x: isinstance(x, tuple) and x and x[0] == 'agg' and isinstance(x[1], tuple) and x[1][0] == 'closure' and x[1][1] == cb.defpath) for a in e['args'] if isinstance(a, tuple)):
                    drivers.add(e['callee'])
        if any(d.endswith(('::try_for_each', '::try_fold')) for d in drivers) and not any(d.endswith(('Iterator::fold', 'Iterator::for_each', 'Iterator::map')) for d in drivers):
            continue
        if any(d.endswith(('Iterator::fold', 'Iterator::for_each')) for d in drivers):
            bad = 'the words are written by a closure driven by %s, which calls it for every remaining item: after a refused word the sink keeps receiving the following ones (a hole in the stream) and the iterator is drained' % sorted(drivers)[0].split('::')[-1]
        else:
            unk = 'the writing closure is driven by %s' % sorted(drivers)
    if bad:
        return ctx.bad('R2', role, b.defpath, bad, key=key, loc=rules.loc(b))
    if unk or not n_sites:
        return ctx.unresolved('R2', role, b.defpath, unk or 'no call of write() found', key=key)
    return ctx.ok('R2', role, b.defpath, 'every write is examined before the next item is taken', key=key)


def check_positional_ctors(ctx, F):
    """Constructors that take a position accept exactly what seek accepts (p <= len): a position pos() can report and
    seek() can restore must also be usable to re-open the buffer."""
    n = 0
    for b in F.bodies:
        if b.promoted is not None or b.dk != 'AssocFn' or b.self_adt != CURSOR or not (b.name or '').startswith('new_at_pos') or '::tests::' in b.defpath:
            continue
        n += 1
        ev, paths = rules.evaluate(b)
        ctx.touch(b)
        key = 'R6/ctor-position/%s' % b.defpath
        role = 'positional constructor accepts exactly the positions seek accepts'
        bad = None
        n_ok = n_err = 0
        for r in paths or []:
            if r.end != 'return':
                continue
            sh = rules.ret_shape(r.ret)
            d = rules.path_dbm(r)
            lens = {x for t, v, _ in r.preds for x in sym.subterms(t) if isinstance(x, tuple) and x and x[0] == 'len'}
            if sh[0] == 'Ok':
                n_ok += 1
                if not any(d.entails_le(('arg', 2), L) for L in lens):
                    bad = 'an accepted position is not proven <= len'
            elif sh[0] == 'Err':
                n_err += 1
                if not any(d.entails_le(L, ('arg', 2), strict=True) for L in lens):
                    bad = 'a rejected position is not proven > len: the one-past-the-end position len, which pos() reports after the last word and seek() accepts, is refused'
        if not bad and (not n_ok or not n_err):
            bad = 'no %s path' % ('accepting' if not n_ok else 'rejecting')
        if bad:
            ctx.bad('R6', role, b.defpath, bad, key=key, loc=rules.loc(b))
        else:
            ctx.ok('R6', role, b.defpath, 'Ok => pos <= len; Err => pos > len', key=key)
    if n < 2:
        ctx.unresolved('R6', 'positional constructor accepts exactly the positions seek accepts', CURSOR, 'only %d positional constructors found (2 confirmed by reading)' % n, key='R6/ctor-position/floor')


# ---------------------------------------------------------------- clause 5/6

def check_into_reversed(ctx, F):
    """into_reversed mirrors the position on every path: pos' = len(buf) - pos (and reverses the data unconditionally)."""
    bs = [b for b in F.bodies if b.promoted is None and b.name == 'into_reversed' and b.self_adt == CURSOR and b.dk == 'AssocFn']
    key = 'R6/into-reversed-mirrors/' + CURSOR
    role = 'into_reversed mirrors the position (pos\' = len - pos) and reverses the data on every path'
    if not bs:
        ctx.bad('R6', role, CURSOR, 'Cursor::into_reversed not found (public anchor missing)', key=key)
        return
    b = bs[0]
    ev, paths = rules.evaluate(b)
    ctx.touch(b)
    base = cursor_base(b)
    bad = None
    n = 0
    for r in paths or []:
        if r.end != 'return':
            continue
        n += 1
        posf = ev.final_read(r, base + (POS,))
        want = sym.mk_bin('Sub', sym.mk_len(('in', base + (BUF,))), ('in', base + (POS,)))
        if not effects_affine_eq(posf, want):
            bad = 'a path leaves pos\' = %s (expected len(buf) - pos): reads/writes after the reversal address the wrong cell' % sym.show(posf)[:80]
        revs = [e for e in r.events if e['kind'] == 'call' and e['name'] == 'reverse']
        if len(revs) != 1:
            bad = bad or 'a path calls slice::reverse %d times' % len(revs)
    if bad or not n:
        ctx.bad('R6', role, b.defpath, bad or 'no return path', key=key, loc=rules.loc(b))
    else:
        ctx.ok('R6', role, b.defpath, '%d path(s): pos\' = len - pos, one reverse()' % n, key=key)
    # Reverse<Cursor>::into_reversed = self.0.into_reversed().0
    rb = [x for x in F.bodies if x.promoted is None and x.name == 'into_reversed' and x.self_adt == REVERSE]
    k2 = 'R4/into-reversed-delegates/' + REVERSE
    if rb:
        ev2, p2 = rules.evaluate(rb[0])
        ok = False
        for r in p2 or []:
            calls = [e for e in r.events if e['kind'] == 'call' and e['name'] == 'into_reversed']
            ok = len(calls) == 1 and r.ret is not None and sym.contains(r.ret, lambda y: y == calls[0]['result'])
        (ctx.ok if ok else ctx.bad)('R4', 'Reverse<Cursor>::into_reversed unwraps and reverses the inner cursor once', rb[0].defpath, 'self.0.into_reversed().0' if ok else 'not a single delegation', key=k2)


def effects_affine_eq(a, b):
    fa, fb = sym.affine(a), sym.affine(b)
    if fa is None or fb is None:
        return a == b
    d = sym.affine_sub(fa, fb)
    return not d[0] and d[1] == 0


def check_sticky_and_delegation(ctx, F):
    # adapters hold a Fuse
    for name in ('backends::FallibleIteratorReadWords', 'backends::InfallibleIteratorReadWords'):
        a = F.adts.get(name)
        key = 'R1/fuse/%s' % name
        if a is None:
            ctx.bad('R1', 'iterator adapter is fused', name, 'adapter type not found (anchor missing)', key=key)
            continue
        tys = [F.ty_s(f['ty']) for f in a['variants'][0]['fields']]
        if any(t.startswith('core::iter::Fuse<') for t in tys):
            ctx.ok('R1', 'iterator adapter is fused (None is sticky)', name, 'field type ' + tys[0], key=key)
        else:
            ctx.bad('R1', 'iterator adapter is fused (None is sticky)', name, 'no field of type core::iter::Fuse<_>: %s' % tys, key=key)
    # Reverse<B>: every ReadWords / Bounded* / Pos method is a delegation to self.0 with the same method
    n = 0
    for b in F.bodies:
        if b.promoted is not None or b.dk != 'AssocFn' or b.impl_trait is None:
            continue
        st = rules.self_type(b)
        if st is None or st.get('adt') != REVERSE:
            continue
        if b.impl_trait not in ('backends::ReadWords', 'backends::BoundedReadWords', 'Pos'):
            continue
        a0 = rules.first_type_arg(F, st)
        if a0 is not None and a0.get('k') == 'adt' and a0['adt'] == CURSOR:
            continue
        ev, paths = rules.evaluate(b)
        ctx.touch(b)
        d = delegation_of(ev, paths) if paths else None
        key = 'R4/reverse-delegates/%s' % b.defpath
        n += 1
        if d and d[0]['fn'].get('trait') == b.impl_trait and d[0]['name'] == b.name and d[0]['args'] and d[0]['args'][0][0] == 'ref' and d[0]['args'][0][1] == (1, 'deref', ('f', '0')):
            ctx.ok('R4', 'Reverse<B> delegates unchanged', b.defpath, 'self.0.%s()' % b.name, key=key)
        else:
            ctx.bad('R4', 'Reverse<B> delegates unchanged', b.defpath, 'body is not `self.0.%s(..)`' % b.name, loc=rules.loc(b), key=key)
    if n < 8:
        ctx.bad('R4', 'floor: Reverse delegations', REVERSE, 'only %d found' % n, key='R4/floor/reverse')
    # sibling delegation on `self` must stay within the same instantiation (same Word, same Semantics)
    fam = ('backends::ReadWords', 'backends::BoundedReadWords', 'backends::WriteWords', 'backends::BoundedWriteWords')
    nsib = 0
    for b in F.bodies:
        if b.promoted is not None or b.dk != 'AssocFn' or b.impl_trait not in fam or not b.file.endswith('backends.rs'):
            continue
        own = _trait_args(b.impl_trait_ref)
        for blk, t in b.calls():
            c = callee(t)
            if not c or c.get('trait') not in fam:
                continue
            a0 = t['args'][0] if t['args'] else None
            if not a0 or a0['k'] not in ('copy', 'move'):
                continue
            # receiver is `self` itself (not self.0 / an inner backend)?
            ev, paths = rules.evaluate(b)
            if not paths:
                continue
            recv_self = False
            for r in paths:
                for e in r.events:
                    if e['kind'] == 'call' and e['block'] == blk and e['args'] and e['args'][0][0] == 'ref' and e['args'][0][1] == (1, 'deref'):
                        recv_self = True
            if not recv_self:
                continue
            nsib += 1
            theirs = [F.ty_s(a['ty']) if 'ty' in a else a.get('const') for a in c['args'][1:]]
            key = 'R4/sibling-instantiation/%s->%s' % (b.defpath, c['def'])
            if theirs[:len(own)] == own[:len(theirs)]:
                ctx.ok('R4', 'query delegates to the sibling trait with the same type arguments', b.defpath, '%s<%s>' % (c['def'], ', '.join(map(str, theirs))), key=key)
            else:
                ctx.bad('R4', 'query delegates to the sibling trait with the same type arguments', b.defpath,
                        'impl is for <%s> but it asks %s<%s>: the answer belongs to a different read/write semantics' % (', '.join(own), c['def'], ', '.join(map(str, theirs))),
                        loc=rules.loc(b, t['span']['at']), key=key)
    ctx.extra['sibling_delegations'] = nsib
    # provided query methods: is_exhausted == (remaining()==0), is_full == (space_left()==0)
    for trait, meth, q in (('backends::BoundedReadWords', 'is_exhausted', 'remaining'), ('backends::BoundedWriteWords', 'is_full', 'space_left')):
        bs = [b for b in F.bodies if b.promoted is None and b.trait == trait and b.name == meth and b.impl is None]
        key = 'R4/default/%s::%s' % (trait, meth)
        if not bs:
            ctx.bad('R4', 'provided query method', trait + '::' + meth, 'default body not found', key=key)
            continue
        ev, paths = rules.evaluate(bs[0])
        r = single_return(paths) if paths else None
        ok = False
        isq = lambda o: o[0] == 'call' and o[1] == trait + '::' + q
        if r is not None and r.ret[0] == 'bin' and r.ret[1] == 'Eq':
            ops = (r.ret[2], r.ret[3])
            ok = sym.mk_int(0) in ops and any(isq(o) for o in ops)
        elif r is not None and r.ret[0] == 'bin' and r.ret[1] in ('Lt', 'Le', 'Gt', 'Ge'):
            # the same test on an unsigned count: q() < 1, q() <= 0, 1 > q(), 0 >= q()
            op, a, c = r.ret[1], r.ret[2], r.ret[3]
            ok = (op == 'Lt' and isq(a) and c == sym.mk_int(1)) or (op == 'Le' and isq(a) and c == sym.mk_int(0)) or (op == 'Gt' and isq(c) and a == sym.mk_int(1)) or (op == 'Ge' and isq(c) and a == sym.mk_int(0))
        (ctx.ok if ok else ctx.bad)('R4', 'provided query method is `%s() == 0`' % q, trait + '::' + meth,
                                    'default body returns %s' % (sym.show(r.ret) if r else '?'), key=key)


def _trait_args(trait_ref):
    """'<X as path::Trait<A, B>>' -> ['A', 'B'] (top-level split)."""
    if not trait_ref or ' as ' not in trait_ref:
        return []
    t = trait_ref.rsplit(' as ', 1)[1]
    if t.endswith('>'):
        t = t[:-1]
    if '<' not in t:
        return []
    inner = t[t.index('<') + 1:]
    if inner.endswith('>'):
        inner = inner[:-1]
    out, depth, cur = [], 0, ''
    for ch in inner:
        if ch in '<([':
            depth += 1
        elif ch in '>)]':
            depth -= 1
        if ch == ',' and depth == 0:
            out.append(cur.strip())
            cur = ''
        else:
            cur += ch
    if cur.strip():
        out.append(cur.strip())
    return out


def check_cursor_position_carried(ctx, F):
    """A function that takes a cursor apart (`into_buf_and_pos`) and hands back a value that contains a cursor again is a
    converter: the position it took out goes into what it builds (mirrored, for a reversal).  Dropping it and starting the new
    cursor at an end of the buffer is right only for a cursor that was there already - a decoder that has been read from, or
    sought, silently restarts.  (A function that only returns the buffer, e.g. to give it back with an error, is no converter.)"""
    n = 0
    for b in F.bodies:
        if b.promoted is not None or '::tests' in b.defpath or b.defpath.startswith(('pybindings', '<pybindings')) or b.dk not in ('Fn', 'AssocFn'):
            continue
        if not any(str((callee(t) or {}).get('def', '')).endswith('Cursor::<Word, Buf>::into_buf_and_pos') for _, t in b.calls()):
            continue
        sig = b.raw.get('sig') or ''
        rty = sig.split(' -> ', 1)[1] if ' -> ' in sig else ''
        if 'Cursor<' not in rty:
            continue
        n += 1
        key = 'R6/cursor-position-carried/' + b.defpath
        role = 'a converter that takes a cursor apart puts its position into the cursor it builds'
        try:
            _, paths = rules.evaluate(b)
        except sym.TooManyPaths:
            ctx.unresolved('R6', role, b.defpath, 'too many paths', key=key)
            continue
        ctx.touch(b)
        bad = None
        for r in paths or []:
            if r.end != 'return' or r.ret is None:
                continue
            for e in r.events:
                if e['kind'] == 'call' and str(e['callee']).endswith('into_buf_and_pos'):
                    res = e['result']
                    is_buf = lambda x: isinstance(x, tuple) and len(x) == 3 and x[0] == 'proj' and x[1] == res and x[2] == ('f', '0')
                    rebuilt = sym.contains(r.ret, lambda x: isinstance(x, tuple) and x and ((x[0] == 'call' and 'Cursor' in str(x[1])) or (x[0] == 'agg' and isinstance(x[1], tuple) and x[1][0] == 'adt' and str(x[1][1]).endswith('Cursor'))) and sym.contains(x, is_buf))
                    if not rebuilt:
                        continue          # the buffer is handed back as it is (e.g. with an error): no cursor is built from it
                    pos_used = sym.contains(r.ret, lambda x: isinstance(x, tuple) and len(x) == 3 and x[0] == 'proj' and x[1] == res and x[2] == ('f', '1'))
                    if not pos_used:
                        bad = bad or ('the position taken out of the cursor at %s does not reach the returned value: the new cursor starts at an end of the buffer whatever had been read or sought before' % e['span'].split('-')[0])
        if bad:
            ctx.bad('R6', role, b.defpath, bad, key=key, loc=rules.loc(b))
        else:
            ctx.ok('R6', role, b.defpath, 'the position component flows into the result on every returning path', key=key)
    return n


def run(ctx):
    for cfg, F in ctx.facts_by_config.items():
        if cfg != 'default':
            continue
        check_invariant(ctx, F)
        check_contracts(ctx, F)
        check_seek(ctx, F)
        check_positional_ctors(ctx, F)
        check_maybe_exhausted_sources(ctx, F)
        check_true_answer_unused(ctx, F)
        check_extend_stops(ctx, F)
        check_cursor_copies_keep_pos(ctx, F)
        check_maybe_full_sources(ctx, F)
        check_into_reversed(ctx, F)
        check_sticky_and_delegation(ctx, F)
        check_cursor_position_carried(ctx, F)
        import props.C20 as c20
        c20.check_size_hint_arithmetic(ctx, F, file_suffix='backends.rs')      # a sink that sizes an allocation by a loose size_hint panics where the write should succeed
    ctx.assume('SafeBuf contract: as_ref()/as_mut() of a SafeBuf never shrink (unsafe trait, implementors are std types only; checked under C20)')
    ctx.assume('Rust aliasing: a callee can only mutate what it receives by &mut; `&mut [T]` cannot change a slice length')
    ctx.assume('the Cursor invariant is only relied upon for call sequences over the backend traits (C17 quantifier); buffers manipulated through Cursor::buf_mut are in the quantifier of C20 and checked there')
    ctx.assume('user supplied iterators / callbacks honour Iterator / ExactSizeIterator contracts')
    return {
        'level': 'other',
        'explanation': 'Static analysis of the extracted MIR of src/backends.rs: difference-bound abstract interpretation (pos <= len(buf)) over all paths of every Cursor constructor/mutator, '
                       'contract check of remaining()/space_left() against the success/failure paths of the paired read/write, inverse-cell composition, seek acceptance exactness, '
                       'delegation shape of Reverse<B>. Decides the structural core of C17 for all inputs and histories by induction over calls; not decided: into_reversed being observationally a no-op '
                       '(needs slice::reverse as an index map) and the behaviour of user supplied iterators/callbacks.',
        'trusted_base': ['rustc type checker + MIR construction (nightly 1.97)', 'cfacts extractor', 'std contracts of Vec/SmallVec/Fuse/ExactSizeIterator (listed in assumptions)'],
    }
