"""C20 — no sequence of safe API calls causes undefined behaviour (claimed: obligation audit).

R8: every call whose callee is `unsafe` gets exactly one obligation kind and must be discharged:

  BOUND          index / range within the slice, proved from dominating facts (difference bounds, helpers inlined)
  NONZERO-LOCAL  argument of a *_nonzero_unchecked is non-zero by a dominating guard (tabled shift idioms)
  COMPARATOR     unreachable_unchecked on the Ok arm of a binary search whose comparator never returns Equal
  PRECOND        crate-local unsafe fn: preconditions entailed at every call site (shared with C13)
  TRUSTED-TYPE   core guarantee (NonZero::get() != 0); forwards inside `unsafe fn`s
  TRUSTED-DATA   safety depends on table *contents*; not machine checked, enumerated in `assumptions`. The structural
                 half IS checked: every value of the owning type is produced from validated data (strict form of C19.1:
                 a generic, user-implementable IterableEntropyModel does not count as validated), lookup tables have
                 their length established, and no safe fn hands out `&mut` to an invariant-carrying field.

A site that matches no rule is a violation ("unsafe operation without a recognised guard"): new unsafe code fails
closed by design.  Also checked: `unsafe impl`s are for std types only; no transmute / raw-pointer dereference.
"""
import re
from vlib import sym, rules, effects, dbm as dbmmod
from vlib.facts import callee, callee_def
import props.C13 as c13
import props.C17 as c17
import props.C19 as c19

# results of these callees are computed by user code (methods of user-supplied generic parameters)
USER_CODE = ('probability::distribution::',)

TRUSTED_DATA = {
    # (self adt or fn path fragment, method) -> (invariant relied upon, owning type)
    ('stream::model::categorical::contiguous::ContiguousCategoricalEntropyModel', 'quantile_function'):
        ('cdf is non-empty, cdf[0] == 0 and strictly increasing (mod 2^BITS): the binary search lands in 1..len-1 and differences are non-zero', 'stream::model::categorical::contiguous::ContiguousCategoricalEntropyModel'),
    ('stream::model::categorical::contiguous::ContiguousCategoricalEntropyModel', 'left_cumulative_and_probability'):
        ('consecutive cdf entries differ (non-zero probabilities)', 'stream::model::categorical::contiguous::ContiguousCategoricalEntropyModel'),
    ('stream::model::categorical::non_contiguous::NonContiguousCategoricalDecoderModel', 'quantile_function'):
        ('cdf is non-empty, cdf[0].0 == 0 and strictly increasing: the binary search lands in 1..len-1 and differences are non-zero', 'stream::model::categorical::non_contiguous::NonContiguousCategoricalDecoderModel'),
    ('stream::model::categorical::lookup_contiguous::ContiguousLookupDecoderModel', 'quantile_function'):
        ('lookup_table has 2^PRECISION entries, each < cdf.len()-1; cdf strictly increasing at reachable indices', 'stream::model::categorical::lookup_contiguous::ContiguousLookupDecoderModel'),
    ('stream::model::categorical::lookup_noncontiguous::NonContiguousLookupDecoderModel', 'quantile_function'):
        ('lookup_table has 2^PRECISION entries, each < cdf.len()-1; cdf strictly increasing at reachable indices', 'stream::model::categorical::lookup_noncontiguous::NonContiguousLookupDecoderModel'),
    ('stream::model::quantize::LeakilyQuantizedDistribution', 'quantile_function'):
        ('the underlying distribution has a monotone cdf, so right > left cumulative (documented as a validity, not memory-safety, requirement)', 'stream::model::quantize::LeakilyQuantizedDistribution'),
    ('stream::model::quantize::LeakilyQuantizedDistributionIter', 'next'):
        ('the underlying distribution has a monotone cdf, so right > left cumulative', 'stream::model::quantize::LeakilyQuantizedDistribution'),
    ('stream::model::uniform::UniformModel', 'left_cumulative_and_probability'):
        ('last bin width 2^P - last_symbol * probability_per_bin is non-zero (constructor arithmetic)', 'stream::model::uniform::UniformModel'),
    ('stream::model::uniform::UniformModel', 'quantile_function'):
        ('last bin width 2^P - last_symbol * probability_per_bin is non-zero (constructor arithmetic)', 'stream::model::uniform::UniformModel'),
    ('stream::model::uniform::UniformModel', 'symbol_table'):
        ('last bin width is non-zero (constructor arithmetic)', 'stream::model::uniform::UniformModel'),
    ('symbol::huffman::EncoderHuffmanTree', 'try_from_probabilities'):
        ('indices popped from the heap are < nodes.len() = 2n-1 (builder bookkeeping; heap non-emptiness is checked before allocation)', 'symbol::huffman::EncoderHuffmanTree'),
    ('symbol::huffman::EncoderHuffmanTree', 'encode_symbol_suffix'):
        ('parent indices stored in `nodes` are valid indices; the entry index is guarded by `symbol <= len/2`', 'symbol::huffman::EncoderHuffmanTree'),
    ('symbol::huffman::DecoderHuffmanTree', 'decode_symbol'):
        ('child indices stored in `nodes` are < 2*len, so node_index - num_symbols < len', 'symbol::huffman::DecoderHuffmanTree'),
}
TRUSTED_CALLEES = {
    ('stream::model::categorical::contiguous::ContiguousCategoricalEntropyModel', 'quantile_function'): ('get_unchecked', 'into_nonzero_unchecked'),
    ('stream::model::categorical::contiguous::ContiguousCategoricalEntropyModel', 'left_cumulative_and_probability'): ('into_nonzero_unchecked',),
    ('stream::model::categorical::non_contiguous::NonContiguousCategoricalDecoderModel', 'quantile_function'): ('get_unchecked', 'into_nonzero_unchecked'),
    ('stream::model::categorical::lookup_contiguous::ContiguousLookupDecoderModel', 'quantile_function'): ('get_unchecked', 'into_nonzero_unchecked'),
    ('stream::model::categorical::lookup_noncontiguous::NonContiguousLookupDecoderModel', 'quantile_function'): ('get_unchecked', 'into_nonzero_unchecked'),
    ('stream::model::quantize::LeakilyQuantizedDistribution', 'quantile_function'): ('into_nonzero_unchecked',),
    ('stream::model::quantize::LeakilyQuantizedDistributionIter', 'next'): ('into_nonzero_unchecked',),
    ('stream::model::uniform::UniformModel', 'new'): ('into_nonzero_unchecked',),
    ('stream::model::uniform::UniformModel', 'left_cumulative_and_probability'): ('into_nonzero_unchecked',),
    ('stream::model::uniform::UniformModel', 'quantile_function'): ('into_nonzero_unchecked',),
    ('stream::model::uniform::UniformModel', 'symbol_table'): ('into_nonzero_unchecked',),
    ('symbol::huffman::EncoderHuffmanTree', 'try_from_probabilities'): ('get_unchecked_mut',),
    ('symbol::huffman::EncoderHuffmanTree', 'encode_symbol_suffix'): ('get_unchecked',),
    ('symbol::huffman::DecoderHuffmanTree', 'decode_symbol'): ('get_unchecked',),
}
ENTRY_BOUND = {('symbol::huffman::EncoderHuffmanTree', 'encode_symbol_suffix'), ('symbol::huffman::DecoderHuffmanTree', 'decode_symbol')}
# owners whose *contents* unchecked code relies on: their producers must be strictly validated
STRICT_OWNERS = sorted({v[1] for v in TRUSTED_DATA.values() if v[1].startswith('stream::model::categorical')})
LOOKUP_OWNERS = ('stream::model::categorical::lookup_contiguous::ContiguousLookupDecoderModel',
                 'stream::model::categorical::lookup_noncontiguous::NonContiguousLookupDecoderModel')


def unsafe_sites(F):
    out = []
    for b in F.bodies:
        if b.promoted is not None or b.dk not in ('Fn', 'AssocFn', 'Closure') or '::tests::' in b.defpath:
            continue
        if b.defpath.startswith(('pybindings', '<pybindings')):
            continue
        ordn = {}
        for blk, t in b.calls():
            c = callee(t)
            if not c or not c.get('unsafe'):
                continue
            if c['def'].startswith('core::fmt::Arguments') and t['span'].get('exp'):
                continue        # format_args! expansion
            k = c.get('name') or c['def']
            ordn[k] = ordn.get(k, 0) + 1
            out.append({'body': b, 'block': blk, 'term': t, 'callee': c, 'ord': ordn[k]})
    return out


def owner_key(b):
    root = b
    F = b.facts
    if b.dk == 'Closure' and b.root:
        root = F.by_def.get(b.root, b)
    return (root.self_adt, root.name), root


def events_at(paths, blk):
    """(path, event index, event) for every enumerated path that executes the call in block `blk`."""
    for r in paths:
        for i, e in enumerate(r.events):
            if e['kind'] == 'call' and e['block'] == blk and e.get('unsafe'):
                yield r, i, e


def nz_value_terms(res, upto):
    """Terms known to be the value of a NonZero (result of NonZero*::get before event index `upto`)."""
    out = set()
    for e in res.events[:upto]:
        if e['kind'] == 'call' and e['name'] == 'get' and ('NonZero' in e['callee']):
            out.add(e['result'])
    return out


def try_nonzero_local(F, res, i, e):
    """Tabled idioms (DESIGN R8 NONZERO-LOCAL). Returns reason string or None."""
    x = e['args_val'][0]
    preds = res.preds[:rules.preds_before(res, i)]
    nz = nz_value_terms(res, i)
    one = lambda t: t[0] == 'k' and t[1] == 'one'

    def has_pred(pred_fn):
        return any(pred_fn(t, v) for t, v, _ in preds)

    from vlib import pow2
    canon = [c for c in (pow2.below_pow2(t, v) for t, v, _ in preds) if c is not None]

    def lt_pow(h, k_fn, want):
        # some dominating test says `(h < 2^E) == want` - in any spelling (`h < 1 << K`, `h >> K == 0`, ...) - with E accepted by k_fn
        return any(x == h and holds == bool(want) and k_fn(E) for x, E, holds in canon)

    def bits_minus(k):
        # E == <some type's BITS> - k
        ke = pow2.width_exp(k)

        def ok(E):
            if ke is None:
                return False
            d = pow2._exp_add(E, ke)
            atoms = list(d[0].values())
            return d[1] == 0 and len(atoms) == 1 and atoms[0][0] == 1 and atoms[0][1][0] == 'c' and atoms[0][1][1].endswith('BITS')
        return ok

    def equals(k):
        ke = pow2.width_exp(k)
        return lambda E: ke is not None and pow2.exp_cmp(E, ke) == 0

    # (2^P - r) / r + 1 with r >= 2: the quotient is below half the range of the type, so adding one cannot wrap to zero
    if x[0] == 'bin' and x[1] == 'Add' and one(x[3] if not one(x[2]) else x[2]):
        q = x[2] if one(x[3]) else x[3]
        while q[0] == 'cast':
            q = q[2]
        if q[0] == 'bin' and q[1] == 'Div':
            A, R = q[2], q[3]
            while R[0] == 'cast':
                R = R[2]
            if A[0] == 'bin' and A[1] == 'Sub.w' and A[2][0] == 'call' and str(A[2][1]).endswith('wrapping_pow2') and A[2][2] == (('c', 'PRECISION'),):
                RA = A[3]
                while RA[0] == 'cast':
                    RA = RA[2]
                two_or_more = has_pred(lambda t, v: t[0] == 'bin' and t[1] == 'Lt' and sym.is_int(t[2]) and t[2][1] >= 1 and (t[3] == R or sym.contains(R, lambda y: y == t[3])) and v == 1)
                if RA == R and two_or_more:
                    return '`(2^PRECISION - r) / r + 1` with r >= 2: the quotient is below 2^(PRECISION-1), so `+ 1` cannot wrap to zero'
    # argument itself asserted > 1 / != 0
    if has_pred(lambda t, v: t[0] == 'bin' and t[1] == 'Lt' and sym.is_int(t[2]) and t[2][1] >= 0 and t[3] == x and v == 1):
        return 'dominating assertion `%s > const`' % sym.show(x)[:40]
    core = x
    ors = []
    while core[0] == 'bin' and core[1] == 'BitOr':
        # h << k | q : non-zero if h << k is
        a, b2 = core[2], core[3]
        if a[0] == 'bin' and a[1] == 'Shl':
            core, ors = a, ors + [b2]
        elif b2[0] == 'bin' and b2[1] == 'Shl':
            core, ors = b2, ors + [a]
        else:
            break
    if core[0] == 'bin' and core[1] == 'Shl':
        h, k = core[2], core[3]
        if h in nz and lt_pow(h, bits_minus(k), 1):
            return '`%s` is a NonZero value below 1 << (BITS - %s): the left shift cannot truncate' % (sym.show(h)[:40], sym.show(k))
        # (h << (W - P)) with h < 1 << P
        if h in nz and k[0] == 'bin' and k[1] == 'Sub' and lt_pow(h, equals(k[3]), 1):
            return '`%s` is a NonZero value below 1 << %s: shifting left by %s cannot truncate' % (sym.show(h)[:40], sym.show(k[3]), sym.show(k))
    if core[0] == 'bin' and core[1] == 'Shr':
        h, k = core[2], core[3]
        if lt_pow(h, equals(k), 0):
            return '`%s` >= 1 << %s on this path: the right shift leaves a set bit' % (sym.show(h)[:40], sym.show(k))
    return None


def _no_underflow(d, t):
    """every builtin subtraction inside an index expression is proven not to wrap (release builds do not check)."""
    for x in sym.subterms(t):
        if isinstance(x, tuple) and x and x[0] == 'bin' and x[1] == 'Sub':
            if not d.entails_le(x[3], x[2]):
                return False
    return True


def _div_axioms(d, terms, nonempty):
    """x / k <= x, and x / k <= x - 1 when x >= 1 (k >= 2)."""
    for t in terms:
        for x in sym.subterms(t):
            if isinstance(x, tuple) and x and x[0] == 'bin' and x[1] == 'Div' and sym.is_int(x[3]) and x[3][1] >= 2:
                d.assume_nonneg(x)
                d.assume_le(x, x[2])
                if nonempty and d.entails_le(sym.mk_int(1), x[2]):
                    d.assume_le(x, x[2], strict=True)


def _drop_wrapping_guards(preds):
    """A guard such as `cdf.get(index + 1)` being Some tells `index + 1 < len` only if `index + 1` did not wrap (release
    builds do not check; `index` may be usize::MAX when it comes from the caller).  Such a predicate is kept as a fact only
    if the *other* predicates already bound the operand by a length (then the sum stays below isize::MAX + c)."""
    untrusted = lambda x: isinstance(x, tuple) and x and (x[0] == 'arg' or (x[0] == 'in' and isinstance(x[1][0], int) and x[1][0] >= 2))

    def risky_sums(t):
        out = []
        for x in sym.subterms(t):
            if isinstance(x, tuple) and x and x[0] == 'bin' and x[1] == 'Add':
                for a, c in ((x[2], x[3]), (x[3], x[2])):
                    if sym.is_int(c) and c[1] > 0 and sym.contains(a, untrusted):
                        out.append(a)
        return out
    plain = [p for p in preds if not risky_sums(p[0])]
    if len(plain) == len(preds):
        return preds
    d0 = dbmmod.DBM()
    dbmmod.harvest(d0, plain)
    lens = {x for t, v, b in preds for x in sym.subterms(t) if isinstance(x, tuple) and x and x[0] == 'len'}
    keep = list(plain)
    for p in preds:
        ops = risky_sums(p[0])
        if ops and all(any(d0.entails_le(a, L) for L in lens) for a in ops):
            keep.append(p)
    return keep


_VIEW_FNS = ('core::convert::AsRef::as_ref', 'core::convert::AsMut::as_mut', 'core::ops::Deref::deref', 'core::ops::DerefMut::deref_mut',
             'core::borrow::Borrow::borrow', 'core::borrow::BorrowMut::borrow_mut')


_UCP = {}


def _user_container_params(F, adt):
    """Generic parameters of `adt` whose *value* a caller can supply: some public function that returns the type takes an
    argument of exactly that parameter type (LazyContiguousCategoricalEntropyModel::from_..(probabilities: Pmf, ..)).  The
    containers of the other models (Vec, Box, slices) are chosen by the library's own constructors and have stable views."""
    import re
    k = (id(F), adt)
    if k in _UCP:
        return _UCP[k]
    out = set()

    def top_level(text):
        """comma-separated items of `text` at bracket depth 0."""
        items, depth, cur = [], 0, ''
        for ch in text:
            if ch in '<([':
                depth += 1
            elif ch in '>)]':
                depth -= 1
            if ch == ',' and depth == 0:
                items.append(cur.strip()); cur = ''
            else:
                cur += ch
        if cur.strip():
            items.append(cur.strip())
        return items
    if adt:
        for b in F.bodies:
            if b.promoted is not None or b.dk not in ('AssocFn', 'Fn') or b.vis != 'pub' or '::tests::' in b.defpath:
                continue
            sig = b.raw.get('sig') or ''
            if not sig.startswith('fn(') or ') -> ' not in sig:
                continue
            args, ret = sig[3:].rsplit(') -> ', 1)
            m = re.search(r'(?<![\w:])' + re.escape(adt) + r'<', ret)
            if not m:
                continue
            # generic arguments of the returned type
            depth, i0 = 0, m.end()
            j = i0
            while j < len(ret):
                if ret[j] == '<':
                    depth += 1
                elif ret[j] == '>':
                    if depth == 0:
                        break
                    depth -= 1
                j += 1
            gen = top_level(ret[i0:j])
            arg_tys = top_level(args)
            for name in gen:
                if re.fullmatch(r'[A-Z][A-Za-z0-9]*', name) and name in arg_tys:
                    out.add(name)
    _UCP[k] = out
    return out


_SAT = {}


def _sig_arg_types(body):
    """top-level argument types of the function's own signature: a value of such a (generic / impl Trait) type is handed in by the
    caller of this very function, so its `borrow()` / `as_ref()` is the caller's code"""
    k = id(body)
    if k in _SAT:
        return _SAT[k]
    sig = body.raw.get('sig') or ''
    out = set()
    if sig.startswith('fn('):
        depth, cur = 0, ''
        for ch in sig[3:]:
            if ch in '<([':
                depth += 1
            elif ch in '>)]':
                if ch == ')' and depth == 0:
                    break
                if not (ch == '>' and cur.endswith('-')):
                    depth -= 1
            if ch == ',' and depth == 0:
                out.add(cur.strip()); cur = ''
            else:
                cur += ch
        if cur.strip():
            out.add(cur.strip())
    out = {t[1:].strip() if t.startswith('&') else t for t in out} | out
    _SAT[k] = out
    return out


def _fresh_user_views(evaluator, st, term, c, args):
    """call hook: a view of a value whose type is a generic parameter is a separate fetch per call site."""
    if not c or c.get('def') not in _VIEW_FNS or not c.get('args') or not args:
        return None
    a0 = c['args'][0]
    ty = evaluator.F.types[a0['ty']] if isinstance(a0, dict) and 'ty' in a0 else None
    if not ty or ty.get('k') != 'param':
        return None
    if ty.get('name') not in _user_container_params(evaluator.F, evaluator.body.self_adt) and ty.get('name') not in _sig_arg_types(evaluator.body):
        return None
    inner = evaluator.deref_val(st, args[0]) if args[0][0] == 'ref' else args[0]
    return ('call', 'user-view@bb%s' % term.get('span', {}).get('at', '?') if False else 'user-view@%s' % id(term), (inner,), None)


def try_bound(F, res, i, e, assume_nonempty=False):
    """BOUND: get_unchecked(slice, idx | ..end). Returns reason or None."""
    if len(e['args_val']) != 2:
        return None
    sl = e['args_val'][0]
    idx = rules.inline_pure(F, e['args_val'][1])
    preds = [(rules.inline_pure(F, t), v, b) for t, v, b in res.preds[:rules.preds_before(res, i)]]
    preds = _drop_wrapping_guards(preds)
    ln = sym.mk_len(sl)
    d = dbmmod.DBM()
    if assume_nonempty:
        d.assume_le(sym.mk_int(1), ln)
    dbmmod.harvest(d, preds)
    _div_axioms(d, [idx] + [t for t, v, b in preds], assume_nonempty)
    dbmmod.harvest(d, preds)
    if idx[0] == 'agg' and isinstance(idx[1], tuple) and idx[1][0] == 'adt' and idx[1][1].endswith('RangeTo'):
        end = idx[2][0]
        if not sym.contains(end, lambda x: isinstance(x, tuple) and x and x[0] == 'bin' and x[1] == 'Sub'):
            d.assume_nonneg(end)
        if d.entails_le(end, ln) and _no_underflow(d, end):
            return 'range end %s <= len' % sym.show(end)[:50]
        return None
    if idx[0] == 'agg':
        return None
    if d.entails_le(idx, ln, strict=True) and _no_underflow(d, idx):
        return 'index %s < len by dominating guard(s)' % sym.show(idx)[:50]
    return None


def first_iteration_bound(F, res, i, e, assume_nonempty):
    """For an unchecked access indexed by a loop variable: the value it has when the loop is entered is in bounds."""
    idx = e['args_val'][1]
    loopvars = [x for x in sym.subterms(idx) if isinstance(x, tuple) and x and x[0] == 'loop']
    if not loopvars:
        # the entry access of a rotated walk sits in front of the loop: it is the entry itself
        return try_bound(F, res, i, e, assume_nonempty=assume_nonempty)
    m = {}
    enter_index = None
    for j, ev in enumerate(res.events[:i]):
        if ev['kind'] == 'loop_enter':
            for lv in loopvars:
                if lv[1] == ev['head'] and lv[2] in ev['pre']:
                    m[lv] = ev['pre'][lv[2]]
                    enter_index = j if enter_index is None else min(enter_index, j)
    if len(m) != len(set(loopvars)) or enter_index is None:
        return None
    e0 = dict(e)
    first = sym.subst(idx, m)
    e0['args_val'] = [e['args_val'][0], first]
    why = try_bound(F, res, enter_index, e0, assume_nonempty=assume_nonempty)
    if why is None:
        # the walk may have been rotated: its first in-loop index is then itself an entry of the same table (read before the
        # loop at an index that is audited as a site of its own) - the inductive TRUSTED-DATA case, not an entry from outside
        tab = e['args_val'][0]
        def from_table(x):
            return isinstance(x, tuple) and x and ((x[0] == 'call' and isinstance(x[1], str) and x[1].endswith(('::get_unchecked', '::get_unchecked_mut', 'Index::index')) and x[2] and x[2][0] == tab)
                                                   or (x[0] == 'index' and x[1] == tab))
        if sym.contains(first, from_table):
            return 'first in-loop index %s is read from the table itself (inductive step, TRUSTED-DATA)' % sym.show(first)[:60]
    return why


def comparator_never_equal(F, res, i, e):
    """unreachable_unchecked reached only on the Ok arm of binary_search_by with a comparator yielding Less/Greater."""
    preds = res.preds[:rules.preds_before(res, i)]
    for t, v, _ in preds:
        if t[0] == 'discr' and t[1][0] == 'call' and t[1][1].endswith('binary_search_by') and sym.discr_variant(t, v) == 'Ok':
            cl = t[1][2][1] if len(t[1][2]) > 1 else None
            if cl is None or not (cl[0] == 'agg' and isinstance(cl[1], tuple) and cl[1][0] == 'closure'):
                return None
            cb = F.by_def.get(cl[1][1])
            if cb is None:
                return None
            _, cp = rules.evaluate(cb)
            rets = set()
            for p in cp or []:
                if p.end == 'return':
                    r = p.ret
                    if r[0] == 'agg' and isinstance(r[1], tuple) and r[1][0] == 'adt' and r[1][1] == 'core::cmp::Ordering':
                        rets.add(r[1][2])
                    else:
                        rets.add('?')
            if rets and rets <= {'Less', 'Greater'}:
                return 'comparator returns only %s: the search cannot succeed' % sorted(rets)
            return None
    return None


def nonzero_getter(F, res, i, e):
    preds = res.preds[:rules.preds_before(res, i)]
    for t, v, _ in preds:
        isz = lambda z: z == sym.mk_int(0) or (z[0] == 'k' and z[1] == 'zero')
        if t[0] == 'bin' and ((t[1] == 'Eq' and v == 1) or (t[1] == 'Ne' and v == 0)) and (isz(t[2]) or isz(t[3])):
            o = t[3] if isz(t[2]) else t[2]
            if o[0] == 'call' and o[1] == 'core::num::NonZero::<T>::get':
                return 'guarded by `NonZero::get(self) == 0`, impossible by the core type guarantee'
    return None


def check_sites(ctx, F):
    sites = unsafe_sites(F)
    ctx.extra['unsafe_call_sites'] = len(sites)
    kinds = {}
    trusted_rows = {}
    for s in sites:
        b, blk, c = s['body'], s['block'], s['callee']
        (okey, root) = owner_key(b)
        name = c.get('name') or c['def']
        key = 'R8/unsafe-site/%s/%s#%d' % (b.defpath, name, s['ord'])
        loc = rules.loc(b, s['term']['span']['at'])
        ctx.touch(b)
        role = 'unsafe call `%s` has a discharged obligation' % name
        # forwards inside unsafe fns: obligation passes to the callers
        if b.unsafe:
            kinds['FORWARD'] = kinds.get('FORWARD', 0) + 1
            ctx.ok('R8', role, b.defpath, 'FORWARD: enclosing fn is itself `unsafe`; its callers carry the obligation', key=key, loc=loc)
            continue
        if c.get('local') and c['def'].startswith('stream::chain'):
            kinds['PRECOND'] = kinds.get('PRECOND', 0) + 1
            ctx.ok('R8', role, b.defpath, 'PRECOND: preconditions entailed (see R6/precond obligations)', key=key, loc=loc)
            continue
        ev, paths = rules.evaluate(b)
        if paths is None:
            ctx.bad('R8', role, b.defpath, 'function has too many paths to analyse: unsafe operation without a recognised guard', key=key, loc=loc)
            continue
        hits = list(events_at(paths, blk))
        if not hits:
            ctx.bad('R8', role, b.defpath, 'call site not reached by any enumerated path', key=key, loc=loc)
            continue
        reasons = []
        kind = None
        for r, i, e in hits:
            why = None
            if name == 'unreachable_unchecked':
                why = nonzero_getter(F, r, i, e)
                kind = 'TRUSTED-TYPE' if why else None
                if not why:
                    why = comparator_never_equal(F, r, i, e)
                    kind = 'COMPARATOR' if why else None
            elif name in ('get_unchecked', 'get_unchecked_mut'):
                why = try_bound(F, r, i, e)
                kind = 'BOUND' if why else None
            elif name in ('into_nonzero_unchecked', 'new_unchecked'):
                why = try_nonzero_local(F, r, i, e)
                kind = 'NONZERO-LOCAL' if why else None
            reasons.append(why)
        if all(reasons) and kind == 'BOUND':
            # single fetch: a view (as_ref / borrow / deref) of a container whose type is a generic parameter is user code; two
            # calls may return different slices, so the guard must be about the very slice that is accessed
            _, paths2 = rules.evaluate(b, call_hook=_fresh_user_views)
            hits2 = list(events_at(paths2 or [], blk))
            if paths2 is not None and hits2 and not all(try_bound(F, r2, i2, e2) for r2, i2, e2 in hits2):
                ctx.bad('R8', role, b.defpath, 'the bound is established on one fetch of a user-supplied container (`as_ref()`/`borrow()`/`deref()` of a generic parameter, possibly inside a helper such as support_size()) and the unchecked '
                        'access uses another fetch: a safe `AsRef` implementation may return a different (shorter) slice the second time, so the access is out of bounds', key=key, loc=loc)
                continue
        if all(reasons):
            kinds[kind] = kinds.get(kind, 0) + 1
            ctx.ok('R8', role, b.defpath, '%s on all %d path(s): %s' % (kind, len(hits), reasons[0]), key=key, loc=loc)
            continue
        row = TRUSTED_DATA.get(okey)
        if row and name not in TRUSTED_CALLEES.get(okey, ()):
            row = None      # this function's table entry does not cover this kind of unsafe operation
        if row and name in ('get_unchecked', 'get_unchecked_mut') and okey in ENTRY_BOUND:
            # the inductive step (indices read from the table) is TRUSTED-DATA; the *entry* index is machine checked
            firsts = [first_iteration_bound(F, r, i, e, True) for r, i, e in hits]
            k2 = key + '/entry'
            refetch = False
            if all(firsts):
                _, paths2 = rules.evaluate(b, call_hook=_fresh_user_views)
                hits2 = list(events_at(paths2 or [], blk))
                refetch = paths2 is not None and bool(hits2) and not all(first_iteration_bound(F, r2, i2, e2, True) for r2, i2, e2 in hits2)
            if refetch:
                ctx.bad('R8', 'entry index of an unchecked table walk is in bounds', b.defpath,
                        'the range check examines one fetch of the caller\'s value (`borrow()` of an `impl Borrow` argument) and the unchecked walk starts from another fetch: a safe `Borrow` implementation may answer differently the second time, so an out-of-alphabet index reaches get_unchecked', key=k2, loc=loc)
            elif all(firsts):
                ctx.ok('R8', 'entry index of an unchecked table walk is in bounds', b.defpath, 'first iteration: %s (assuming the table is non-empty)' % firsts[0], key=k2, loc=loc)
            else:
                ctx.bad('R8', 'entry index of an unchecked table walk is in bounds', b.defpath,
                        'the index with which the unchecked walk starts is not proven < len (even assuming a non-empty table): an out-of-alphabet value reaches get_unchecked', key=k2, loc=loc)
        if row and name in ('into_nonzero_unchecked', 'new_unchecked'):
            # USER-DATA: a value computed by user code (a method of a user-supplied generic parameter, e.g.
            # Distribution::distribution) is not validated data.  It may only be trusted where the path examined it:
            # some dominating predicate mentions an operand of the difference that is declared non-zero.
            unexamined = None
            for r, i, e in hits:
                arg = e['args'][0]
                if not sym.contains(arg, lambda x: isinstance(x, tuple) and x and x[0] == 'call' and isinstance(x[1], str) and x[1].startswith(USER_CODE)):
                    continue
                preds = r.preds[:rules.preds_before(r, i)]
                # "examined" is not enough (the search of the decoder view compares both cumulatives with the quantile and is still
                # fooled by a cdf above 1 at full precision): the path must *prove* the difference non-zero - a dominating
                # inequality / strict order between the two operands (difference bounds), or an explicit non-zero test of the value
                proven = False
                if arg[0] == 'bin' and arg[1].split('.')[0] == 'Sub':
                    d = dbmmod.DBM()
                    dbmmod.harvest(d, preds)
                    R_, L_ = arg[2], arg[3]
                    proven = d.entails_le(L_, R_, strict=True) or d.entails_le(R_, L_, strict=True)
                    for t, v, _ in preds:
                        if t[0] == 'bin' and t[1] in ('Eq', 'Ne') and {t[2], t[3]} == {R_, L_} and ((t[1] == 'Eq' and not v) or (t[1] == 'Ne' and v)):
                            proven = True
                for t, v, _ in preds:
                    if t[0] == 'bin' and t[1] in ('Eq', 'Ne') and arg in (t[2], t[3]) and ((t[1] == 'Eq' and not v) or (t[1] == 'Ne' and v)):
                        proven = True
                if not proven:
                    unexamined = sym.show(arg)[:120]
            if unexamined:
                ctx.bad('R8', role, b.defpath, 'USER-DATA: the value declared non-zero (%s) is computed from the result of user code (%s...) and no predicate on the path proves it non-zero (the wrap-around at PRECISION == BITS and a non-monotone or out-of-range cdf defeat the search invariants); '
                        'sibling views of the same quantity convert it with the checked into_nonzero().expect(..). A distribution whose cdf is not monotone makes it zero: undefined behaviour from safe code' % (unexamined, USER_CODE[0]),
                        key=key, loc=loc)
                continue
        if row and name in ('get_unchecked', 'get_unchecked_mut', 'into_nonzero_unchecked', 'new_unchecked'):
            kinds['TRUSTED-DATA'] = kinds.get('TRUSTED-DATA', 0) + 1
            trusted_rows[okey] = row
            ctx.trusted('R8', role, b.defpath, 'TRUSTED-DATA: ' + row[0], key=key, loc=loc)
            ctx.assume('TRUSTED-DATA %s::%s: %s' % (okey[0], okey[1], row[0]))
            continue
        ctx.bad('R8', role, b.defpath,
                'unsafe operation without a recognised guard: no dominating bound / non-zero guard / comparator argument could be established%s' % (
                    ' on %d of %d paths' % (sum(1 for x in reasons if not x), len(reasons)) if any(reasons) else ''), key=key, loc=loc)
    ctx.extra['obligation_kinds'] = kinds
    if len(sites) < 40:
        ctx.notes.append('fewer unsafe call sites than on the reference tree (%d); recorded, not an alarm' % len(sites))
    return trusted_rows


def check_strict_producers(ctx, F):
    """Structural half of TRUSTED-DATA: table-owning models are only built from validated data (a generic
    IterableEntropyModel source is NOT validation), and lookup tables get their length established."""
    adts = set(STRICT_OWNERS)
    for b in F.bodies:
        if b.promoted is not None or b.derived or c19.is_test(b) or b.dk not in ('Fn', 'AssocFn'):
            continue
        lits = [s for bl in b.blocks if not bl['cleanup'] for s in bl['stmts'] if s['k'] == 'assign' and s['rv']['k'] == 'agg' and s['rv'].get('adt') in adts]
        if not lits:
            continue
        ev, paths = rules.evaluate(b)
        ctx.touch(b)
        key = 'R7/strict-validated-construction/' + b.defpath
        role = 'tables that unchecked code relies on are built from validated data only'
        if paths is None:
            ctx.bad('R7', role, b.defpath, 'too many paths', key=key)
            continue
        from_crate_model = False
        for l in range(1, b.arg_count + 1):
            a = F.ty_adt(b.local_ty(l))
            if a and a.startswith('stream::model::') and a in c19.model_adts(F):
                from_crate_model = True
        generic_source = any((callee(t) or {}).get('def') == 'stream::model::IterableEntropyModel::symbol_table' for _, t in b.calls()) and not from_crate_model
        # source of a private producer may be an iterator argument: then the callers are judged (see below)
        verdict = None
        for r in paths:
            for i, e in enumerate(r.events):
                if e['kind'] == 'literal' and e['adt'] in adts:
                    v = c19.validator_ok_before(r, i, F)
                    guards = [x for x in r.events[:i] if x['kind'] == 'assert'] + [x for x in r.events[:i] if x['kind'] == 'branch' and _other_arm_fails(paths, x)]
                    if v:
                        verdict = verdict or ('ok', 'after Ok of the %s validator' % v)
                    elif from_crate_model:
                        verdict = verdict or ('ok', 'copy/view of an existing crate-defined model')
                    elif generic_source:
                        verdict = ('bad', 'copies the symbol table of an arbitrary `IterableEntropyModel` (a safe, user-implementable trait) without validating it; unchecked accesses in the resulting decoder rely on its contents')
                    elif guards and (b.vis == 'pub' or b.impl_trait):
                        verdict = verdict or ('ok', 'inline validation (%d rejecting guard(s))' % len(guards))
                    else:
                        verdict = verdict or ('callers', None)
        if verdict is None:
            continue
        if verdict[0] == 'ok':
            ctx.ok('R7', role, b.defpath, verdict[1], key=key)
        elif verdict[0] == 'bad':
            ctx.bad('R7', role, b.defpath, verdict[1], key=key, loc=rules.loc(b))
        else:
            # private helper: all callers must validate or come from a crate model; a caller feeding a generic symbol table is bad
            callers = [c for c in F.bodies if c.promoted is None and not c19.is_test(c) and any((callee(t) or {}).get('def') == b.defpath for _, t in c.calls())]
            badc = []
            for c in callers:
                gen = any((callee(t) or {}).get('def') == 'stream::model::IterableEntropyModel::symbol_table' for _, t in c.calls())
                crate_src = any((F.ty_adt(c.local_ty(l)) or '').startswith('stream::model::') for l in range(1, c.arg_count + 1))
                has_validator = any((callee(t) or {}).get('def') in c19.vdefs(F) for _, t in c.calls())
                inline = _has_inline_guards(b)
                if gen and not crate_src and not has_validator and not inline:
                    badc.append(c.defpath)
            if badc:
                ctx.bad('R7', role, b.defpath, 'private producer is fed the symbol table of an arbitrary `IterableEntropyModel` by %s without validation' % badc[0], key=key, loc=rules.loc(b))
            elif callers:
                ctx.ok('R7', role, b.defpath, 'private producer; %d caller(s) validate or convert from crate-defined models%s' % (len(callers), '; inline guards present' if _has_inline_guards(b) else ''), key=key)
            else:
                ctx.unresolved('R7', role, b.defpath, 'private producer without callers', key=key)
    # lookup tables: length establishment at every literal
    for b in F.bodies:
        if b.promoted is not None or b.derived or c19.is_test(b) or b.dk not in ('Fn', 'AssocFn'):
            continue
        if not any(s['k'] == 'assign' and s['rv']['k'] == 'agg' and s['rv'].get('adt') in LOOKUP_OWNERS for bl in b.blocks if not bl['cleanup'] for s in bl['stmts']):
            continue
        ev, paths = rules.evaluate(b)
        key = 'R8/lookup-length-established/' + b.defpath
        role = 'lookup_table has exactly 2^PRECISION entries (indexed unchecked by the quantile)'
        verdict = None
        for r in paths or []:
            for i, e in enumerate(r.events):
                if e['kind'] == 'literal' and e['adt'] in LOOKUP_OWNERS:
                    how = None
                    if c19.validator_ok_before(r, i, F) == 'fixed_point':
                        how = 'filled inside the fixed-point validator (validated total 2^PRECISION)'
                    for x in r.events[:i]:
                        if x['kind'] == 'call' and x['name'] == 'resize' and len(x['args']) >= 2 and _is_pow2_precision(rules.inline_pure(F, x['args'][1], depth=2)):
                            how = 'Vec::resize(1 << PRECISION, _)'
                    for t, v, _ in r.preds[:e['npreds']]:
                        if t[0] == 'bin' and t[1] in ('Eq', 'Ne') and any(o[0] == 'len' for o in (t[2], t[3])) and any(_is_pow2_precision(rules.inline_pure(F, o, depth=2)) for o in (t[2], t[3])):
                            how = 'asserted: len == 1 << PRECISION'
                    if how is None:
                        fields = dict(zip(e['fnames'], e['vals']))
                        lt = fields.get('lookup_table')
                        if lt is not None and lt[0] == 'in':
                            how = 'copy/view of an existing lookup table'
                    verdict = (verdict if verdict and verdict[0] == 'bad' else None) or (('ok', how) if how else ('bad', e['span'].split('-')[0]))
        if verdict is None:
            continue
        if verdict[0] == 'ok':
            ctx.ok('R8', role, b.defpath, verdict[1], key=key)
        else:
            ctx.bad('R8', role, b.defpath, 'literal at %s does not establish the table length (no resize to 1 << PRECISION, no validated total, no length assertion): a short table is read out of bounds by quantile_function' % verdict[1], key=key, loc=verdict[1])


def _is_pow2_precision(t):
    return t[0] == 'bin' and t[1] == 'Shl' and (t[2] == sym.mk_int(1) or (t[2][0] == 'k' and t[2][1] == 'one')) and t[3] == ('c', 'PRECISION')


def _other_arm_fails(paths, branch_event):
    return True


def _has_inline_guards(b):
    ev, paths = rules.evaluate(b)
    n = 0
    for r in paths or []:
        if r.end == 'diverge':
            for e in r.events:
                if e['kind'] == 'call' and e['callee'].startswith('core::panicking::') and 'assert_failed' in e['callee']:
                    n += 1
    return n >= 2


def check_unsafe_impls(ctx, F):
    n = 0
    for imp in F.impls:
        if not imp.get('unsafe') or imp.get('derived'):
            continue        # `derive(Clone, Copy)` emits `unsafe impl TrivialClone` (compiler generated)
        if imp['self_s'].startswith('pybindings::') and (imp.get('trait') or '').startswith('pyo3::') and imp['span'].get('exp'):
            continue        # generated by #[pyclass]; the Python front end is outside the quantifier of C20 (safe Rust API)
        n += 1
        st = F.ty(imp['self'])
        ss = imp['self_s']
        std_ok = False
        if imp['trait'] == 'backends::SafeBuf':
            std_ok = ss.startswith(('&[', '&mut [', 'alloc::vec::Vec<', 'alloc::boxed::Box<['))
        elif imp['trait'] in ('BitArray',):
            std_ok = ss in ('u8', 'u16', 'u32', 'u64', 'u128', 'usize')
        elif imp['trait'] in ('NonZeroBitArray',):
            std_ok = ss.startswith('core::num::NonZero<')
        key = 'R8/unsafe-impl/%s for %s' % (imp['trait'], ss)
        if std_ok:
            ctx.ok('R8', 'unsafe trait is implemented for std types only', key, 'TRUSTED-TYPE: %s for %s' % (imp['trait'], ss), key=key)
        else:
            ctx.bad('R8', 'unsafe trait is implemented for std types only', key, 'unsafe impl of %s for `%s`, whose behaviour this audit cannot vouch for' % (imp['trait'], ss), key=key, loc=imp['span']['at'].split('-')[0])
    ctx.extra['unsafe_impls'] = n
    if n < 10:
        ctx.notes.append('fewer unsafe impls than on the reference tree (%d)' % n)


def check_raw_memory(ctx, F):
    """Zero-count rule: no transmute / raw-pointer dereference / mem::zeroed in library code."""
    hits = []
    n_rv = 0
    for b in F.bodies:
        if b.promoted is not None or '::tests::' in b.defpath or b.defpath.startswith(('pybindings', '<pybindings')) or b.derived:
            continue
        for bl in b.blocks:
            if bl['cleanup']:
                continue
            for s in bl['stmts']:
                if s['k'] != 'assign':
                    continue
                n_rv += 1
                rv = s['rv']
                if rv['k'] == 'cast' and rv['ck'] == 'Transmute' and not s['span'].get('exp'):
                    hits.append('transmute in %s at %s' % (b.defpath, s['span']['at'].split('-')[0]))
                # dereference of a raw pointer (taking `&raw` alone is harmless and compiler generated for index checks)
                places = [s['place']]
                for k2 in ('place',):
                    if k2 in rv:
                        places.append(rv[k2])
                for o in (rv.get('op'), rv.get('l'), rv.get('r'), rv.get('x')):
                    if isinstance(o, dict) and o.get('k') in ('copy', 'move'):
                        places.append(o['place'])
                for pl in places:
                    if pl['p'] and pl['p'][0] == 'deref' and F.ty(b.local_ty(pl['l'])).get('k') == 'rawptr' and not s['span'].get('exp'):
                        # MIR builds `&raw const *slice` + PtrMetadata for bounds checks; a deref that only feeds PtrMetadata is not a memory access
                        if rv['k'] == 'un' and rv['op'] == 'PtrMetadata':
                            continue
                        hits.append('raw pointer dereferenced in %s at %s' % (b.defpath, s['span']['at'].split('-')[0]))
            t = bl['term']
            if t['k'] == 'call':
                c = callee(t)
                if c and c['def'] in ('core::mem::zeroed', 'core::mem::uninitialized', 'core::mem::transmute', 'core::intrinsics::transmute') or (c and 'MaybeUninit' in c['def'] and c.get('name') == 'assume_init'):
                    hits.append('%s in %s' % (c['def'], b.defpath))
    key = 'R8/no-raw-memory'
    if hits:
        ctx.bad('R8', 'no transmute / raw pointers / zeroed memory in library code', 'crate', '; '.join(hits[:3]), key=key)
    else:
        ctx.ok('R8', 'no transmute / raw pointers / zeroed memory in library code', 'crate', '%d assignments and all call sites scanned' % n_rv, key=key)


def check_mut_escape(ctx, F, n_cursor_unsafe):
    """R7: an invariant relied upon by unchecked code must not be breakable through a `&mut` the safe API hands out."""
    if n_cursor_unsafe == 0:
        ctx.ok('R7', 'no unchecked access relies on the Cursor invariant', 'backends::Cursor',
               'Cursor / Reverse<Cursor> contain no unsafe call: `buf_mut` cannot cause UB (a broken invariant panics in checked indexing)', key='R7/mut-escape/backends::Cursor')
        return
    c17.check_invariant(ctx, F)


_WIDTH = {'u8': 8, 'u16': 16, 'u32': 32, 'u64': 64, 'u128': 128, 'usize': 64, 'i8': 8, 'i16': 16, 'i32': 32, 'i64': 64, 'i128': 128, 'isize': 64}


def _const_width(t):
    """integer value of a constant term: a literal, the bit width of a primitive integer in one of its spellings, casts thereof"""
    import re
    if not isinstance(t, tuple) or not t:
        return None
    if t[0] == 'int':
        return t[1]
    if t[0] == 'cast':
        return _const_width(t[2])
    if t[0] == 'c':
        m = re.fullmatch(r'<(\w+) as (?:\w+::)*BitArray>::BITS', t[1]) or re.fullmatch(r'core::num::<impl (\w+)>::BITS', t[1]) or re.fullmatch(r'(\w+)::BITS', t[1])
        if m and m.group(1) in _WIDTH:
            return _WIDTH[m.group(1)]
    return None


def _static_bounds(F, b):
    """{const param: exclusive upper bound (int or 'usize::BITS' style text)} asserted at compile time in body b: the associated
    consts of the local `Check` struct that generic_static_asserts! expands to (`const L: () = assert!(P < bound)`), found
    through their uses in b."""
    out = {}
    for bl in b.blocks:
        for st in bl['stmts']:
            if st['k'] != 'assign' or st['rv'].get('k') != 'use':
                continue
            op = st['rv']['op']
            if op.get('k') != 'const' or op.get('ck') != 'uneval' or not op.get('def'):
                continue
            cb = F.by_def.get(op['def']) or F.by_def.get(op.get('text'))
            if cb is None:
                cands = [x for x in F.bodies if x.promoted is None and x.defpath == op.get('text')]
                cb = cands[0] if cands else None
            if cb is None or not str(cb.dk).startswith('AssocConst'):
                continue
            # the assertion's condition, read off the path of the const body that returns (the other one panics)
            try:
                _, cpaths = rules.evaluate(cb)
            except Exception:
                cpaths = None
            for r in cpaths or []:
                if r.end != 'return':
                    continue
                for t, v, _ in r.preds:
                    if t[0] != 'bin' or t[1] not in ('Lt', 'Le', 'Gt', 'Ge'):
                        continue
                    op, l, rr = t[1], t[2], t[3]
                    if not v:
                        op = {'Lt': 'Ge', 'Le': 'Gt', 'Gt': 'Le', 'Ge': 'Lt'}[op]
                    if l[0] == 'c' and _const_width(rr) is not None and op in ('Lt', 'Le'):
                        bound = _const_width(rr) + (1 if op == 'Le' else 0)
                        out[l[1]] = min(out.get(l[1], bound), bound)
                    elif rr[0] == 'c' and _const_width(l) is not None and _const_width(rr) is None and op in ('Gt', 'Ge'):
                        bound = _const_width(l) + (1 if op == 'Ge' else 0)
                        out[rr[1]] = min(out.get(rr[1], bound), bound)
    return out


def _shifts_guarded_at_run_time(b, param, w):
    """every overflow check of a shift by `param` on every enumerated path is preceded by a decision `param < K`, K <= w"""
    try:
        _, paths = rules.evaluate(b)
    except Exception:
        return False
    if not paths:
        return False
    n = 0
    for r in paths:
        for i, e in enumerate(r.events):
            if e['kind'] != 'ovf_check' or 'Sh' not in str(e.get('msg')) or not sym.contains(e['cond'], lambda x: x == ('c', param)):
                continue
            n += 1
            ok = False
            for t, v, _ in r.preds[:rules.preds_before(r, i)]:
                if isinstance(v, tuple) or t[0] != 'bin' or t[1] not in ('Lt', 'Le', 'Gt', 'Ge'):
                    continue
                op = t[1] if v else {'Lt': 'Ge', 'Le': 'Gt', 'Gt': 'Le', 'Ge': 'Lt'}[t[1]]
                l, rr = t[2], t[3]
                if l == ('c', param) and _const_width(rr) is not None and ((op == 'Lt' and _const_width(rr) <= w) or (op == 'Le' and _const_width(rr) < w)):
                    ok = True
                if rr == ('c', param) and _const_width(l) is not None and ((op == 'Gt' and _const_width(l) <= w) or (op == 'Ge' and _const_width(l) < w)):
                    ok = True
            if not ok:
                return False
    return n > 0


def _callers_bound(F, b, param, w):
    """b is a private helper (not pub) and every crate-local caller statically bounds the same-named const parameter below w"""
    if b.vis == 'pub' or b.dk not in ('Fn', 'AssocFn'):
        return False
    callers = []
    for c in F.bodies:
        if c.promoted is not None or c is b:
            continue
        for blk, t in c.calls():
            if callee_def(t) == b.defpath:
                callers.append(c)
                break
    if not callers:
        return False
    for c in callers:
        root = c.defpath.split('::{closure')[0]
        bounds = _static_bounds(F, c)
        if c.dk == 'Closure' and root in F.by_def:
            bounds = dict(_static_bounds(F, F.by_def[root]), **bounds)
        if not (param in bounds and bounds[param] <= w):
            return False
    return True


def check_user_container_viewed_once(ctx, F):
    """A model that stores a container of a caller-chosen type (`Pmf: AsRef<[F]>`) looks at it through `as_ref()`, which is the
    caller's code and may answer differently each time.  One query of the model (EncoderModel / DecoderModel method) therefore
    takes the view once and does everything - bounds check, length, sums - on that slice; private helpers called by the query
    are counted in.  Two views in one query let the check and the use see different slices."""
    n = 0
    for b in F.bodies:
        if b.promoted is not None or b.dk != 'AssocFn' or '::tests::' in b.defpath or b.impl_trait not in ('stream::model::EncoderModel', 'stream::model::DecoderModel'):
            continue
        params = _user_container_params(F, b.self_adt)
        if not params:
            continue

        def views_in(body, depth):
            """max number of views of a user container on one path of body (+ callees on self, `depth` levels)"""
            try:
                _, paths = rules.evaluate(body, call_hook=_fresh_user_views)
            except Exception:
                return None
            best = 0
            for r in paths or []:
                k = 0
                seen = set()
                for e in r.events:
                    if e['kind'] != 'call':
                        continue
                    if str(e['callee']).startswith('user-view@'):
                        continue
                    h = F.by_def.get(e['callee'])
                    if depth and h is not None and h is not body and h.self_adt == body.self_adt and h.promoted is None and e['args'] and e['args'][0] in (('ref', (1, 'deref'), False), ('in', (1,)), ('arg', 1)):
                        sub = views_in(h, depth - 1)
                        k += sub or 0
                terms = ([r.ret] if r.ret is not None else []) + [t for t, v, _ in r.preds] + [a for e in r.events if e['kind'] == 'call' for a in e.get('args_val', e['args'])] + [e['value'] for e in r.events if e['kind'] in ('write', 'write_ref')]
                for t in terms:
                    for x in sym.subterms(t):
                        if isinstance(x, tuple) and x and x[0] == 'call' and str(x[1]).startswith('user-view@') and x[2]:
                            obj = x[2][0]
                            # only the container stored in the model (rooted at self), not the caller's symbol argument
                            if isinstance(obj, tuple) and obj and obj[0] == 'in' and obj[1][:1] == (1,):
                                seen.add(x[1])
                best = max(best, k + len(seen))
            return best
        v = views_in(b, 1)
        n += 1
        key = 'R8/user-container-viewed-once/' + b.defpath
        role = 'one query looks at the caller-supplied container once'
        ctx.touch(b)
        if v is None:
            ctx.unresolved('R8', role, b.defpath, 'not evaluated', key=key)
        elif v <= 1:
            ctx.ok('R8', role, b.defpath, '%d view(s) of the container on every path (helpers on self included)' % v, key=key)
        else:
            ctx.bad('R8', role, b.defpath, 'up to %d separate views (`as_ref()` / `borrow()` / `deref()`) of the caller-supplied container in one query, counting the private helpers it calls: the bounds check and the quantities derived from the length may come from different slices' % v, key=key, loc=rules.loc(b))
    ctx.extra['user_container_queries'] = n


def check_generic_shift_by_precision(ctx, F):
    """`T::one() << PRECISION` on a generic word type whose width may EQUAL the precision (the static assertions only give
    `PRECISION <= T::BITS` for the probability and word types) overflows at that edge: a panic in debug builds, a shift by zero in
    release builds - the closing cdf entry then becomes 1 and the last symbol gets probability zero inside a NonZero.  The library
    has `wrapping_pow2` for the total mass; a plain shift by PRECISION is accepted only behind a decision that excludes the edge
    (`PRECISION != T::BITS`, `PRECISION < T::BITS`) on every path to it.  Shifts of the coder state (at least two words wide, so
    always wider than the precision) are outside the rule."""
    n = 0
    for b in F.bodies:
        if b.promoted is not None or '::tests::' in b.defpath or b.defpath.startswith(('pybindings', '<pybindings')) or b.dk not in ('Fn', 'AssocFn', 'Closure'):
            continue
        sites = {}
        for blk, t in b.calls():
            c = callee(t) or {}
            if not (c.get('def') or '').endswith('ops::Shl::shl') or len(t['args']) != 2 or not c.get('args'):
                continue
            amt = t['args'][1]
            if not (amt.get('k') == 'const' and amt.get('param')):
                continue
            a0 = c['args'][0]
            ty = F.types[a0['ty']] if isinstance(a0, dict) and 'ty' in a0 else None
            if not ty or ty.get('k') != 'param' or ty.get('name') == 'State':
                continue
            sites[blk] = (ty.get('name'), amt['param'], t['span']['at'].split('-')[0])
        if not sites:
            continue
        try:
            _, paths = rules.evaluate(b)
        except Exception:
            paths = None
        for blk, (tname, param, where) in sorted(sites.items()):
            n += 1
            key = 'R9/generic-shift-by-precision/%s/%s' % (b.defpath, tname)
            role = 'a shift of a word-sized value by PRECISION is excluded at PRECISION == BITS'
            ctx.touch(b)
            if paths is None:
                ctx.unresolved('R9', role, b.defpath, 'too many paths', key=key)
                continue
            verdict = None
            for r in paths:
                for i, e in enumerate(r.events):
                    if e['kind'] != 'call' or e.get('block') != blk or not e['callee'].endswith('ops::Shl::shl'):
                        continue
                    ok = False
                    for tt, v, _ in r.preds[:rules.preds_before(r, i)]:
                        if isinstance(v, tuple) or tt[0] != 'bin' or tt[1] not in ('Eq', 'Ne', 'Lt', 'Le', 'Gt', 'Ge') or ('c', param) not in (tt[2], tt[3]):
                            continue
                        other = tt[3] if tt[2] == ('c', param) else tt[2]
                        if not (other[0] == 'c' and other[1].endswith('BITS') and tname in other[1]):
                            continue
                        op = tt[1] if v else {'Eq': 'Ne', 'Ne': 'Eq', 'Lt': 'Ge', 'Le': 'Gt', 'Gt': 'Le', 'Ge': 'Lt'}[tt[1]]
                        P_left = tt[2] == ('c', param)
                        if op == 'Ne' or (P_left and op == 'Lt') or (not P_left and op == 'Gt'):
                            ok = True
                    verdict = (verdict is None or verdict) and ok
            if verdict is None:
                ctx.unresolved('R9', role, b.defpath, 'the shift is on no enumerated path', key=key)
            elif verdict:
                ctx.ok('R9', role, b.defpath, '`%s::one() << %s` only behind `%s != %s::BITS`' % (tname, param, param, tname), key=key)
            else:
                ctx.bad('R9', role, b.defpath, 'a value of the generic type %s is shifted left by %s with nothing on the path excluding %s == %s::BITS: there the shift overflows - a panic in debug builds, a shift by zero in release builds (a total mass of 1 instead of 2^PRECISION, i.e. a last symbol of probability zero); `wrapping_pow2` is the spelling that is right at the edge' % (tname, param, param, tname), key=key, loc=where)
    ctx.extra['generic_shifts_by_precision'] = n


def check_size_hint_arithmetic(ctx, F, file_suffix=None):
    """`Iterator::size_hint` of a caller's iterator is an arbitrary number: every unbounded std iterator (`0..`, `repeat`, `cycle`)
    reports a lower bound of usize::MAX.  An overflow-checked `+` / `*` on it panics in debug builds and wraps in release builds,
    where the function then carries on - arithmetic that is only "correct" because release builds wrap.  Rule: no overflow check
    (the assertion rustc emits for a plain operator) has an operand derived from a size_hint; saturating / wrapping / checked
    operations are explicit and pass."""
    n = 0
    bad = {}
    for b in F.bodies:
        if b.promoted is not None or b.derived or '::tests::' in b.defpath or b.defpath.startswith(('pybindings', '<pybindings')) or b.dk not in ('Fn', 'AssocFn', 'Closure'):
            continue
        if not any((callee_def(t) or '').endswith('Iterator::size_hint') for _, t in b.calls()):
            continue
        if file_suffix is not None and not (b.file or '').endswith(file_suffix):
            continue
        # crate-local iterators forward their own size_hint from a field: only functions that take the iterator from a caller count
        if b.impl_trait == 'core::iter::Iterator':
            continue
        try:
            _, paths = rules.evaluate(b)
        except Exception:
            continue
        sites = {}
        for r in paths or []:
            for e in r.events:
                if e['kind'] != 'ovf_check':
                    continue
                if sym.contains(e['cond'], lambda x: isinstance(x, tuple) and x and x[0] == 'call' and str(x[1]).endswith('Iterator::size_hint')):
                    sites[e['span'].split('-')[0]] = e.get('msg')
        # the *upper* bound is looser still: honest iterators (`take_while`, `filter`, `flat_map`) report usize::MAX or None for a
        # handful of items, so an allocation sized by it dies with "capacity overflow" where the write should simply succeed
        is_upper = lambda x: isinstance(x, tuple) and x and x[0] == 'proj' and x[2] == ('f', '1') and sym.contains(x[1], lambda y: isinstance(y, tuple) and y and y[0] == 'call' and str(y[1]).endswith('Iterator::size_hint'))
        allocs = {}
        for r in paths or []:
            for e in r.events:
                if e['kind'] == 'call' and str(e['callee']).split('::')[-1] in ('reserve', 'reserve_exact', 'with_capacity', 'resize', 'grow'):
                    for a in (e.get('args_val') or e['args']):
                        if isinstance(a, tuple) and sym.contains(a, is_upper):
                            allocs[e['span'].split('-')[0]] = str(e['callee']).split('::')[-1]
        if allocs:
            where, what = sorted(allocs.items())[0]
            ctx.bad('R9', 'the upper bound of a caller iterator\'s size_hint sizes no allocation', b.defpath, '`%s` is sized by the upper bound of a caller-supplied iterator\'s size_hint: `(0..u64::MAX).take_while(..)` reports an upper bound near usize::MAX for a few items, and the call panics with "capacity overflow" (or aborts) instead of writing them' % what, key='R9/size-hint-upper-allocation/' + b.defpath, loc=where)
        uses = sum(1 for _, t in b.calls() if (callee_def(t) or '').endswith('Iterator::size_hint'))
        n += 1
        key = 'R9/size-hint-arithmetic/' + b.defpath
        role = 'a caller iterator\'s size_hint enters no overflow-checked arithmetic'
        ctx.touch(b)
        if sites:
            where, msg = sorted(sites.items())[0]
            ctx.bad('R9', role, b.defpath, '%d overflow-checked operation(s) (%s) on a size_hint of a caller-supplied iterator: for an unbounded iterator the bound is usize::MAX, so a debug build panics here while a release build wraps and carries on with the wrapped value' % (len(sites), msg), key=key, loc=where)
        else:
            ctx.ok('R9', role, b.defpath, '%d size_hint call(s); none of their results reaches a plain `+`, `-` or `*`' % uses, key=key)
    if file_suffix is not None:
        return
    ctx.extra['size_hint_users'] = n
    ctx.floor('R9', 'floor: functions that read a size_hint', 'crate', n, 4, 'only %d functions read the size_hint of an iterator' % n, key='R9/floor/size-hint-arithmetic')


def check_const_shift_bounded(ctx, F):
    """A built-in shift of a concrete integer by a const generic parameter (`1usize << PRECISION`) overflows when the parameter
    reaches the width of the integer: a panic in debug builds, a masked shift (1 << 0) in release builds - arithmetic that is only
    "correct" because release builds wrap, here sizing the lookup table that is later indexed without a bounds check.  Every such
    shift sits in a function whose compile-time assertions bound the parameter strictly below the width (the same bound its
    siblings state as USIZE_MUST_STRICTLY_SUPPORT_PRECISION)."""
    n = 0
    for b in F.bodies:
        if b.promoted is not None or '::tests::' in b.defpath or b.dk not in ('Fn', 'AssocFn', 'Closure'):
            continue
        sites = {}
        for bl in b.blocks:
            if bl['cleanup']:
                continue
            for st in bl['stmts']:
                if st['k'] != 'assign' or st['rv'].get('k') != 'bin' or st['rv'].get('op') not in ('Shl', 'Shr'):
                    continue
                r = st['rv']['r']
                if r.get('k') == 'const' and r.get('param'):
                    lt = st['rv']['l'].get('ty')
                    w = _WIDTH.get(F.types[lt].get('s')) if lt is not None else None
                    sites.setdefault((r['param'], w), []).append(st['span']['at'])
        if not sites:
            continue
        bounds = _static_bounds(F, b)
        root = b.defpath.split('::{closure')[0]
        if b.dk == 'Closure' and root in F.by_def:
            bounds = dict(_static_bounds(F, F.by_def[root]), **bounds)
        for (param, w), spans in sorted(sites.items(), key=str):
            n += 1
            key = 'R9/const-shift-bounded/%s/%s' % (b.defpath, param)
            role = 'a shift by a const generic parameter is statically below the width of the shifted integer'
            ctx.touch(b)
            if w is None:
                ctx.unresolved('R9', role, b.defpath, 'width of the shifted type not known', key=key)
            elif param in bounds and bounds[param] <= w:
                ctx.ok('R9', role, b.defpath, '%d shift(s) by %s of a %d-bit integer; static assertion %s < %d in the same function' % (len(spans), param, w, param, bounds[param]), key=key)
            elif _callers_bound(F, b, param, w):
                ctx.ok('R9', role, b.defpath, '%d shift(s) by %s of a %d-bit integer in a private helper; every caller carries the compile-time bound %s < %d' % (len(spans), param, w, param, w), key=key)
            elif _shifts_guarded_at_run_time(b, param, w):
                ctx.ok('R9', role, b.defpath, '%d shift(s) by %s of a %d-bit integer, each behind a decision `%s < %d` on its path (the const comparison is evaluated before the shift)' % (len(spans), param, w, param, w), key=key)
            else:
                ctx.bad('R9', role, b.defpath, '%d shift(s) of a %d-bit integer by the const parameter %s, and no compile-time assertion in this function keeps %s below %d%s: with %s == %d the shift panics in debug builds and is a shift by zero in release builds (a one-entry table behind an unchecked index)' % (
                    len(spans), w, param, param, w, (' (the assertions present only give %s < %d)' % (param, bounds[param])) if param in bounds else '', param, w), key=key, loc=spans[0].split('-')[0])
    ctx.extra['const_shift_sites'] = n
    ctx.floor('R9', 'floor: shifts by a const generic parameter', 'crate', n, 4, 'only %d functions with a built-in shift by a const parameter found (the lookup-table constructors are expected)' % n, key='R9/floor/const-shift')


def check_validators_fetch_once(ctx, F):
    """The validators are what the TRUSTED-DATA rows rest on: a table that passed one is assumed to satisfy its invariants.  They
    receive their data through user code (`Borrow::borrow` on the items of a user iterator, `AsRef::as_ref`, `Deref::deref` on
    values of a generic type).  That user code may answer differently each time it is asked, so a validator must read every
    value exactly once: what it checks is then what it hands on.  Rule: on no path does a validator apply a view function
    twice to the same receiver of generic type."""
    from vlib import anchors
    vals = anchors.validators(F)
    n = 0
    for role_name, b in sorted(vals.items()):
        if b is None:
            continue
        key = 'R8/validator-fetches-once/' + role_name
        role = 'the validator reads every user-provided value once'
        bodies = [b] + [cb for cb in F.closures_of(b)]
        worst = None
        n_fetch = 0
        for body in bodies:
            ev, paths = rules.evaluate(body)
            for r in paths or []:
                cnt = {}
                for e in r.events:
                    if e['kind'] != 'call' or e['callee'] not in _VIEW_FNS:
                        continue
                    c = e['fn']
                    a0 = c['args'][0] if c and c.get('args') else None
                    ty = F.types[a0['ty']] if isinstance(a0, dict) and 'ty' in a0 else {}
                    if ty.get('k') not in ('param', 'alias', 'proj', 'projection', 'opaque'):
                        continue      # a concrete std type: its views are stable
                    n_fetch += 1
                    k = (e['callee'].split('::')[-1], e['args_val'][0])
                    cnt[k] = cnt.get(k, 0) + 1
                for (fn, recv), v in cnt.items():
                    if v >= 2:
                        worst = (fn, recv, v, body)
        ctx.touch(b)
        n += 1
        if worst:
            fn, recv, v, body = worst
            ctx.bad('R8', role, b.defpath, '`%s()` is called %d times on the same value (%s) of a generic type: the value that is validated and the value that is handed on may differ for a user type whose `%s` answers differently each time, so a table that never passed the validation reaches the unchecked accesses of the models' % (
                fn, v, sym.show(recv)[:60], fn), key=key, loc=rules.loc(body))
        else:
            ctx.ok('R8', role, b.defpath, '%d view call(s) on generic receivers, none repeated on a path' % n_fetch, key=key)
    if n == 0:
        ctx.unresolved('R8', 'the validator reads every user-provided value once', 'stream::model::categorical', 'no validator resolved', key='R8/validator-fetches-once/floor')


def run(ctx):
    F = ctx.F
    trusted_rows = check_sites(ctx, F)
    c13.check_precision_changers(ctx, F)
    c19.check_inferred_probability(ctx, F)
    import props.C15 as c15
    c15.check_builder_size_arithmetic(ctx, F)     # the unchecked writes of the encoder tree builder rely on a node table of `len * 2 - 1` entries: no wrap-around in that size
    c19.check_float_table_monotone(ctx, F)     # the TRUSTED-DATA rows of the `_fast` constructors: the table they store unvalidated is monotone without trusting the float type parameter
    check_strict_producers(ctx, F)
    check_validators_fetch_once(ctx, F)
    check_const_shift_bounded(ctx, F)
    check_size_hint_arithmetic(ctx, F)
    check_generic_shift_by_precision(ctx, F)
    check_user_container_viewed_once(ctx, F)
    import props.C05 as c05
    c05.check_cdf_search_extent(ctx, F)      # the TRUSTED-DATA rows of the searched decoders say 'the search lands in 1..len-1': true only for a search that excludes the last entry
    n_cursor_unsafe = sum(1 for s in unsafe_sites(F) if s['body'].file.endswith('backends.rs'))
    check_mut_escape(ctx, F, n_cursor_unsafe)
    check_unsafe_impls(ctx, F)
    check_raw_memory(ctx, F)
    if ctx.tier == 'thorough':
        for cfg in ('nostd', 'pybindings'):
            if cfg in ctx.facts_by_config:
                F2 = ctx.facts_by_config[cfg]
                n0 = len(unsafe_sites(F2))
                ctx.extra['unsafe_call_sites_' + cfg] = n0
    ctx.assume('arithmetic that is only correct because release builds wrap is not decided here (overflow asserts are treated as guards)')
    ctx.assume('user implementations of safe traits (backends, models, distributions) may misbehave but cannot cause UB in *their own* safe code; the audit covers what this crate\'s unsafe code relies on')
    return {
        'level': 'other',
        'explanation': 'Obligation audit over every call whose callee is `unsafe` (found from the callee signature in MIR, so macro-expanded sites are included): each site is discharged by a bound proof '
                       '(difference bounds + helper inlining), a tabled non-zero shift idiom under a dominating guard, a comparator that never returns Equal, const-generic precondition entailment, a core '
                       'type guarantee, or is listed as TRUSTED-DATA with its invariant; for TRUSTED-DATA owners the structural half is checked (strictly validated construction, lookup-table length '
                       'establishment, no &mut escape of invariant fields). New or unrecognised unsafe operations fail closed. Data-level invariants (cdf monotonicity, Huffman node indices) are '
                       'enumerated in `assumptions`, not proved.',
        'trusted_base': ['rustc type checker + MIR construction', 'cfacts extractor', 'std/core contracts of slice, Vec, NonZero, binary_search_by', 'TRUSTED-DATA rows listed in assumptions'],
    }
