"""C09 — impossible symbols are rejected; a failed encode leaves the coder intact.

  1. the None/Some (Err/Ok) decision of every encoder-side model depends on the symbol only through
     predicates over the *un-narrowed* symbol                                                     (R3)
  2. in every Encode::encode_symbol the model lookup's `?` precedes every mutation of the coder, and
     every rejecting exit leaves the coder untouched                                               (R2)
  3. ANS: the fallible backend write precedes every assignment to `state` (write-before-commit)    (R2)
  4. Huffman: out-of-alphabet symbols are rejected before the first bit is emitted; the default
     prefix<->suffix adaptors buffer into a local stack first                                      (R2)
Not decided: that each model's None set is exactly the complement of its support (value level).
"""
from vlib import sym, rules, effects, facts

NARROWING_CASTS = ('as_', 'IntToInt', 'FloatToInt', 'IntToFloat', 'FloatToFloat')
MODEL_TRAIT = 'stream::model::EncoderModel'
LOOKUP = 'left_cumulative_and_probability'


# ---------------------------------------------------------------- clause 1

class Wide:
    """Does a term depend on the symbol atom through a path without a possibly-narrowing conversion?"""

    def __init__(self, F, lossy_wrapping=False):
        self.F = F
        self.summaries = {}
        self.lossy_wrapping = lossy_wrapping

    def helper_summary(self, defpath):
        """For a crate-local helper: set of argument indices (1-based) on which the result depends WIDE-ly;
        None if the body is unavailable (treated as transparent)."""
        if defpath in self.summaries:
            return self.summaries[defpath]
        self.summaries[defpath] = None
        b = self.F.by_def.get(defpath)
        if b is None or b.dk not in ('Fn', 'AssocFn'):
            return None
        ev, paths = rules.evaluate(b)
        if not paths:
            return None
        wide_args = set()
        for r in paths:
            if r.end != 'return' or r.ret is None:
                continue
            for i in range(1, b.arg_count + 1):
                if self.depends(r.ret, ('arg', i)) == 'wide':
                    wide_args.add(i)
        self.summaries[defpath] = wide_args
        return wide_args

    def depends(self, t, atom):
        """'wide' | 'narrow' | None"""
        if t == atom:
            return 'wide'
        if not isinstance(t, tuple) or not t:
            return None
        h = t[0] if isinstance(t[0], str) else None
        if h == 'in' and atom[0] == 'arg' and t[1][0] == atom[1]:
            return 'wide'
        if h in ('int', 'c', 'k', 'arg', 'in', 'fnitem'):
            return None
        if h == 'cast' and t[1] in NARROWING_CASTS:
            d = self.depends(t[2], atom)
            return 'narrow' if d else None
        if h == 'bin' and t[1].endswith('.w') and self.lossy_wrapping:
            # wrapping arithmetic loses the information a later widening would need (e.g. a wrapped difference)
            d = self.depends(t[2], atom) or self.depends(t[3], atom)
            return 'narrow' if d else None
        if h == 'call':
            summ = self.helper_summary(t[1])
            best = None
            for i, a in enumerate(t[2]):
                d = self.depends(a, atom)
                if d is None:
                    continue
                if summ is not None and (i + 1) not in summ:
                    d = 'narrow'
                if d == 'wide':
                    return 'wide'
                best = 'narrow'
            return best
        best = None
        for x in t[1:]:
            if isinstance(x, tuple):
                if x and isinstance(x[0], str):
                    d = self.depends(x, atom)
                else:
                    d = None
                    for y in x:
                        if isinstance(y, tuple):
                            dd = self.depends(y, atom)
                            if dd == 'wide':
                                d = 'wide'
                                break
                            d = d or dd
                if d == 'wide':
                    return 'wide'
                best = best or d
        return best


def outcome_of(ret):
    sh = rules.ret_shape(ret)
    if sh[0] in ('None', 'Err'):
        return 'reject'
    if sh[0] in ('Some', 'Ok'):
        return 'accept'
    if sh[0] == 'opaque':
        t = sh[1]
        if t[0] == 'err_of':
            return 'reject'
        return 'opaque'
    return 'opaque'


class _Guard(tuple):
    """a predicate term of a guarding prefix that also remembers the outcome taken (`.value`)."""
    def __new__(cls, term, value):
        o = tuple.__new__(cls, term)
        o.value = value
        return o


def _bound_exceeds_wide_type(g):
    """`bound.to_usize()` came back None: the bound does not fit into the symbol's (wide) type, so the type of the bound is
    wider than the symbol type and converting the symbol to it loses nothing."""
    t = tuple(g)
    if t and t[0] == 'discr' and isinstance(t[1], tuple) and t[1] and t[1][0] == 'call' and str(t[1][1]).endswith(('::to_usize', '::to_u64', '::to_u128')):
        return sym.discr_variant(t, getattr(g, 'value', None)) == 'None'
    return False


def distinguishing_predicates(paths):
    """Predicates p such that a rejecting and an accepting path share the prefix before p and differ on p."""
    rej = [r for r in paths if r.end == 'return' and outcome_of(r.ret) == 'reject']
    acc = [r for r in paths if r.end in ('return', 'backedge') and (r.end == 'backedge' or outcome_of(r.ret) in ('accept', 'opaque'))]
    out = []
    for a in rej:
        for b in acc:
            pa = [(sym.tkey(effects.strip_uid(t)), v, t) for t, v, _ in a.preds]
            pb = [(sym.tkey(effects.strip_uid(t)), v, t) for t, v, _ in b.preds]
            i = 0
            while i < len(pa) and i < len(pb) and pa[i][0] == pb[i][0] and pa[i][1] == pb[i][1]:
                i += 1
            if i < len(pa) and i < len(pb) and pa[i][0] == pb[i][0]:
                out.append((pa[i][2], tuple(_Guard(x[2], x[1]) for x in pa[:i])))
    uniq = {}
    for t, prefix in out:
        k = sym.tkey(effects.strip_uid(t))
        # keep the weakest (shortest) guarding prefix seen for this predicate
        if k not in uniq or len(prefix) < len(uniq[k][1]):
            uniq[k] = (t, prefix)
    return list(uniq.values())


PANICKING_SLICE_OPS = {'::split_at': 'end', '::split_at_mut': 'end', '::split_at_checked': None}


def check_no_panic_on_symbol(ctx, F):
    """An out-of-support symbol must come back as `None` (and then as the impossible-symbol error), not as a panic: in the
    support decision of every encoder-side model, a slice operation that panics out of range (split_at, built-in index
    checks) and whose position is computed from the symbol must be dominated by a guard that puts the position in range.
    Uses the same difference-bound entailment as the unsafe-site audit (C20 BOUND)."""
    import props.C20 as c20
    from vlib import dbm as dbmmod
    impls = [b for b in F.bodies if b.promoted is None and b.name == LOOKUP and b.impl_trait == MODEL_TRAIT and b.dk == 'AssocFn' and not b.defpath.startswith('<pybindings')]
    n_sites = 0
    is_sym = lambda x: x == ('arg', 2) or (isinstance(x, tuple) and x and x[0] == 'in' and x[1][0] == 2)
    for b in impls:
        ev, paths = rules.evaluate(b)
        if not paths:
            continue
        sites = {}
        for r in paths:
            for i, e in enumerate(r.events):
                if e['kind'] == 'call':
                    kind = [k for sfx, k in PANICKING_SLICE_OPS.items() if e['callee'].endswith(sfx) and k]
                    if not kind or len(e.get('args_val') or []) != 2 or not sym.contains(e['args_val'][1], is_sym):
                        continue
                    e0 = dict(e)
                    e0['args_val'] = [e['args_val'][0], ('agg', ('adt', 'core::ops::RangeTo', 'RangeTo'), (e['args_val'][1],), ('end',))]
                    why = c20.try_bound(F, r, i, e0)
                    k = (e['callee'], (e.get('span') or '').split('-')[0])
                    sites[k] = sites.get(k, True) and bool(why)
                elif e['kind'] == 'ovf_check' and e['msg'].startswith('Overflow(Add') and sym.contains(e['cond'], is_sym):
                    # `symbol + c` evaluated before the symbol is known to be in range: panics in checked builds for symbols
                    # near the top of the type (and wraps in unchecked ones)
                    c = e['cond']
                    ops = [x for x in sym.subterms(c) if isinstance(x, tuple) and x and x[0] == 'ovf']
                    a = ops[0][2] if ops else None
                    d = dbmmod.DBM()
                    pin = [(rules.inline_pure(F, t), v, bb) for t, v, bb in r.preds[:rules.preds_before(r, i)]]
                    dbmmod.harvest(d, c20._drop_wrapping_guards(pin))
                    lens = {x for t, v, _ in pin for x in sym.subterms(t) if isinstance(x, tuple) and x and x[0] == 'len'}
                    # `slice.get(i)?` / `if let Some(..) = slice.get(i)` bound i by the slice's length as well
                    lens |= {sym.mk_len(x[2][0]) for t, v, _ in pin for x in sym.subterms(t)
                             if isinstance(x, tuple) and x and x[0] == 'call' and isinstance(x[1], str) and x[1].endswith(('::get', '::get_mut')) and 'slice' in x[1] and len(x[2]) == 2}
                    ok = a is not None and any(d.entails_le(a, L) for L in lens)
                    k = ('overflow-checked `symbol + c`', (e.get('span') or str(e['block'])).split('-')[0])
                    sites[k] = sites.get(k, True) and ok
                elif e['kind'] == 'assert' and 'BoundsCheck' in str(e.get('msg')) and e['cond'][0] == 'bin' and sym.contains(e['cond'][2], is_sym):
                    c = e['cond']      # the *index* (not merely the length of some derived slice) is computed from the symbol
                    d = dbmmod.DBM()
                    dbmmod.harvest(d, c20._drop_wrapping_guards([(rules.inline_pure(F, t), v, bb) for t, v, bb in r.preds[:rules.preds_before(r, i)]]))
                    ok = c[0] == 'bin' and c[1] == 'Lt' and d.entails_le(c[2], c[3], strict=True)
                    k = ('index bounds check', str(e['block']))
                    sites[k] = sites.get(k, True) and ok
        for (what, where), ok in sorted(sites.items()):
            n_sites += 1
            key = 'R2/no-panic-on-symbol/%s/%s' % (b.defpath, what)
            role = 'an out-of-range symbol cannot make the support decision panic'
            ctx.touch(b)
            if ok:
                ctx.ok('R2', role, b.defpath, '%s at a symbol-derived position is dominated by an in-range guard' % what, key=key)
            else:
                ctx.bad('R2', role, b.defpath, '%s is reached with a position computed from the symbol and no dominating guard puts it in range: a symbol beyond the support makes the model panic instead of returning None, '
                        'so no coder reports the impossible-symbol error' % what, key=key, loc=where if ':' in where else rules.loc(b))
    ctx.extra['panicking_symbol_sites'] = n_sites


def check_support_decision(ctx, F):
    W = Wide(F)
    impls = [b for b in F.bodies if b.promoted is None and b.name == LOOKUP and b.impl_trait == MODEL_TRAIT and b.dk == 'AssocFn']
    impls += [b for b in F.bodies if b.promoted is None and b.name == 'encode_symbol_suffix' and b.impl_trait == 'symbol::EncoderCodebook' and b.self_adt == 'symbol::huffman::EncoderHuffmanTree']
    n = 0
    for b in impls:
        if b.defpath.startswith('<pybindings'):
            pass
        role = 'support decision is taken on the un-narrowed symbol'
        key = 'R3/no-narrowing/' + b.defpath
        ev, paths = rules.evaluate(b)
        ctx.touch(b, calls=sum(1 for _ in b.calls()))
        if paths is None:
            ctx.unresolved('R3', role, b.defpath, 'too many paths', key=key)
            continue
        # forwarding impls (`&M`): single call to the same method
        r1 = [r for r in paths if r.end == 'return']
        if len(r1) == 1:
            cs = [e for e in r1[0].events if e['kind'] == 'call']
            if len(cs) == 1 and cs[0]['name'] == b.name and r1[0].ret == cs[0]['result'] and cs[0]['args'][1:] == [('arg', 2)] + ([('arg', 3)] if b.arg_count == 3 else []):
                n += 1
                ctx.ok('R4', 'reference impl forwards the symbol unchanged', b.defpath, 'delegates to (*self).%s(symbol)' % b.name, key=key)
                continue
            # Option produced by one call taking the wide symbol (HashMap::get, slice::get)
        atom = ('arg', 2)
        dps = distinguishing_predicates(paths)
        opaque_ret = [r for r in r1 if outcome_of(r.ret) == 'opaque']
        n += 1
        if not dps and not opaque_ret:
            ctx.unresolved('R3', role, b.defpath, 'no predicate separates rejecting from accepting paths', key=key)
            continue
        bad = None
        n_sym = 0
        for t, prefix in dps:
            d = W.depends(t, atom)
            if d is None:
                continue
            n_sym += 1
            if d == 'narrow' and any(W.depends(tuple(g), atom) == 'wide' or _bound_exceeds_wide_type(g) for g in prefix):
                continue     # narrowed comparison under a dominating guard on the wide symbol (or: the bound exceeds the wide type)
            if d == 'narrow':
                bad = 'the accept/reject outcome is decided by `%s`, in which the symbol only occurs after a possibly narrowing conversion: a far-away symbol can alias an in-support one' % sym.show(effects.strip_uid(t))[:220]
        for r in opaque_ret:
            d = W.depends(r.ret, atom)
            if d == 'narrow':
                bad = 'the returned Option is computed from the narrowed symbol only (%s)' % sym.show(r.ret)[:160]
            elif d == 'wide':
                n_sym += 1
        if bad:
            ctx.bad('R3', role, b.defpath, bad, key=key, loc=rules.loc(b))
        elif n_sym == 0:
            ctx.unresolved('R3', role, b.defpath, 'the decision does not mention the symbol at all', key=key)
        else:
            ctx.ok('R3', role, b.defpath, '%d deciding predicate(s)/result(s), all over the un-narrowed symbol' % n_sym, key=key)
    ctx.extra['encoder_model_impls'] = n
    if n < 6:
        ctx.bad('R3', 'floor: EncoderModel impls', MODEL_TRAIT, 'only %d encoder-side lookups found (>= 6 on the reference tree)' % n, key='R3/floor/encoder-models')


# ---------------------------------------------------------------- clause 2, 3

def first_index(events, pred):
    for i, e in enumerate(events):
        if pred(e):
            return i
    return None


def is_self_mutation(e):
    if e['kind'] == 'write' and e['path'][:2] == (1, 'deref'):
        return True
    if e['kind'] == 'call' and e.get('uid') is not None:
        return any(p[:2] == (1, 'deref') for p in e['mut_paths'])
    return False


def _check_reported_variant(ctx, F, b, paths):
    """The exit taken when the model has no entry for the symbol reports the *impossible-symbol* error (the public variant
    `ImpossibleSymbol` of the coder's front-end error type), not a sibling variant: callers tell "this symbol cannot be
    encoded" from "the coder ran out of remainders / the backend failed" by the variant."""
    key = 'R2/impossible-symbol-variant/' + b.defpath
    role = 'a missing model entry is reported as ImpossibleSymbol'
    is_lookup = lambda x: isinstance(x, tuple) and x and x[0] == 'call' and str(x[1]).endswith(LOOKUP)
    names_variant = lambda t: sym.contains(t, lambda x: isinstance(x, tuple) and x and x[0] == 'agg' and isinstance(x[1], tuple) and x[1][0] == 'adt' and x[1][2] == 'ImpossibleSymbol')
    verdict = None
    n = 0
    for r in paths or []:
        if r.end != 'return' or outcome_of(r.ret) != 'reject':
            continue
        # the rejecting arm of the lookup
        took_none = False
        for e in r.events:
            if e['kind'] == 'branch' and e['term'][0] == 'discr' and sym.contains(e['term'][1], is_lookup):
                took_none = sym.discr_variant(e['term'], e['value']) in ('Break', 'None', 'Err')
                break
        if not took_none:
            continue
        n += 1
        err = None
        t = r.ret
        while isinstance(t, tuple) and t and t[0] == 'err_of':
            t = t[1]
        if isinstance(t, tuple) and t and t[0] == 'call' and str(t[1]).endswith(('Option::<T>::ok_or', 'Option::<T>::ok_or_else')) and len(t[2]) == 2:
            err = t[2][1]
            if err[0] == 'agg' and isinstance(err[1], tuple) and err[1][0] == 'closure':
                cb = F.by_def.get(err[1][1])
                _, cp = rules.evaluate(cb) if cb is not None else (None, None)
                rs = [x for x in cp or [] if x.end == 'return']
                err = rs[0].ret if len(rs) == 1 else None
        elif isinstance(t, tuple) and t and t[0] == 'agg':
            err = t
        if err is None:
            verdict = verdict or ('unresolved', 'the error value of the rejecting exit is not a literal, ok_or(..) or ok_or_else(|| ..)')
        elif not names_variant(err):
            verdict = ('bad', 'the rejecting exit of the model lookup returns %s, which is not the ImpossibleSymbol variant: the caller is told something else went wrong (and may e.g. give up instead of skipping the symbol)' % sym.show(err)[:120])
    if n == 0:
        return      # reported by the lookup-before-mutation rule
    if verdict and verdict[0] == 'bad':
        ctx.bad('R2', role, b.defpath, verdict[1], key=key, loc=rules.loc(b))
    elif verdict:
        ctx.unresolved('R2', role, b.defpath, verdict[1], key=key)
    else:
        ctx.ok('R2', role, b.defpath, '%d rejecting exit(s) of the lookup name the ImpossibleSymbol variant' % n, key=key)


def check_coders(ctx, F):
    coders = [b for b in F.bodies if b.promoted is None and b.name == 'encode_symbol' and b.impl_trait == 'stream::Encode' and b.dk == 'AssocFn'
              and not b.defpath.startswith('<pybindings')]
    n = 0
    for b in coders:
        ev, paths = rules.evaluate(b)
        ctx.touch(b, calls=sum(1 for _ in b.calls()))
        key = 'R2/lookup-before-mutation/' + b.defpath
        role = 'model lookup precedes every mutation; rejecting exits leave the coder untouched'
        if paths is None:
            ctx.unresolved('R2', role, b.defpath, 'too many paths', key=key)
            continue
        n += 1
        bad = None
        n_reject = 0
        n_paths = 0
        for r in paths:
            if r.end not in ('return', 'backedge', 'diverge'):
                continue
            n_paths += 1
            evs = r.events
            i_lookup = first_index(evs, lambda e: e['kind'] == 'call' and e['name'] == LOOKUP)
            i_mut = first_index(evs, is_self_mutation)
            # index of the Continue decision of the `?` applied to the lookup
            i_cont = None
            for i, e in enumerate(evs):
                # `?` on the lookup (discr(try(..)) Continue/Break) or an explicit match / if-let on it (Some/None, Ok/Err)
                if e['kind'] == 'branch' and e['term'][0] == 'discr' and sym.contains(e['term'][1], lambda x: isinstance(x, tuple) and x and x[0] == 'call' and x[1].endswith(LOOKUP)):
                    variant = sym.discr_variant(e['term'], e['value'])
                    if variant in ('Continue', 'Some', 'Ok'):
                        i_cont = i
                    elif variant in ('Break', 'None', 'Err') and (r.end != 'return' or outcome_of(r.ret) == 'reject'):
                        i_cont = -1
                    else:
                        i_cont = None
                    break
            if i_lookup is None:
                if i_mut is not None:
                    bad = 'a path mutates the coder without consulting the model'
                continue
            if i_cont is None:
                bad = 'the result of the model lookup is neither `?`-propagated nor matched with a rejecting arm'
                break
            if i_cont == -1:
                n_reject += 1
                if i_mut is not None:
                    bad = 'the ImpossibleSymbol exit is reached after the coder was already modified (%s at %s)' % (_what(evs[i_mut]), evs[i_mut].get('span', '?').split('-')[0])
                    break
                continue
            if i_mut is not None and i_mut < i_cont:
                bad = 'the coder is modified (%s at %s) before the symbol is known to be encodable' % (_what(evs[i_mut]), evs[i_mut].get('span', '?').split('-')[0])
                break
            # further frontend rejections (range coder: zero range): any Err exit without a preceding *backend* call must be clean
            if r.end == 'return' and outcome_of(r.ret) == 'reject':
                backend_calls = [e for e in evs if e['kind'] == 'call' and e.get('uid') is not None and e['fn'] and e['fn'].get('trait') in ('backends::WriteWords', 'backends::ReadWords')]
                local_mut_calls = [e for e in evs if e['kind'] == 'call' and e.get('uid') is not None and any(p == (1, 'deref') for p in e['mut_paths'])]
                if not backend_calls and not local_mut_calls:
                    n_reject += 1
                    if i_mut is not None:
                        bad = 'a front-end rejection is returned after the coder was modified (%s at %s)' % (_what(evs[i_mut]), evs[i_mut].get('span', '?').split('-')[0])
                        break
        _check_reported_variant(ctx, F, b, paths)
        if bad:
            ctx.bad('R2', role, b.defpath, bad, key=key, loc=rules.loc(b))
        elif n_reject == 0:
            ctx.bad('R2', role, b.defpath, 'no rejecting exit found: impossible symbols are not reported', key=key, loc=rules.loc(b))
        else:
            ctx.ok('R2', role, b.defpath, '%d paths; %d clean rejecting exits; first mutation always after the lookup `?`' % (n_paths, n_reject), key=key)
        # clause 3 (ANS only): write-before-commit
        if b.self_adt == 'stream::stack::AnsCoder':
            k3 = 'R2/write-before-commit/' + b.defpath
            bad3 = None
            n_w = 0
            for r in paths:
                evs = r.events
                for i, e in enumerate(evs):
                    if e['kind'] == 'call' and e.get('uid') is not None and e['fn'] and e['fn'].get('trait') == 'backends::WriteWords':
                        n_w += 1
                        prior = [x for x in evs[:i] if x['kind'] == 'write' and x['path'][:2] == (1, 'deref')]
                        if prior:
                            bad3 = 'state is assigned (%s) before the fallible backend write at %s: a failed write leaves a corrupted coder' % (
                                sym.path_str(prior[0]['path']), e['span'].split('-')[0])
            if bad3:
                ctx.bad('R2', 'ANS writes the flushed word before committing the new state', b.defpath, bad3, key=k3, loc=rules.loc(b))
            elif n_w == 0:
                ctx.unresolved('R2', 'ANS writes the flushed word before committing the new state', b.defpath, 'no backend write found', key=k3)
            else:
                ctx.ok('R2', 'ANS writes the flushed word before committing the new state', b.defpath, 'no assignment to the coder precedes a backend write on any path', key=k3)
    if n < 3:
        ctx.bad('R2', 'floor: Encode impls', 'stream::Encode', 'only %d encode_symbol impls found (AnsCoder, RangeEncoder, ChainCoder expected)' % n, key='R2/floor/encode-impls')


def _what(e):
    if e['kind'] == 'write':
        return 'assignment to ' + sym.path_str(e['path'])
    return 'call ' + e['callee']


# ---------------------------------------------------------------- clause 4

def check_huffman(ctx, F):
    b = [x for x in F.bodies if x.promoted is None and x.name == 'encode_symbol_suffix' and x.self_adt == 'symbol::huffman::EncoderHuffmanTree']
    key = 'R2/huffman-reject-before-emit'
    role = 'out-of-alphabet symbol is rejected before any bit is emitted'
    if not b:
        ctx.bad('R2', role, 'symbol::huffman::EncoderHuffmanTree', 'encode_symbol_suffix not found (anchor missing)', key=key)
    else:
        b = b[0]
        ev, paths = rules.evaluate(b)
        ctx.touch(b)
        bad = None
        n_rej = 0
        for r in paths or []:
            if r.end != 'return' or outcome_of(r.ret) != 'reject':
                continue
            emits = [e for e in r.events if e['kind'] == 'call' and (e['callee'].endswith('FnMut::call_mut') or e['callee'].endswith('FnOnce::call_once'))]
            frontend = r.ret is not None and sym.contains(r.ret, lambda x: isinstance(x, tuple) and x and x[0] == 'agg' and isinstance(x[1], tuple) and x[1][0] == 'adt' and x[1][2] == 'ImpossibleSymbol')
            if frontend:
                n_rej += 1
                if emits:
                    bad = 'bits are emitted before the symbol is rejected'
        if bad or n_rej == 0:
            ctx.bad('R2', role, b.defpath, bad or 'no ImpossibleSymbol exit', key=key, loc=rules.loc(b))
        else:
            ctx.ok('R2', role, b.defpath, '%d rejecting exit(s), none after an emit call' % n_rej, key=key)
    for name, inner in (('encode_symbol_prefix', 'encode_symbol_suffix'), ('encode_symbol_suffix', 'encode_symbol_prefix')):
        d = [x for x in F.bodies if x.promoted is None and x.trait == 'symbol::EncoderCodebook' and x.name == name and x.impl is None]
        key = 'R2/huffman-adaptor-buffers/' + name
        role = 'default adaptor buffers the codeword before emitting'
        if not d:
            ctx.bad('R2', role, 'symbol::EncoderCodebook::' + name, 'default body not found', key=key)
            continue
        d = d[0]
        ev, paths = rules.evaluate(d)
        ctx.touch(d)
        bad = None
        seen = 0
        for r in paths or []:
            evs = r.events
            i_inner = first_index(evs, lambda e: e['kind'] == 'call' and e['name'] == inner)
            i_emit = first_index(evs, lambda e: e['kind'] == 'call' and e['callee'].endswith(('FnMut::call_mut', 'FnOnce::call_once')) and e['args'] and e['args'][0][0] == 'ref' and e['args'][0][1][0] == 3)
            if i_inner is None:
                if i_emit is not None:
                    bad = 'emits without producing the codeword first'
                continue
            seen += 1
            cl = evs[i_inner]['args'][2] if len(evs[i_inner]['args']) > 2 else None
            if cl is not None and sym.contains(cl, lambda x: x == ('arg', 3) or (isinstance(x, tuple) and x and x[0] == 'ref' and x[1][0] == 3)):
                bad = 'the inner call is handed the real `emit` callback: bits reach the sink before a rejection can be reported'
            if i_emit is not None and i_emit < i_inner:
                bad = 'emit is called before the codeword has been produced'
        if bad or not seen:
            ctx.bad('R2', role, d.defpath, bad or 'inner call not found', key=key, loc=rules.loc(d))
        else:
            ctx.ok('R2', role, d.defpath, 'inner call gets a closure over the local bit stack only; emit follows', key=key)


def check_symbol_fetched_once(ctx, F):
    """A symbol handed in as `impl Borrow<Symbol>` is the caller's code: every `borrow()` is a separate fetch and a safe (if
    unusual) implementation may answer differently each time.  So on every path the fetch that is *used* (flows into the
    result, into a callee or into a write) is the very fetch the support decisions of that path examined; a function that
    range-checks one fetch and computes with another lets an out-of-support value through behind the check - the coder then
    encodes with a nonsensical interval and corrupts what was encoded before."""
    import props.C20 as c20
    n = 0
    for b in F.bodies:
        if b.promoted is not None or b.derived or '::tests::' in b.defpath or b.dk not in ('Fn', 'AssocFn') or b.file.startswith('pybindings'):
            continue
        sat = c20._sig_arg_types(b)
        if not any('Borrow<' in t for t in sat):
            # explicit generic with a Borrow bound: found through the call below
            pass
        sites = 0
        for blk, t in b.calls():
            c = facts.callee(t)
            if c and c['def'] == 'core::borrow::Borrow::borrow' and c.get('args'):
                a0 = c['args'][0]
                ty = F.types[a0['ty']] if isinstance(a0, dict) and 'ty' in a0 else None
                if ty and ty.get('k') == 'param' and ty.get('name') in sat:
                    sites += 1
        if sites == 0:
            continue
        n += 1
        key = 'R6/symbol-fetched-once/' + b.defpath
        role = 'the caller\'s `impl Borrow` value is fetched once: what is checked is what is used'
        ctx.touch(b)
        if sites == 1:
            # one call site outside a loop is one fetch; inside a loop it is one fetch per iteration of a stable value?  no: flag loops below
            pass
        try:
            _, paths = rules.evaluate(b, call_hook=c20._fresh_user_views)
        except sym.TooManyPaths:
            paths = None
        if paths is None:
            ctx.unresolved('R6', role, b.defpath, 'too many paths', key=key)
            continue
        is_view = lambda x: isinstance(x, tuple) and x and x[0] == 'call' and str(x[1]).startswith('user-view@')
        bad = None
        for r in paths:
            G, U = {}, {}
            for t, v, _ in r.preds:
                for x in sym.subterms(t):
                    if is_view(x):
                        G.setdefault(x[2], set()).add(x[1])
            terms = ([r.ret] if r.ret is not None else []) + [a for e in r.events if e['kind'] == 'call' and not str(e['callee']).startswith('user-view@') for a in e.get('args_val', e['args'])] + [e['value'] for e in r.events if e['kind'] in ('write', 'write_ref')]
            for t in terms:
                for x in sym.subterms(t):
                    if is_view(x):
                        U.setdefault(x[2], set()).add(x[1])
            for obj, used in U.items():
                key_obj = obj
                obj = obj[0] if isinstance(obj, tuple) and len(obj) == 1 and isinstance(obj[0], tuple) else obj
                # only the function's own `impl Borrow` arguments (views of a stored user container are C20's single-fetch rule)
                if not (isinstance(obj, tuple) and obj and (obj[0] == 'arg' or (obj[0] == 'in' and isinstance(obj[1][0], int) and 1 <= obj[1][0] <= b.arg_count))):
                    continue
                g = G.get(key_obj, set())
                if len(used | g) > 1:
                    bad = 'on one path %d separate fetches of the caller\'s value are in play (%d examined by the path\'s decisions, %d used in the result): a `Borrow` implementation that answers differently between calls gets a value past the support check' % (len(used | g), len(g), len(used))
                    break
            if bad:
                break
        if bad:
            ctx.bad('R6', role, b.defpath, bad, key=key, loc=rules.loc(b))
        else:
            ctx.ok('R6', role, b.defpath, '%d borrow() site(s); no path mixes fetches' % sites, key=key)
    ctx.extra['borrow_arg_functions'] = n
    ctx.floor('R6', 'floor: functions that fetch an `impl Borrow` argument', 'crate', n, 8, 'only %d functions with a borrow() of an `impl Borrow` argument found' % n, key='R6/floor/symbol-fetched-once')


def check_symbol_batch(ctx, F):
    """The batch form of the symbol-code writers is the per-symbol loop that stops at the first rejected symbol: nothing behind
    an out-of-alphabet symbol is written (same rule as C01's for the stream coders), and no implementor replaces it."""
    import props.C01 as c01
    TR = 'symbol::WriteBitStream'
    c01.loop_batch_check(ctx, F, 'encode_symbols', False, ENC=TR)
    n = 0
    for imp in F.impls:
        if imp.get('trait') != TR:
            continue
        n += 1
        over = [i['name'] for i in imp['items'] if i['name'] in ('encode_symbols', 'encode_iid_symbols')]
        key = 'R4/symbol-batch-not-overridden/' + imp['path']
        role = 'implementor keeps the provided batch forms'
        if over:
            ctx.bad('R4', role, imp['path'], '`%s` overrides %s: the batch form is no longer the per-symbol loop by construction' % (imp.get('trait_ref'), over), key=key, loc=imp['span']['at'].split('-')[0])
        else:
            ctx.ok('R4', role, imp['path'], '%s provides only the per-symbol writer' % imp.get('trait_ref'), key=key)
    ctx.floor('R4', 'floor: WriteBitStream implementors', 'crate', n, 2, 'only %d impls of symbol::WriteBitStream found (queue and stack writers expected)' % n, key='R4/floor/symbol-writers', public=True)


def run(ctx):
    for cfg, F in ctx.facts_by_config.items():
        if cfg == 'default' or cfg == 'pybindings':
            sub = ctx if cfg == 'default' else None
            if cfg == 'default':
                check_support_decision(ctx, F)
                check_coders(ctx, F)
                check_huffman(ctx, F)
                check_symbol_batch(ctx, F)
                check_symbol_fetched_once(ctx, F)
                check_no_panic_on_symbol(ctx, F)
                from vlib import errdisc
                errdisc.check(ctx, F, floor=120)     # the impossible-symbol error (and every other) reaches the caller
            else:
                # thorough tier: the Python-side models go through the same rule
                n0 = len(ctx.obs)
                _check_pybindings(ctx, F)
    ctx.assume('a backend whose write() fails has not written (safe trait contract of WriteWords)')
    ctx.assume('models supplied by the user honour EncoderModel: None outside the support')
    return {
        'level': 'other',
        'explanation': 'Information-flow rule over the value graph of every encoder-side model: the predicates that separate rejecting from accepting paths must mention the symbol outside any possibly-narrowing '
                       'conversion (crate-local helpers summarised one level); ordering rule over every path of the three Encode::encode_symbol impls: the Continue edge of the lookup `?` precedes the first '
                       'mutation of the coder and every rejecting exit is mutation-free; ANS: no assignment to the coder precedes the fallible backend write; Huffman: rejection before emission. '
                       'These are necessary conditions of C09 that hold for all models, symbols and histories; the exact extent of each model\'s support is value-level and not decided.',
        'trusted_base': ['rustc type checker + MIR construction', 'cfacts extractor', 'Rust aliasing rules', 'WriteWords contract (failed write writes nothing)'],
    }


def _check_pybindings(ctx, F):
    W = Wide(F)
    impls = [b for b in F.bodies if b.promoted is None and b.name == LOOKUP and b.impl_trait == MODEL_TRAIT and b.defpath.startswith('<pybindings')]
    for b in impls:
        key = 'R3/no-narrowing/' + b.defpath
        ev, paths = rules.evaluate(b)
        ctx.touch(b)
        if not paths:
            ctx.unresolved('R3', 'support decision is taken on the un-narrowed symbol', b.defpath, 'too many paths', key=key)
            continue
        dps = distinguishing_predicates(paths)
        narrow = [t for t, prefix in dps if W.depends(t, ('arg', 2)) == 'narrow' and not any(W.depends(tuple(g), ('arg', 2)) == 'wide' or _bound_exceeds_wide_type(g) for g in prefix)]
        if narrow:
            ctx.bad('R3', 'support decision is taken on the un-narrowed symbol', b.defpath, 'decided by ' + sym.show(narrow[0])[:200], key=key, loc=rules.loc(b))
        else:
            ctx.ok('R3', 'support decision is taken on the un-narrowed symbol', b.defpath, 'pybindings configuration: %d deciding predicates' % len(dps), key=key)
