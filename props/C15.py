"""C15 — Huffman code books are mutually consistent (partial).

Statically decided clauses:
  1. same merge protocol (R4): EncoderHuffmanTree::try_from_probabilities and DecoderHuffmanTree::
     try_from_probabilities build the heap from the same keyed source `enumerate().map(|(i, s)| Reverse((s, i)))`
     (deterministic tie-break by symbol index), pop two, push `Reverse((w0 + w1, next))` with `next` starting
     at the number of symbols and stepping by one per merge; the child popped first is bit 0 in both
  2. out-of-alphabet symbols are rejected before any bit is emitted; the default prefix<->suffix adaptors buffer
     into a local stack first (shared with C09)
  3. the entry index of the unchecked table walks is in bounds (shared with C20)
Not decided: prefix-freeness, Kraft equality, optimality (statements about code lengths / bit patterns).
"""
from vlib import sym, rules, effects, dageq
from vlib.facts import callee
import props.C09 as c09

ENC = 'symbol::huffman::EncoderHuffmanTree'
DEC = 'symbol::huffman::DecoderHuffmanTree'
BUILDER = 'try_from_probabilities'


def builder_signature(F, b):
    """Role-normalised description of one builder's merge loop."""
    ev, paths = rules.evaluate(b)
    canon = dageq.Canon(F)
    sig = {}
    if paths is None:
        return None
    for r in paths:
        if r.end != 'backedge':
            continue
        pops = [e for e in r.events if e['kind'] == 'call' and e['callee'].endswith('BinaryHeap::<T, A>::pop')]
        pushes = [e for e in r.events if e['kind'] == 'call' and e['callee'].endswith('BinaryHeap::<T, A>::push')]
        sig['pops_per_merge'] = len(pops)
        sig['pushes_per_merge'] = len(pushes)
        if len(pops) != 2 or len(pushes) != 1:
            return sig
        first, second = pops[0]['result'], pops[1]['result']
        roles = {}

        def role(t):
            def f(n):
                # the number of entries, asked of the heap or of the vector it was built from
                if n and n[0] == 'call' and str(n[1]).endswith('BinaryHeap::<T, A>::len') and len(n[2]) == 1:
                    return sym.mk_len(n[2][0])
                # the item of a pop that is known to have yielded one: a pattern payload, `unwrap()` or `expect(..)` alike
                if n and n[0] == 'call' and str(n[1]).endswith(('Option::<T>::expect', 'Option::<T>::unwrap', 'Option::<T>::unwrap_unchecked')) and n[2] \
                        and isinstance(n[2][0], tuple) and n[2][0] and n[2][0][0] == 'call' and str(n[2][0][1]).endswith('BinaryHeap::<T, A>::pop'):
                    return ('payload', n[2][0], 'Some', '0')
                if n == first:
                    return ('POP0',)
                if n == second:
                    return ('POP1',)
                if n and n[0] == 'loop' and len(n[2]) == 1:
                    return roles.setdefault(n, ('LOOPVAR%d' % len(roles),))
                if n and n[0] == 'post' and len(n[2]) == 1:
                    return ('HEAP_AFTER_POP',)
                return None
            return effects.rebuild(t, f)
        # heap source (pre-loop value of the heap local)
        heap_path = pops[0]['args'][0][1]
        for e in r.events:
            if e['kind'] == 'loop_enter' and heap_path in e['pre']:
                sig['heap_source'] = repr(canon.term(e['pre'][heap_path]))
        sig['push_arg'] = repr(canon.term(role(pushes[0]['args'][1])))
        # the weight component alone (the index of the new node may be kept in a counter or computed from table sizes)
        pa = pushes[0]['args'][1]
        if pa[0] == 'agg' and pa[2] and pa[2][0][0] == 'agg' and len(pa[2][0][2]) == 2:
            sig['push_weight'] = repr(canon.term(role(pa[2][0][2][0])))
        # the counter that names the new node: second component of the pushed key; init and step
        pushed = pushes[0]['args'][1]
        nxt = None
        if pushed[0] == 'agg' and pushed[2] and pushed[2][0][0] == 'agg' and len(pushed[2][0][2]) == 2:
            nxt = pushed[2][0][2][1]
        if nxt is not None and nxt[0] == 'loop':
            for e in r.events:
                if e['kind'] == 'loop_enter' and nxt[2] in e['pre']:
                    sig['next_init'] = repr(canon.term(role(e['pre'][nxt[2]])))
            fin = ev.final_read(r, nxt[2])
            d = sym.affine_sub(sym.affine(fin), sym.affine(nxt))
            sig['next_step'] = None if d[0] else d[1]
        # bit assignment: which popped index is child 0
        bit0 = None
        for e in r.events:
            if e['kind'] == 'write_ref' and e['ref'][0] == 'call' and 'get_unchecked_mut' in e['ref'][1]:
                idx = e['ref'][2][1]
                val = e['value']
                is_zero_bit = not (val[0] == 'bin' and val[1] == 'BitOr')
                which = 'POP0' if sym.contains(idx, lambda y: y == first) else ('POP1' if sym.contains(idx, lambda y: y == second) else '?')
                if is_zero_bit:
                    bit0 = which
            if e['kind'] == 'call' and e['callee'].endswith('Vec::<T, A>::push') and len(e['args']) == 2 and e['args'][1][0] == 'agg' and e['args'][1][1] == 'array':
                a0 = e['args'][1][2][0]
                bit0 = 'POP0' if sym.contains(a0, lambda y: y == first) else ('POP1' if sym.contains(a0, lambda y: y == second) else '?')
        sig['bit0_child'] = bit0
    return sig


def check_emit_callbacks(ctx, F):
    """Code words have no length bound (a Huffman tree over n symbols can be n-1 deep), so a callback that receives the
    bits of a code word must forward them or store them in a growable bit container.  A callback that shifts them into a
    fixed-width integer (`acc = acc << 1 | bit`) silently loses the bits of code words longer than that integer."""
    n = 0
    for b in F.bodies:
        if b.promoted is not None or '::tests::' in b.defpath or b.dk not in ('Fn', 'AssocFn') or 'symbol' not in b.defpath:
            continue
        for blk, t in b.calls():
            c = callee(t) or {}
            if (c.get('name') or '') not in ('encode_symbol_prefix', 'encode_symbol_suffix'):
                continue
            # the emit argument: a closure defined in this body
            for cb in F.closures_of(b):
                _, cp = rules.evaluate(cb)
                writes = []
                calls = []
                for r in cp or []:
                    for e in r.events:
                        if e['kind'] in ('write', 'write_ref'):
                            writes.append(e)
                        if e['kind'] == 'call' and e.get('uid') is not None:
                            calls.append(e)
                if cb.arg_count != 2 or F.ty_s(cb.local_ty(2)) != 'bool':
                    continue
                n += 1
                ctx.touch(cb)
                key = 'R2/emit-callback/' + cb.defpath
                role = 'a callback that receives code-word bits forwards them or stores them in a growable container'
                shifty = [e for e in writes if sym.contains(e['value'], lambda x: isinstance(x, tuple) and x and x[0] == 'bin' and x[1].split('.')[0] == 'Shl' and sym.contains(x[2], lambda y: isinstance(y, tuple) and y and y[0] == 'in'))]
                if shifty:
                    ctx.bad('R2', role, cb.defpath, 'the callback shifts the bits into a fixed-width integer (%s): code words longer than that integer (a Huffman tree over n symbols can be n-1 deep) lose their first bits, so the prefix form is no longer the reversed suffix form' % sym.show(shifty[0]['value'])[:80],
                            key=key, loc=rules.loc(cb))
                elif calls:
                    ctx.ok('R2', role, cb.defpath, 'forwards each bit to %s' % calls[0]['callee'].rsplit('::', 1)[-1], key=key)
                else:
                    ctx.unresolved('R2', role, cb.defpath, 'callback neither forwards nor stores the bit in a recognised way', key=key)
            break
    if n < 2:
        ctx.unresolved('R2', 'a callback that receives code-word bits forwards them or stores them in a growable container', 'symbol', 'only %d emit callbacks found' % n, key='R2/emit-callback/floor')


def check_prefix_pops_stack(ctx, F):
    """The provided prefix form buffers the suffix form on a scratch stack and emits it in pop order.  Accepted: every bit handed
    to `emit` comes out of the stack's own reader (its Iterator / read_bit; that it pops in reverse is C16's business).  A
    hand-rolled walk over the buffered words is refuted when it visits the flushed words front to back: the word written
    first then comes out first, so code words longer than one buffer word come out with their blocks in the wrong order."""
    TR = 'symbol::EncoderCodebook'
    key = 'R2/prefix-pops-stack/' + TR
    role = 'the prefix form emits the buffered suffix form in pop order'
    bs = [b for b in F.bodies if b.promoted is None and b.name == 'encode_symbol_prefix' and b.trait == TR and b.impl is None]
    if not bs:
        return ctx.unresolved('R2', role, TR, 'provided encode_symbol_prefix not found', key=key)
    b = bs[0]
    ctx.touch(b)
    ev, paths = rules.evaluate(b)
    if not paths:
        return ctx.unresolved('R2', role, b.defpath, 'not evaluated', key=key)
    n_ok = 0
    unk = None
    is_call = lambda x, suf: isinstance(x, tuple) and x and x[0] == 'call' and str(x[1]).endswith(suf)
    for r in paths:
        pre = {}
        for e in r.events:
            if e['kind'] == 'loop_enter':
                for k, v in e['pre'].items():
                    pre[(e['head'], tuple(k) if isinstance(k, (list, tuple)) else k)] = v
        for e in r.events:
            if e['kind'] != 'call' or not e['callee'].endswith(('FnMut::call_mut', 'FnOnce::call_once', 'Fn::call')):
                continue
            if not e['args'] or not (e['args'][0][0] == 'ref' and e['args'][0][1] and e['args'][0][1][0] == 3):
                continue
            bit = e['args'][1]
            srcs = []
            for x in sym.subterms(bit):
                if is_call(x, 'Iterator::next') and x[2]:
                    it = x[2][0]
                    if isinstance(it, tuple) and it and it[0] == 'loop':
                        it = pre.get((it[1], tuple(it[2])), it)
                    srcs.append(it)
                if is_call(x, 'read_bit'):
                    srcs.append(('stack',))
            if not srcs:
                unk = 'a bit handed to emit is computed without the stack\'s reader (%s)' % sym.show(bit)[:70]
                continue
            for it in srcs:
                if it == ('stack',):
                    n_ok += 1
                    continue
                fwd = True
                core = it
                while isinstance(core, tuple) and core and core[0] == 'call' and core[2]:
                    if str(core[1]).endswith(('::rev', 'DoubleEndedIterator::rev')):
                        fwd = not fwd
                    core = core[2][0]
                if isinstance(core, tuple) and core and core[0] == 'proj' or sym.show(core).endswith('.backend'):
                    if fwd:
                        return ctx.bad('R2', role, b.defpath, 'emit is fed from a front-to-back walk over the words of the scratch stack (%s): the words flushed first are emitted first, so a code word longer than one buffer word is not the reversed suffix form' % sym.show(it)[:80], key=key, loc=rules.loc(b))
                    unk = 'hand-rolled back-to-front walk over the buffered words'
                elif 'SymbolCoder' in sym.show(core):
                    n_ok += 1
                else:
                    unk = 'bits come from %s' % sym.show(core)[:60]
    if unk:
        return ctx.unresolved('R2', role, b.defpath, unk, key=key)
    if not n_ok:
        return ctx.unresolved('R2', role, b.defpath, 'no emit call found', key=key)
    ctx.ok('R2', role, b.defpath, 'every emitted bit is popped from the scratch stack by its own reader', key=key)


def _prepared_weights(F, b):
    """canonical form of the argument(s) the wrapper hands to the tree builder (closures by fingerprint), or None."""
    canon = dageq.Canon(F)
    _, paths = rules.evaluate(b)
    out = set()
    for r in paths or []:
        for e in r.events:
            if e['kind'] == 'call' and e['callee'].endswith('::' + BUILDER):
                out.add(repr(tuple(canon.term(a) for a in e['args_val'])).replace('EncoderHuffmanTree', 'Tree').replace('DecoderHuffmanTree', 'Tree'))
    return out or None


def check_wrapper_siblings(ctx, F):
    """The convenience constructors of the two trees (from_probabilities, from_float_probabilities) feed the shared merge
    protocol: encoder and decoder must prepare the weights identically (same conversion, same NaN handling, same
    arithmetic type), otherwise sums of inner nodes round differently and the two trees disagree."""
    for name in ('from_probabilities', 'from_float_probabilities'):
        key = 'R4/wrapper-siblings/' + name
        role = 'encoder and decoder tree prepare their weights identically in %s' % name
        e = [b for b in F.bodies if b.promoted is None and b.name == name and b.self_adt == ENC]
        d = [b for b in F.bodies if b.promoted is None and b.name == name and b.self_adt == DEC]
        if not e or not d:
            ctx.unresolved('R4', role, 'symbol::huffman', 'constructor not found on both trees', key=key)
            continue
        ctx.touch(e[0]); ctx.touch(d[0])
        norm = lambda fp: repr(sorted(repr(x) for x in fp)).replace('EncoderHuffmanTree', 'Tree').replace('DecoderHuffmanTree', 'Tree') if not isinstance(fp, tuple) else None
        fe, fd = norm(dageq.fingerprint(e[0])), norm(dageq.fingerprint(d[0]))
        if fe is None or fd is None:
            ctx.unresolved('R4', role, e[0].defpath, 'too many paths', key=key)
        elif fe == fd:
            ctx.ok('R4', role, e[0].defpath, 'structurally identical up to the tree type (closures included)', key=key)
        elif _prepared_weights(F, e[0]) is not None and _prepared_weights(F, e[0]) == _prepared_weights(F, d[0]):
            # what happens to the builder's *result* (unwrap_infallible vs. an explicit match on the Infallible error) does not
            # touch the weights: compare what is handed to the shared builder
            ctx.ok('R4', role, e[0].defpath, 'the weights handed to the shared builder are prepared identically (the handling of the builder\'s result differs in spelling only)', key=key)
        else:
            ctx.bad('R4', role, e[0].defpath, 'the two constructors differ (%s): weights that reach the shared merge loop in different types or after different conversions can order differently, so a code word of the encoder tree decodes to another symbol' % (
                dageq.diff(dageq.fingerprint(e[0]), dageq.fingerprint(d[0]))[:300]), key=key, loc=rules.loc(e[0]))


def _eval_with(t, subst):
    """integer value of a term in which the terms of `subst` are replaced by numbers (None if anything else remains)."""
    for k, v in subst:
        if t == k:
            return v
    if sym.is_int(t):
        return t[1]
    if not isinstance(t, tuple) or not t:
        return None
    if t[0] == 'cast':
        return _eval_with(t[2], subst)
    if t[0] == 'bin':
        x, y = _eval_with(t[2], subst), _eval_with(t[3], subst)
        if x is None or y is None:
            return None
        op = t[1].split('.')[0]
        return {'Add': x + y, 'Sub': x - y, 'Mul': x * y}.get(op, (x // y) if op == 'Div' and y else ((x >> y) if op == 'Shr' else ((x << y) if op == 'Shl' else None)))
    return None


def check_num_symbols(ctx, F):
    """`num_symbols()` of each tree inverts the size relation of its builder.  The builders allocate the node table from the
    number n of weights (encoder: `vec![0; 2n - 1]`, decoder: `Vec::with_capacity(n - 1)` filled with one entry per merge);
    the accessor recovers n from the table length.  The two trees use different layouts, so the formulas differ - a formula
    copied from the sibling is wrong by a factor of two.  Decided by evaluating both terms for n = 1..8."""
    for adt in (ENC, DEC):
        key = 'R4/num-symbols-inverts-builder/' + adt
        role = 'num_symbols() recovers the alphabet size from the node table the builder allocates'
        acc = [b for b in F.bodies if b.promoted is None and b.name == 'num_symbols' and b.self_adt == adt and b.impl_trait is None]
        bld = [b for b in F.bodies if b.promoted is None and b.name == BUILDER and b.self_adt == adt]
        if not acc or not bld:
            ctx.unresolved('R4', role, adt, 'accessor or builder not found', key=key)
            continue
        ctx.touch(acc[0])
        _, pa = rules.evaluate(acc[0])
        ra = [r for r in pa or [] if r.end == 'return']
        _, pb = rules.evaluate(bld[0])
        size = None
        for r in pb or []:
            for e in r.events:
                if e['kind'] == 'call' and (e['callee'].endswith('vec::from_elem') or e['callee'].endswith('::with_capacity')):
                    t = e['args_val'][-1] if e['callee'].endswith('::with_capacity') else e['args_val'][1]
                    hl = [x for x in sym.subterms(t) if isinstance(x, tuple) and x and x[0] == 'call' and str(x[1]).endswith('BinaryHeap::<T, A>::len')]
                    if hl:
                        size = (t, hl[0])
        if len(ra) != 1 or size is None:
            ctx.unresolved('R4', role, adt, 'accessor has several paths or the builder does not size the node table from the heap length', key=key)
            continue
        lens = [x for x in sym.subterms(ra[0].ret) if isinstance(x, tuple) and x and x[0] == 'len']
        bad = None
        for n in range(1, 9):
            L = _eval_with(size[0], [(size[1], n)])
            got = _eval_with(ra[0].ret, [(l, L) for l in lens]) if L is not None else None
            if L is None or got is None:
                bad = ('unresolved', 'terms not evaluable')
                break
            if got != n:
                bad = ('bad', 'for %d symbols the builder allocates %d node entries, from which num_symbols() computes %d: the accessor does not invert the layout of its own tree (the sibling tree\'s formula?), so the two trees built from the same weights disagree about the size of the alphabet' % (n, L, got))
                break
        if bad and bad[0] == 'bad':
            ctx.bad('R4', role, acc[0].defpath, bad[1], key=key, loc=rules.loc(acc[0]))
        elif bad:
            ctx.unresolved('R4', role, acc[0].defpath, bad[1], key=key)
        else:
            ctx.ok('R4', role, acc[0].defpath, 'table size %s, accessor %s: identity for n = 1..8' % (sym.show(size[0])[-40:], sym.show(ra[0].ret)[:40]), key=key)


def check_rejects_before_accepting(ctx, F):
    """Every way out of encode_symbol_suffix that reports success has passed the alphabet test: an out-of-alphabet symbol is
    an error, whatever the size of the code book (a one-symbol code book has an empty code word, but still only one symbol)."""
    bs = [b for b in F.bodies if b.promoted is None and b.name == 'encode_symbol_suffix' and b.self_adt == ENC and (b.impl_trait or '').endswith('EncoderCodebook')]
    key = 'R2/success-implies-in-alphabet/' + ENC
    role = 'encode_symbol_suffix succeeds only for symbols of the alphabet'
    if not bs:
        return ctx.unresolved('R2', role, ENC, 'encode_symbol_suffix not found', key=key)
    b = bs[0]
    ctx.touch(b)
    _, paths = rules.evaluate(b)
    is_sym = lambda x: x == ('arg', 2) or (isinstance(x, tuple) and x and x[0] == 'in' and x[1][0] == 2)
    n_ok = 0
    bad = None
    for r in paths or []:
        if r.end == 'backedge' or (r.end == 'return' and rules.ret_shape(r.ret)[0] == 'Ok'):
            n_ok += 1
            if not any(sym.contains(t, is_sym) and sym.contains(rules.inline_pure(F, t), lambda x: isinstance(x, tuple) and x and x[0] == 'len') for t, v, _ in r.preds):
                bad = 'a path reports success (or starts emitting) without having compared the symbol with the size of the code book: a symbol outside the alphabet is silently accepted and vanishes from the bit stream'
    if bad:
        ctx.bad('R2', role, b.defpath, bad, key=key, loc=rules.loc(b))
    elif not n_ok:
        ctx.unresolved('R2', role, b.defpath, 'no successful path', key=key)
    else:
        ctx.ok('R2', role, b.defpath, '%d successful / emitting path(s), each behind the alphabet test' % n_ok, key=key)


def check_weight_wrapper(ctx, F):
    """Float weights reach the two tree builders through a private ordered wrapper.  For the float constructors to build the
    same code books as the integer constructors on equal weights (and on each other),
      (a) the wrapper rejects exactly the weights that cannot be ordered (NaN): its refusing exit is decided by an `is_nan`
          test (or `x != x`), never by an ordering comparison, which would also turn away ordinary weights such as 0.0;
      (b) its `Ord` is the numeric order (partial_cmp of the floats), so that equal weights - including 0.0 and -0.0 -
          compare equal and the tie is broken by the symbol index; the IEEE total order separates them.
    The wrapper type is found semantically: the crate-local type in the Huffman module that implements `Ord`."""
    ords = [b for b in F.bodies if b.promoted is None and b.name == 'cmp' and b.impl_trait == 'core::cmp::Ord' and (b.self_adt or '').startswith('symbol::huffman::')]
    keya, keyb = 'R4/weight-wrapper/rejects-nan-only', 'R4/weight-wrapper/numeric-order'
    if not ords:
        ctx.unresolved('R4', 'float weight wrapper', 'symbol::huffman', 'no crate-local Ord impl in the Huffman module (float weights are ordered some other way)', key=keya)
        return
    adt = ords[0].self_adt
    # (b)
    b = ords[0]
    ctx.touch(b)
    _, paths = rules.evaluate(b)
    callees = {e['callee'] for r in paths or [] for e in r.events if e['kind'] == 'call'}
    roleb = 'float weights are ordered numerically (equal weights tie)'
    if any(c.endswith('::total_cmp') for c in callees):
        ctx.bad('R4', roleb, b.defpath, 'the order is the IEEE total order (total_cmp), which puts -0.0 strictly below 0.0 although the two are equal weights: such symbols are no longer ordered by their index, and the float constructors build a different code book than the integer constructors for the same weights', key=keyb, loc=rules.loc(b))
    elif any(c.endswith('PartialOrd::partial_cmp') for c in callees) or any(sym.contains(r.ret, lambda x: isinstance(x, tuple) and x and x[0] == 'bin' and x[1].split('.')[0] in ('Lt', 'Le', 'Gt', 'Ge')) for r in paths or [] if r.ret is not None):
        ctx.ok('R4', roleb, b.defpath, 'cmp is partial_cmp of the wrapped floats', key=keyb)
    else:
        ctx.unresolved('R4', roleb, b.defpath, 'cmp uses %s' % sorted(callees)[:3], key=keyb)
    # (a)
    rolea = 'the wrapper refuses NaN and nothing else'
    ctors = [c for c in F.bodies if c.promoted is None and c.self_adt == adt and c.dk == 'AssocFn' and c.impl_trait is None and 'Result<' in (c.raw.get('sig') or '')]
    if not ctors:
        ctx.unresolved('R4', rolea, adt, 'no fallible constructor of the wrapper found', key=keya)
        return
    for c in ctors:
        ctx.touch(c)
        _, paths = rules.evaluate(c)
        verdict = None
        n_err = 0
        for r in paths or []:
            if r.end != 'return' or rules.ret_shape(r.ret)[0] != 'Err':
                continue
            n_err += 1
            ok = False
            for t, v, _ in r.preds:
                tt = t
                while isinstance(tt, tuple) and tt and tt[0] == 'not':
                    tt = tt[1]
                if isinstance(tt, tuple) and tt and tt[0] == 'call' and str(tt[1]).endswith('::is_nan'):
                    ok = True
                elif isinstance(tt, tuple) and tt and tt[0] == 'bin' and tt[1].split('.')[0] in ('Ne', 'Eq') and tt[2] == tt[3]:
                    ok = True
                elif isinstance(tt, tuple) and tt and tt[0] == 'bin' and tt[1].split('.')[0] in ('Lt', 'Le', 'Gt', 'Ge'):
                    verdict = ('bad', 'the refusing exit is decided by the ordering comparison `%s`: that is false for NaN but also for ordinary weights (e.g. 0.0), which the integer constructors accept' % sym.show(tt)[:80])
            if not ok and verdict is None:
                verdict = ('unresolved', 'refusing exit without an is_nan test')
        if verdict and verdict[0] == 'bad':
            ctx.bad('R4', rolea, c.defpath, verdict[1], key=keya, loc=rules.loc(c))
        elif verdict or not n_err:
            ctx.unresolved('R4', rolea, c.defpath, verdict[1] if verdict else 'no refusing exit', key=keya)
        else:
            ctx.ok('R4', rolea, c.defpath, '%d refusing exit(s), each behind is_nan' % n_err, key=keya)


def check_builders_total_on_weights(ctx, F):
    """"For every non-empty list of non-negative weights": whether a tree can be built may depend on how *many* weights there
    are (none; more than the node index type can number), never on their values - zeros and repeated weights included.  So
    the builders have no panicking exit inside the merge loop, and the panicking exits in front of it are decided by the
    length of the list alone."""
    for tree in (ENC, DEC):
        for b in [x for x in F.bodies if x.promoted is None and x.name == BUILDER and x.self_adt == tree]:
            key = 'R2/builder-total-on-weights/' + b.defpath
            role = 'the builder diverges on the length of the list only, never on a weight'
            try:
                _, paths = rules.evaluate(b)
            except sym.TooManyPaths:
                ctx.unresolved('R2', role, b.defpath, 'too many paths', key=key)
                continue
            ctx.touch(b)
            bad = None
            unres = None
            n = 0
            for r in paths or []:
                if r.end not in ('diverge', 'panic', 'assert'):
                    continue
                n += 1
                in_loop = any(e['kind'] == 'loop_enter' for e in r.events)
                last = r.preds[-1][0] if r.preds else None
                sizes_only = last is not None and not sym.contains(last, lambda x: isinstance(x, tuple) and x and (x[0] == 'loop' or (x[0] == 'call' and str(x[1]).endswith(('::pop', 'Iterator::next'))))) \
                    and sym.contains(last, lambda x: isinstance(x, tuple) and x and x[0] == 'call' and str(x[1]).endswith(('::len', '::is_empty')))
                structural = last is not None and last[0] in ('discr', 'is', 'not') and not sym.contains(last, lambda x: isinstance(x, tuple) and x and x[0] == 'bin')
                if in_loop and structural:
                    unres = unres or ('a panicking exit inside the merge loop on the shape of `%s` (an `expect` on a pop that cannot fail?)' % sym.show(last)[:100])
                elif in_loop:
                    bad = bad or ('a panicking exit inside the merge loop, decided by `%s`: whether the tree can be built then depends on the weights (two zero weights make a "sum grew" test fail)' % (sym.show(last)[:100] if last is not None else '?'))
                elif not sizes_only:
                    unres = unres or ('a panicking exit in front of the loop is decided by `%s`' % (sym.show(last)[:100] if last is not None else '?'))
            if bad:
                ctx.bad('R2', role, b.defpath, bad, key=key, loc=rules.loc(b))
            elif unres:
                ctx.unresolved('R2', role, b.defpath, unres, key=key)
            else:
                ctx.ok('R2', role, b.defpath, '%d panicking exit(s), all in front of the merge loop and decided by len() / is_empty() of the list' % n, key=key)


def check_builder_size_arithmetic(ctx, F):
    """The builders size their node table as `len * 2 - 1` (`len * 2` for the decoder) with plain operators, and the unchecked
    writes of the encoder builder rely on that table ("which we checked is nonzero").  A plain `-` on the length of the
    caller's list is right only behind a decision that the list is not empty, a plain `*` only behind an upper bound on
    the length; otherwise an empty list panics with "attempt to subtract with overflow" in a debug build and wraps to a
    table of usize::MAX entries in a release build."""
    is_len = lambda x: isinstance(x, tuple) and x and ((x[0] == 'call' and str(x[1]).endswith('::len')) or x[0] == 'len')
    for tree in (ENC, DEC):
        for b in [x for x in F.bodies if x.promoted is None and x.name == BUILDER and x.self_adt == tree]:
            key = 'R9/builder-size-arithmetic/' + b.defpath
            role = 'plain arithmetic on the length of the caller\'s list is guarded on the path'
            try:
                _, paths = rules.evaluate(b)
            except sym.TooManyPaths:
                ctx.unresolved('R9', role, b.defpath, 'too many paths', key=key)
                continue
            ctx.touch(b)
            n = 0
            bad = None
            for r in paths or []:
                for i, e in enumerate(r.events):
                    if e['kind'] != 'ovf_check' or not sym.contains(e['cond'], is_len):
                        continue
                    msg = str(e.get('msg'))
                    before = r.preds[:rules.preds_before(r, i)]
                    if 'Sub' in msg:
                        n += 1
                        nonempty = False
                        for t, v, _ in before:
                            t = rules.inline_pure(F, t)
                            if isinstance(t, tuple) and t and t[0] == 'call' and str(t[1]).endswith('::is_empty') and not v:
                                nonempty = True
                            # `match list.len() { 0 => .., n => .. }`: the length itself is switched on
                            if is_len(t) and ((isinstance(v, tuple) and v and v[0] == 'not' and 0 in v[1]) or (isinstance(v, int) and not isinstance(v, bool) and v >= 1)):
                                nonempty = True
                            if isinstance(t, tuple) and t and t[0] == 'bin' and sym.contains(t, is_len):
                                a, c = t[2], t[3]
                                zero = lambda x: x == sym.mk_int(0)
                                one = lambda x: x == sym.mk_int(1)
                                if (t[1] == 'Eq' and not v and (zero(a) or zero(c))) or (t[1] == 'Ne' and v and (zero(a) or zero(c))) \
                                        or (t[1] == 'Lt' and v and zero(a)) or (t[1] == 'Le' and v and one(a)) or (t[1] == 'Lt' and not v and one(c)) or (t[1] == 'Le' and not v and zero(c)) \
                                        or (t[1] == 'Gt' and v and zero(c)) or (t[1] == 'Ge' and v and one(c)):
                                    nonempty = True
                        if not nonempty:
                            bad = bad or ('`%s` at %s is reached without a decision that the list is not empty: for an empty list a debug build panics with "attempt to subtract with overflow", a release build wraps and asks for a table of usize::MAX nodes' % (sym.show(e['cond'])[:60], e['span'].split('-')[0]))
                    elif 'Mul' in msg:
                        n += 1
                        bounded = any(v is not None and isinstance(t, tuple) and t and t[0] == 'bin' and t[1] in ('Lt', 'Le', 'Gt', 'Ge') and sym.contains(t, is_len) and sym.contains(t, lambda y: isinstance(y, tuple) and y and y[0] == 'bin' and y[1] == 'Div') for t, v, _ in before)
                        if not bounded:
                            bad = bad or ('`%s` at %s is reached without an upper bound on the length of the list' % (sym.show(e['cond'])[:60], e['span'].split('-')[0]))
            if bad:
                ctx.bad('R9', role, b.defpath, bad, key=key, loc=rules.loc(b))
            elif n:
                ctx.ok('R9', role, b.defpath, '%d overflow-checked operation(s) on the length, each behind an emptiness decision (`-`) or an upper bound (`*`)' % n, key=key)
            else:
                ctx.ok('R9', role, b.defpath, 'no plain `-` or `*` on the length of the list', key=key)


def run(ctx):
    F = ctx.F
    check_wrapper_siblings(ctx, F)
    check_builder_size_arithmetic(ctx, F)
    check_builders_total_on_weights(ctx, F)
    check_weight_wrapper(ctx, F)
    check_num_symbols(ctx, F)
    check_rejects_before_accepting(ctx, F)
    check_emit_callbacks(ctx, F)
    check_prefix_pops_stack(ctx, F)
    import props.C16 as c16
    c16.check_symbol_delegation(ctx, F)      # every code word reaches the tree unaltered: the bit coders' decode_symbol is a pure delegation
    import props.C08 as c08
    for tree in (ENC, DEC):
        c08.check_clone_complete(ctx, F, tree)      # a tree refreshed from another one (clone / clone_from) is that tree, not a mixture
    eb = [b for b in F.bodies if b.promoted is None and b.name == BUILDER and b.self_adt == ENC]
    db = [b for b in F.bodies if b.promoted is None and b.name == BUILDER and b.self_adt == DEC]
    key = 'R4/same-merge-protocol/huffman'
    role = 'encoder and decoder trees are built by the same merge protocol'
    if not eb or not db:
        ctx.bad('R4', role, 'symbol::huffman', 'try_from_probabilities of the encoder or decoder tree not found (public anchor missing)', key=key)
    else:
        se, sd = builder_signature(F, eb[0]), builder_signature(F, db[0])
        ctx.touch(eb[0], calls=sum(1 for _ in eb[0].calls()))
        ctx.touch(db[0], calls=sum(1 for _ in db[0].calls()))
        if not se or not sd or 'push_arg' not in se or 'push_arg' not in sd:
            ctx.unresolved('R4', role, eb[0].defpath, 'merge loop not recognised (%s / %s)' % (se, sd), key=key)
        else:
            for part, what in (('heap_source', 'heap is built from enumerate().map(|(i, s)| Reverse((s, i))) of the argument (tie-break by index)'),
                               ('push_arg', 'merged node is pushed as Reverse((w0 + w1, next))'),
                               ('next_init', 'node counter starts at the number of symbols'),
                               ('next_step', 'node counter steps by one per merge'),
                               ('bit0_child', 'the child popped first gets bit 0')):
                k = '%s/%s' % (key, part)
                a, b = se.get(part), sd.get(part)
                if a is None or b is None:
                    ctx.unresolved('R4', what, eb[0].defpath, 'not recognised in %s' % ('encoder' if a is None else 'decoder'), key=k)
                elif a == b and (part != 'next_step' or a == 1) and (part != 'bit0_child' or a == 'POP0'):
                    ctx.ok('R4', what, eb[0].defpath, 'identical in both builders: %s' % (str(a)[:140]), key=k)
                elif part == 'push_arg' and se.get('push_weight') is not None and se.get('push_weight') == sd.get('push_weight'):
                    ctx.unresolved('R4', what, eb[0].defpath, 'the merged weight is the same in both builders, but the index given to the new node is spelled differently (a counter in one, an expression over table sizes in the other): not compared', key=k)
                else:
                    ctx.bad('R4', what, eb[0].defpath, 'encoder: %s ; decoder: %s - the two trees no longer describe the same code' % (str(a)[:200], str(b)[:200]), key=k, loc=rules.loc(db[0]))
    c09.check_huffman(ctx, F)
    import props.C05 as c05
    c05.check_forwarding(ctx, F, traits=('symbol::EncoderCodebook', 'symbol::DecoderCodebook'), floor=3, what='symbol')   # `&C` code books are the same code book
    from vlib import errdisc
    errdisc.check(ctx, F, floor=25, scope=lambda b: b.defpath.startswith(('symbol::', '<symbol::')) or '::symbol::' in b.defpath, what='symbol module')   # prefix/suffix adaptors pass the rejection on
    # entry bounds of the unchecked walks (same rule instances as C20)
    import props.C20 as c20
    n0 = len(ctx.obs)
    sub = type(ctx)(ctx.prop, ctx.tier, ctx.facts_by_config, ctx.seed)
    c20.check_sites(sub, F)
    for o in sub.obs:
        if 'huffman' in o.where and '/entry' in o.key:
            ctx.obs.append(o)
    ctx.assume('BinaryHeap pops the maximum of Reverse((weight, index)), i.e. the smallest weight and, among equal weights, the smallest index (std contract)')
    return {
        'level': 'other',
        'explanation': 'Sibling agreement of the two Huffman tree builders, decided structurally over their merge loops (heap source incl. the tie-breaking key, pop/push protocol, node counter, bit assignment), plus '
                       'rejection-before-emission and the entry bound of the unchecked table walks. These are necessary conditions for the encoder and decoder trees to describe the same code; prefix-freeness, the '
                       'Kraft equality and optimality are statements about code lengths and are not decided.',
        'trusted_base': ['rustc type checker + MIR construction', 'cfacts extractor', 'std BinaryHeap / Reverse contract'],
    }
