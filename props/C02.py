"""C02 — range coder round trip (partial).

Statically decided clauses:
  1. reset completeness: a `clear()` that returns a coder to its constructor state resets *every* field to
     the value the constructors store (R4)
  2. sentinel agreement: the "no symbol encoded yet" value stored by the constructors is the value the
     emptiness / sealing / exhaustion tests compare against (R4; shared with C18)
  3. the two copies of the held-back-word flush (in encode_symbol and in seal) agree: same (first word,
     fill word) pair on the carry and on the no-carry arm, one first word + (n-1) fill words (R4/R5)
  4. decoder mirrors encoder: scale, new range, new lower, the renormalisation predicate and both shifts are
     structurally identical in RangeEncoder::encode_symbol and RangeDecoder::decode_symbol once the model's
     results are mapped to role atoms (R4 DAG equality, Tier 2)
  5. configuration guards (compile-fail witnesses, thorough tier) (R9)
Not decided: carry resolution arithmetic, sealing arithmetic, FIFO value identity, maybe_exhausted after the
last symbol.
"""
from vlib import pow2, sym, rules, effects, anchors
import props.C07 as c07
import props.C08 as c08
import props.C18 as c18

RENC = c08.RENC
RDEC = 'stream::queue::RangeDecoder'


def ctor_fields(F, adt, names=('new', 'default')):
    """Field values stored by a parameter-free constructor of `adt` (first one found with a literal)."""
    for b in F.bodies:
        if b.promoted is not None or b.self_adt != adt or b.name not in names or b.arg_count != 0:
            continue
        ev, paths = rules.evaluate(b)
        for r in paths or []:
            if r.end != 'return':
                continue
            for e in r.events:
                if e['kind'] == 'literal' and e['adt'] == adt:
                    return b, dict(zip(e['fnames'], e['vals']))
    # a parameter-free constructor that delegates to a sibling constructor (`Self::with_backend(Vec::new())`)
    for b in F.bodies:
        if b.promoted is not None or b.self_adt != adt or b.name not in names or b.arg_count != 0:
            continue
        ev, paths = rules.evaluate(b)
        rs = [r for r in paths or [] if r.end == 'return']
        if len(rs) == 1 and rs[0].ret[0] == 'call':
            cb = F.by_def.get(rs[0].ret[1])
            if cb is not None and cb.self_adt == adt:
                _, cp = rules.evaluate(cb)
                for r in cp or []:
                    if r.end != 'return':
                        continue
                    for e in r.events:
                        if e['kind'] == 'literal' and e['adt'] == adt:
                            m = {('arg', i + 1): a for i, a in enumerate(rs[0].ret[2])}
                            return b, {fn: sym.subst(v, m) for fn, v in zip(e['fnames'], e['vals'])}
    return None, None


def default_value_of(F, ty_s):
    """What `<T as Default>::default()` returns for a crate-local type (derived or hand-written impl), or None."""
    adt = ty_s.split('<')[0]
    for b in F.bodies:
        if b.promoted is None and b.name == 'default' and b.impl_trait == 'core::default::Default' and b.self_adt == adt:
            _, paths = rules.evaluate(b)
            rs = [r for r in paths or [] if r.end == 'return']
            if len(rs) == 1:
                return rs[0].ret
    return None


def norm_default(t):
    """Canonical form of "fresh" values: Default::default()/X::default()/Vec::new() are all `fresh`."""
    def f(n):
        if n and n[0] == 'call' and (n[1].endswith('::default') or n[1].endswith('Vec::<T>::new') or n[1].endswith('::new') and not n[2]):
            return ('fresh',)
        if n and n[0] == 'agg' and isinstance(n[1], tuple) and n[1][0] == 'adt' and n[1][1].endswith('PhantomData'):
            return ('fresh',)
        return None
    return effects.rebuild(effects.strip_uid(c18.peel(t)), f)


def check_reset(ctx, F):
    n = 0
    for adt in (RENC, c08.ANS):
        ctor, fields = ctor_fields(F, adt)
        clears = [b for b in F.bodies if b.promoted is None and b.name == 'clear' and b.self_adt == adt and b.receiver_kind() == '&mut self']
        key0 = 'R4/reset-completeness/' + adt
        if not clears:
            ctx.bad('R4', 'clear() resets every field', adt, 'clear() not found (public anchor missing)', key=key0)
            continue
        if fields is None:
            ctx.unresolved('R4', 'clear() resets every field', adt, 'no parameter-free constructor with a literal found', key=key0)
            continue
        for cb in clears:
            n += 1
            ev, paths = rules.evaluate(cb)
            ctx.touch(cb)
            ctx.touch(ctor)
            key = 'R4/reset-completeness/' + cb.defpath
            rs = [r for r in paths or [] if r.end == 'return']
            if len(rs) != 1:
                ctx.unresolved('R4', 'clear() resets every field', cb.defpath, 'clear() has several paths', key=key)
                continue
            r = rs[0]
            missing = []
            for fname, fresh in fields.items():
                p = (1, 'deref', ('f', fname))
                fin = ev.final_read(r, p)
                if fin == ('in', p):
                    # untouched: fine only if the field is a zero-sized marker
                    if norm_default(fresh) == ('fresh',) and F.ty_s(_field_ty(F, adt, fname)).startswith('core::marker::PhantomData'):
                        continue
                    missing.append('%s (constructors store %s)' % (fname, sym.show(fresh)[:50]))
                    continue
                if fin[0] == 'post':
                    # reset through a call on the field: must be a `clear`
                    calls = [e for e in r.events if e['kind'] == 'call' and e.get('uid') == fin[1]]
                    if calls and calls[0]['name'] == 'clear' and norm_default(fresh) == ('fresh',):
                        continue
                    missing.append('%s (modified by %s, constructors store %s)' % (fname, calls[0]['callee'] if calls else '?', sym.show(fresh)[:50]))
                    continue
                if norm_default(fin) != norm_default(fresh) and norm_default(fin) == ('fresh',):
                    # `Default::default()` of a crate-local field type: compare what that impl returns
                    dv = default_value_of(F, F.ty_s(_field_ty(F, adt, fname)))
                    if dv is not None and norm_default(dv) == norm_default(fresh):
                        continue
                if norm_default(fin) != norm_default(fresh):
                    missing.append('%s := %s but constructors store %s' % (fname, sym.show(fin)[:50], sym.show(fresh)[:50]))
            if missing:
                ctx.bad('R4', 'clear() resets every field', cb.defpath,
                        'not restored to the constructor state: ' + '; '.join(missing) + ' - a cleared coder behaves differently from a fresh one', key=key, loc=rules.loc(cb))
            else:
                ctx.ok('R4', 'clear() resets every field', cb.defpath, 'all %d fields reset to what %s stores' % (len(fields), ctor.name), key=key)
    ctx.floor('R4', 'floor: clear() methods', 'stream', n, 2, 'only %d found' % n, key='R4/floor/clear')


def _field_ty(F, adt, fname):
    for f in F.adts[adt]['variants'][0]['fields']:
        if f['name'] == fname:
            return f['ty']
    return None


def flush_signature(ev, paths, bulk=(1, 'deref', ('f', 'bulk'))):
    """For the held-back flush: set of (first word, fill word, loop trip) over the paths that write while Inverted."""
    sig = set()
    for r in paths:
        if r.end != 'return' or rules.ret_shape(r.ret)[0] != 'Ok':
            continue
        try:
            n0 = c07.held_initial(r)
        except Exception:
            continue
        if n0 == sym.mk_int(0):
            continue
        # writes before the first loop and inside the loop
        first = None
        trip = None
        fill = None
        pre_loop = True
        for e in r.events:
            if e['kind'] == 'loop_enter' and not pre_loop:
                continue      # a later loop (zero words after the sealing point): not part of the release
            if e['kind'] == 'loop_enter':
                pre_loop = False
                for p, v in e['pre'].items():
                    if v[0] == 'call' and 'into_iter' in v[1]:
                        try:
                            im = effects.IterModel(r)
                            trip = c07.canon_held(im.length(v))
                        except Exception:
                            trip = ('?',)
            if c08.is_call_on(e, 'WriteWords::write', bulk) and pre_loop and first is None:
                first = role_words(e['args'][1])
        if first is None:
            continue
        sig.add((repr(first), None, repr(trip)))
    # fill words come from the back-edge paths of the loop
    fills = set()
    for r in paths:
        if r.end != 'backedge':
            continue
        if sum(1 for e in r.events if e['kind'] == 'loop_enter') != 1:
            continue      # the back edge belongs to a later loop (e.g. the zero words that follow the sealing point), not to the release of held-back words
        inloop = False
        for e in r.events:
            if e['kind'] == 'loop_enter':
                inloop = True
            if inloop and c08.is_call_on(e, 'WriteWords::write', bulk):
                first = None
                for e2 in r.events:
                    if c08.is_call_on(e2, 'WriteWords::write', bulk):
                        first = role_words(e2['args'][1])
                        break
                if first is not None and sym.contains(first, lambda x: x == ('W',)):       # a release starts with the held-back word
                    fills.add((repr(first), repr(role_words(e['args'][1]))))
    return sig, fills


def role_words(t):
    """first_inverted_lower_word -> W, keep +one / zero / max."""
    def f(n):
        if n and n[0] == 'in' and n[1][-2:] == (('dc', 'Inverted'), ('f', '1')):
            return ('W',)
        return None
    return effects.rebuild(effects.strip_uid(t), f)


def check_flush_siblings(ctx, F):
    enc = [b for b in F.bodies if b.promoted is None and b.name == 'encode_symbol' and b.self_adt == RENC and b.impl_trait == 'stream::Encode']
    seal = anchors.range_encoder_parts(F)['seal']
    key = 'R4/flush-siblings/' + RENC
    role = 'both copies of the held-back-word flush emit the same words'
    if not enc or not seal:
        ctx.bad('R4', role, RENC, 'encode_symbol or seal not found', key=key)
        return
    eve, pe = rules.evaluate(enc[0])
    evs, ps = rules.evaluate(seal)
    ctx.touch(enc[0])
    ctx.touch(seal)
    se, fe = flush_signature(eve, pe)
    ss, fs = flush_signature(evs, ps)
    want_pairs = {(repr(('bin', 'Add', ('W',), ('k', 'one', 'Word'))), repr(('k', 'zero', 'Word'))), (repr(('W',)), repr(('k', 'max_value', 'Word')))}
    msgs = []
    if fe != fs:
        msgs.append('(first word, fill word) pairs differ: encode_symbol %s vs seal %s' % (sorted(fe), sorted(fs)))
    if fe and fe != want_pairs and fs != want_pairs:
        pass
    if {x[2] for x in se} != {x[2] for x in ss}:
        msgs.append('fill-loop trip counts differ: %s vs %s' % (sorted({x[2] for x in se}), sorted({x[2] for x in ss})))
    if not fe or not fs:
        ctx.unresolved('R4', role, RENC, 'flush structure not recognised (encode: %s, seal: %s)' % (sorted(fe), sorted(fs)), key=key)
    elif msgs:
        ctx.bad('R4', role, RENC, '; '.join(msgs), key=key, loc=rules.loc(seal))
    else:
        ctx.ok('R4', role, RENC, 'pairs %s, trip %s in both' % (sorted(fe), sorted({x[2] for x in se})), key=key)


def update_shape(ev, paths, lower_p, range_p, point=False):
    """Role-abstracted values written to lower / range on the success paths, and the renormalisation predicate."""
    out = {'lower': set(), 'range': set(), 'pred': set()}
    for r in paths:
        if r.end != 'return' or rules.ret_shape(r.ret)[0] != 'Ok':
            continue
        for e in r.events:
            if e['kind'] == 'write' and e['path'] == lower_p:
                out['lower'].add(repr(c07.role_shape(e['value'])))
            if e['kind'] == 'write' and e['path'] == range_p:
                out['range'].add(repr(c07.role_shape(e['value'])))
    out['pred'] = c07.renorm_predicates(paths, lower_p)
    return out


def check_mirror(ctx, F):
    enc = [b for b in F.bodies if b.promoted is None and b.name == 'encode_symbol' and b.self_adt == RENC and b.impl_trait == 'stream::Encode']
    dec = [b for b in F.bodies if b.promoted is None and b.name == 'decode_symbol' and b.self_adt == RDEC and b.impl_trait == 'stream::Decode']
    key = 'R4/decoder-mirrors-encoder/' + RENC
    role = 'decoder applies the same state update as the encoder'
    if not enc or not dec:
        ctx.bad('R4', role, RENC, 'encode_symbol / decode_symbol not found', key=key)
        return
    eve, pe = rules.evaluate(enc[0])
    evd, pd = rules.evaluate(dec[0])
    LOWER = (1, 'deref', ('f', 'state'), ('f', 'lower'))
    RANGE = (1, 'deref', ('f', 'state'), ('f', 'range'))
    se = update_shape(eve, pe, LOWER, RANGE)
    sd = update_shape(evd, pd, LOWER, RANGE)
    diffs = []
    for k in ('range', 'pred'):
        if se[k] != sd[k]:
            diffs.append('%s: encoder %s vs decoder %s' % (k, sorted(se[k])[:2], sorted(sd[k])[:2]))
    # lower: the encoder stages `new_lower` in a local first; compare the set of shapes modulo that staging
    le = {x for x in se['lower']}
    ld = {x for x in sd['lower']}
    if not (ld <= le | ld and _lower_compatible(le, ld)):
        diffs.append('lower: encoder %s vs decoder %s' % (sorted(le)[:3], sorted(ld)[:3]))
    if diffs:
        ctx.bad('R4', role, enc[0].defpath, '; '.join(diffs)[:600], key=key, loc=rules.loc(dec[0]))
    elif not se['range'] or not se['pred']:
        ctx.unresolved('R4', role, enc[0].defpath, 'state updates not recognised', key=key)
    else:
        ctx.ok('R4', role, enc[0].defpath, 'range\' (%d shapes), renormalisation predicate and lower\' agree after mapping model results to role atoms' % len(se['range']), key=key)


def _lower_compatible(le, ld):
    """Every decoder update of lower must also occur in the encoder (the encoder may have more: staging via new_lower)."""
    return ld <= le


def check_wrapping_distance(ctx, F):
    """`lower`, `lower + range` and `point` live in State-bit *wrapping* arithmetic (the interval may straddle 2^BITS): the only
    meaningful relation between the decoder's `point` and `lower` is the wrapping distance point (-) lower.  Any ordering
    comparison that has point on one side and lower on the other, or a non-wrapping difference of the two, is wrong for
    wrapped intervals (it rejects valid states or accepts invalid ones)."""
    key = 'R4/wrapping-distance/' + anchors.RDEC
    role = 'point and lower are only related through the wrapping distance point (-) lower'
    n_sites = 0
    bad = None
    is_point = lambda x: isinstance(x, tuple) and x and ((x[0] == 'in' and x[1][-1] == ('f', 'point')) or x == ('arg', 3))
    is_lower = lambda x: isinstance(x, tuple) and x and x[0] == 'in' and x[1][-1] == ('f', 'lower')
    for b in F.bodies:
        if b.promoted is not None or b.self_adt != anchors.RDEC or b.dk != 'AssocFn' or '::tests::' in b.defpath:
            continue
        if b.name not in ('from_raw_parts', 'maybe_exhausted', 'decode_symbol', 'seek'):
            continue
        ev, paths = rules.evaluate(b)
        ctx.touch(b)
        pt = is_point if b.name == 'from_raw_parts' else (lambda x: isinstance(x, tuple) and x and x[0] == 'in' and x[1][-1] == ('f', 'point'))
        for r in paths or []:
            terms = [t for t, v, _ in r.preds] + ([r.ret] if r.ret is not None else []) + [e['result'] for e in r.events if e['kind'] == 'call']
            for t in terms:
                for x in sym.subterms(t):
                    if not (isinstance(x, tuple) and x and x[0] == 'bin'):
                        continue
                    op = x[1].split('.')[0]
                    a, c = x[2], x[3]
                    direct = (pt(a) and is_lower(c)) or (is_lower(a) and pt(c))
                    if not direct:
                        continue
                    n_sites += 1
                    if op in ('Lt', 'Le', 'Gt', 'Ge'):
                        bad = (b, '`%s` compares point and lower directly' % sym.show(x)[:80])
                    elif op == 'Sub' and not x[1].endswith('.w'):
                        bad = (b, '`%s` is a non-wrapping difference of point and lower' % sym.show(x)[:80])
    if bad:
        ctx.bad('R4', role, bad[0].defpath, bad[1] + ': the coder interval [lower, lower + range) may wrap around 2^State::BITS, and then a valid point is numerically below lower', key=key, loc=rules.loc(bad[0]))
    elif n_sites < 3:
        ctx.unresolved('R4', role, anchors.RDEC, 'only %d expressions relate point and lower (3 confirmed by reading: from_raw_parts, decode_symbol, maybe_exhausted)' % n_sites, key=key)
    else:
        ctx.ok('R4', role, anchors.RDEC, '%d expressions relate point and lower, all through wrapping_sub' % n_sites, key=key)


def _seal_addend(spaths, F=None):
    """(A, k): seal() writes  ((lower +w A) >> k) as Word."""
    for r in spaths or []:
        for e in r.events:
            if e['kind'] != 'call' or not e['callee'].endswith('WriteWords::write'):
                continue
            for a in e['args']:
                if F is not None:
                    a = rules.inline_pure(F, a)      # the point may be computed by a private pure helper
                for x in sym.subterms(a):
                    if isinstance(x, tuple) and x and x[0] == 'bin' and x[1] == 'Shr' and isinstance(x[2], tuple) and x[2][0] == 'bin' and x[2][1].split('.')[0] == 'Add':
                        for l, add in ((x[2][2], x[2][3]), (x[2][3], x[2][2])):
                            if c18._is_field(l, 'state', 'lower') and pow2.p2(add) is not None and pow2.width_exp(x[3]) is not None:
                                return pow2.p2(add), pow2.width_exp(x[3]), add
    return None, None, None


def _carry_threshold(t, v, lower_is, SBITS):
    """Canonical form `lower >= C` of a branch outcome on `lower` (C a power-of-two polynomial), or None."""
    while isinstance(t, tuple) and t and t[0] == 'not':
        t, v = t[1], not v
    if not (isinstance(t, tuple) and t and t[0] == 'bin') or not v:
        return None
    op = t[1].split('.')[0]
    a, b = t[2], t[3]
    if op in ('Gt', 'Ge'):
        a, b = b, a
        op = {'Gt': 'Lt', 'Ge': 'Le'}[op]
    full = pow2.P2([(SBITS, 1)])
    if op == 'Lt' and lower_is(b) and isinstance(a, tuple) and a[0] == 'bin' and a[1] == 'Add.w':
        # lower +w A < lower  <=>  the addition wrapped  <=>  lower >= 2^S - A
        for l, add in ((a[2], a[3]), (a[3], a[2])):
            if lower_is(l) and pow2.p2(add) is not None:
                return full.plus(pow2.p2(add), -1)
    if op in ('Lt', 'Le') and lower_is(b) and pow2.p2(a) is not None:
        # P < lower  /  P <= lower
        return pow2.p2(a).plus(pow2.P2([(pow2.E0, 1)])) if op == 'Lt' else pow2.p2(a)
    if op == 'Eq':
        for x, m in ((a, b), (b, a)):
            x = c18.peel(x)
            if isinstance(x, tuple) and x and x[0] == 'cast':
                x = x[2]
            if isinstance(x, tuple) and x and x[0] == 'bin' and x[1] == 'Shr' and lower_is(x[2]) and pow2.width_exp(x[3]) is not None and isinstance(m, tuple) and m[:2] == ('k', 'max_value'):
                k = pow2.width_exp(x[3])
                top_bits = pow2._exp_add(SBITS, k, -1)
                if pow2.exp_cmp(top_bits, pow2.bits_of(m[2])) == 0:
                    # the top word of lower is all ones  <=>  lower >= 2^S - 2^k
                    return full.plus(pow2.P2([(k, 1)]), -1)
    return None


def check_seal_point(ctx, F):
    """seal() finishes the stream with the top word(s) of  point = lower +w A.
    (1) The point identifies the last symbol only if it lies inside the final interval [lower, lower + range); the encoder
        keeps range >= 2^E (the bound its renormalisation test restores), so A + 1 <= 2^E is required.
    (2) Held-back words are released with a carry exactly when that addition wrapped: the deciding test, canonicalised to
        `lower >= C`, must have C = 2^State::BITS - A.
    A, E and C are read from the code as power-of-two polynomials over the symbolic widths."""
    parts = anchors.range_encoder_parts(F)
    seal, enc = parts.get('seal'), anchors.method(F, RENC, 'encode_symbol', 'stream::Encode')
    key1, key2 = 'R10/seal-point-inside/' + RENC, 'R10/seal-carry-threshold/' + RENC
    role1 = 'the sealing point lies inside the final interval'
    role2 = 'held-back words are released with a carry exactly when lower + A wrapped'
    if seal is None or enc is None:
        ctx.unresolved('R10', role1, RENC, 'seal or encode_symbol not found', key=key1)
        return
    ctx.touch(seal); ctx.touch(enc)
    _, spaths = rules.evaluate(seal)
    _, epaths = rules.evaluate(enc)
    A, k, A_term = _seal_addend(spaths, F)
    SB = pow2.bits_of('State')
    lower_is = lambda x: c18._is_field(x, 'state', 'lower')
    # (1) the renormalisation bound of range
    Es = set()
    for r in epaths or []:
        for t, v, _ in r.preds:
            c = pow2.below_pow2(t, v, lambda x: SB)
            if c is not None and not sym.contains(c[0], lambda x: c18._is_field(x, 'state', 'lower')) and 'BITS' in sym.affine_str(c[1]):
                Es.add(pow2._exp_key(c[1]))
                E = c[1]
    if A is None:
        ctx.unresolved('R10', role1, seal.defpath, 'sealing addend not recognised', key=key1)
    elif len(Es) != 1:
        ctx.unresolved('R10', role1, enc.defpath, 'renormalisation bound of range not recognised (%d candidates)' % len(Es), key=key1)
    else:
        d = pow2.P2([(E, 1)]).plus(A, -1).plus(pow2.P2([(pow2.E0, 1)]), -1)
        sg = d.sign(exps_nonneg=True)
        if sg in ('zero', 'pos', 'nonneg'):
            ctx.ok('R10', role1, seal.defpath, 'A = %s, range >= 2^(%s): 2^E - (A + 1) = %s >= 0' % (A.show(), sym.affine_str(E), d.show()), key=key1)
        elif sg == 'neg':
            ctx.bad('R10', role1, seal.defpath, 'seal() emits the top of lower + A with A = %s, but the encoder only guarantees range >= 2^(%s): when range is at that minimum the point is lower + range, the first value *outside* the final interval, and the last symbol decodes wrongly' % (A.show(), sym.affine_str(E)), key=key1, loc=rules.loc(seal))
        else:
            ctx.unresolved('R10', role1, seal.defpath, 'sign of 2^E - (A + 1) = %s not decidable' % d.show(), key=key1)
    # (2) carry decision
    if A is None:
        ctx.unresolved('R10', role2, seal.defpath, 'sealing addend not recognised', key=key2)
        return
    want = pow2.P2([(SB, 1)]).plus(A, -1)
    n_carry = 0
    verdict = None
    for r in spaths or []:
        ws = [e for e in r.events if c08.is_call_on(e, 'WriteWords::write', (1, 'deref', ('f', 'bulk')))]
        if not ws:
            continue
        first = role_words(ws[0]['args'][1])
        if not (sym.contains(first, lambda x: x == ('W',)) and first != ('W',)):
            continue       # not the carried release of the held-back word
        n_carry += 1
        cs = []
        unknown = []
        for t, v, _ in r.preds:
            t = rules.inline_pure(F, t)
            if not sym.contains(t, lower_is) or sym.contains(t, lambda x: isinstance(x, tuple) and x and x[0] == 'call' and x[3] is not None):
                continue
            if ws[0]['block'] is not None and False:
                pass
            c = _carry_threshold(t, v, lower_is, SB)
            if c is not None:
                cs.append(c)
            elif t[0] == 'bin' and t[1].split('.')[0] in ('Lt', 'Le', 'Gt', 'Ge', 'Eq', 'Ne') and not sym.contains(t, lambda x: c18._is_field(x, 'state', 'range')) and v:
                # later equalities between emitted words are not the carry decision
                if t[1].split('.')[0] == 'Eq' and sym.contains(t, lambda x: isinstance(x, tuple) and x and x[0] == 'bin' and x[1] == 'Add.w'):
                    continue
                unknown.append(sym.show(t)[:80])
        if not cs:
            verdict = verdict or ('unresolved', 'the test that selects the carried release is not in a recognised form (%s)' % '; '.join(unknown[:2]))
            continue
        for c in cs:
            d = c.plus(want, -1)
            if d.sign() == 'zero':
                continue
            sgd = d.sign(exps_nonneg=True)
            if sgd in ('pos', 'neg') or (sgd == 'nonneg' and not d.sign() == 'zero'):
                verdict = ('bad', 'the carried release is chosen when lower >= %s, but lower + A (A = %s) wraps exactly when lower >= %s: for the values in between the held-back words are released with the wrong carry and the stream decodes to different symbols' % (c.show(), A.show(), want.show()))
            else:
                verdict = verdict or ('unresolved', 'threshold %s vs %s not comparable' % (c.show(), want.show()))
    if n_carry == 0:
        ctx.unresolved('R10', role2, seal.defpath, 'no path releases a held-back word with a carry', key=key2)
    elif verdict and verdict[0] == 'bad':
        ctx.bad('R10', role2, seal.defpath, verdict[1], key=key2, loc=rules.loc(seal))
    elif verdict:
        ctx.unresolved('R10', role2, seal.defpath, verdict[1], key=key2)
    else:
        ctx.ok('R10', role2, seal.defpath, '%d carried path(s): chosen iff lower >= %s = 2^S - A' % (n_carry, want.show()), key=key2)


def check_raw_parts_identity(ctx, F):
    """`from_raw_parts(into_raw_parts())` is the identity: a coder taken apart in the middle of a message and put together
    again goes on exactly where it was - in particular with the words it holds back for a pending carry.  Structurally:
    into_raw_parts returns the fields unchanged, and every accepting path of from_raw_parts stores each argument unchanged in
    a field (it may refuse, it may not "repair")."""
    n = 0
    for b in F.bodies:
        if b.promoted is not None or b.name not in ('from_raw_parts', 'into_raw_parts') or not (b.self_adt or '').startswith('stream::') or '::tests::' in b.defpath or b.vis != 'pub':
            continue
        n += 1
        ctx.touch(b)
        ev, paths = rules.evaluate(b)
        key = 'R4/raw-parts-identity/' + b.defpath
        role = 'raw parts pass through unchanged'
        bad = unk = None
        for r in paths or []:
            if r.end != 'return' or r.ret is None:
                continue
            t = r.ret
            if rules.ret_shape(t)[0] == 'Err':
                continue
            if rules.ret_shape(t)[0] == 'Ok':
                t = t[2][0]
            if not (isinstance(t, tuple) and t and t[0] == 'agg'):
                unk = 'the result is not a literal (%s)' % sym.show(t)[:60]
                continue
            if b.name == 'from_raw_parts':
                args = {('arg', i) for i in range(1, b.arg_count + 1)}
                vals = [v for v in t[2] if not (isinstance(v, tuple) and v and v[0] == 'agg' and isinstance(v[1], tuple) and 'PhantomData' in str(v[1]))]
                odd = [v for v in vals if v not in args]
                if odd:
                    bad = 'a field of the reassembled coder is %s, not the argument as it was handed in: a coder that is taken apart and put together again (e.g. while words are held back) does not continue where it was' % sym.show(odd[0])[:90]
                elif len(set(vals)) != len(vals) or set(vals) != args:
                    bad = 'not every argument ends up in a field of its own'
            else:
                odd = [v for v in t[2] if not (isinstance(v, tuple) and v and v[0] == 'in' and v[1][0] == 1 and len(v[1]) == 2)]
                if odd:
                    bad = 'a returned part is %s, not a field as it is' % sym.show(odd[0])[:90]
        if bad:
            ctx.bad('R4', role, b.defpath, bad, key=key, loc=rules.loc(b))
        elif unk:
            ctx.unresolved('R4', role, b.defpath, unk, key=key)
        else:
            ctx.ok('R4', role, b.defpath, 'fields and parts correspond one to one, unchanged', key=key)
    if n < 4:
        ctx.unresolved('R4', 'raw parts pass through unchanged', 'stream', 'only %d from/into_raw_parts functions found' % n, key='R4/floor/raw-parts')


def check_sealing_conversions(ctx, F):
    """Every `From<RangeEncoder<..>>` conversion hands out the words of a *sealed* stream: it reaches seal() through the
    call graph (via into_compressed / into_decoder), never the raw parts."""
    parts = anchors.range_encoder_parts(F)
    seal = parts.get('seal')
    key0 = 'R7/sealing-conversion/'
    role = 'a conversion out of a RangeEncoder yields the sealed stream'
    if seal is None:
        return ctx.unresolved('R7', role, anchors.RENC, 'seal not resolved', key=key0 + 'anchor')
    n = 0
    for b in F.bodies:
        if b.promoted is not None or b.name != 'from' or b.impl_trait is None or not b.impl_trait.startswith('core::convert::From') or '::tests::' in b.defpath:
            continue
        if b.arg_count != 1 or not F.ty_s(b.local_ty(1)).startswith(anchors.RENC + '<'):
            continue
        n += 1
        ctx.touch(b)
        # reachability of seal within 3 call levels
        seen, frontier, found = set(), [b], False
        for _ in range(3):
            nxt = []
            for x in frontier:
                for cb, blk, t in anchors.local_callees(F, x):
                    if cb.defpath == seal.defpath:
                        found = True
                    if cb.defpath not in seen:
                        seen.add(cb.defpath)
                        nxt.append(cb)
            frontier = nxt
        key = key0 + b.defpath
        if found:
            ctx.ok('R7', role, b.defpath, 'reaches seal() through %s' % ', '.join(sorted(x.rsplit('::', 1)[-1] for x in seen if x != seal.defpath))[:120], key=key)
        else:
            ctx.bad('R7', role, b.defpath, 'the conversion never reaches seal() (it calls %s): the returned words lack the final point words and any held-back words, so they do not decode to the encoded symbols' % (
                ', '.join(sorted(x.rsplit('::', 1)[-1] for x in seen)) or 'nothing'), key=key, loc=rules.loc(b))
    if n < 2:
        ctx.unresolved('R7', role, anchors.RENC, 'only %d From<RangeEncoder> conversions found (2 confirmed by reading)' % n, key=key0 + 'floor')


def check_window_padding(ctx, F):
    """When the data ends before the decoder's window is full, the words that were read become the most significant words of
    the window and zeros stand in for the rest - what the encoder's sealing relies on.  How far the assembled value is
    shifted is therefore a function of *how many* words were read, never of their value (a first word that happens to be zero
    is a word like any other)."""
    reader, _ = anchors.window_reader(F)
    key = 'R4/window-padding-by-count'
    role = 'a short window is padded by the number of missing words, not by the value read'
    if reader is None:
        return ctx.unresolved('R4', role, 'stream::queue', 'the routine the decoder fills its window with could not be resolved', key=key)
    try:
        _, paths = rules.evaluate(reader)
    except sym.TooManyPaths:
        return ctx.unresolved('R4', role, reader.defpath, 'too many paths', key=key)
    ctx.touch(reader)
    loopvars = lambda t: {x[2] for x in sym.subterms(t) if isinstance(x, tuple) and len(x) == 3 and x[0] == 'loop'}
    is_word = lambda x: isinstance(x, tuple) and x and x[0] == 'call' and str(x[1]).endswith('ReadWords::read')
    n = 0
    bad = None
    for r in paths or []:
        terms = ([r.ret] if r.ret is not None else []) + [e['value'] for e in r.events if e['kind'] == 'write']
        for t in terms:
            for x in sym.subterms(t):
                if isinstance(x, tuple) and x and x[0] == 'bin' and str(x[1]).split('.')[0] == 'Shl':
                    n += 1
                    shared = loopvars(x[2]) & loopvars(x[3])
                    if shared or sym.contains(x[3], is_word):
                        bad = bad or ('the shift amount `%s` depends on the value being assembled: a window whose first word is zero is moved further than one whose first word is not, so the decoder and the encoder disagree on where the words sit' % sym.show(x[3])[:100])
    if bad:
        ctx.bad('R4', role, reader.defpath, bad, key=key, loc=rules.loc(reader))
    elif n:
        ctx.ok('R4', role, reader.defpath, '%d shift(s); every shift amount is a function of type constants and the word counter only' % n, key=key)
    else:
        ctx.unresolved('R4', role, reader.defpath, 'no shift found in the window reader', key=key)


def run(ctx):
    F = ctx.F
    check_reset(ctx, F)
    check_window_padding(ctx, F)
    check_wrapping_distance(ctx, F)
    check_sealing_conversions(ctx, F)
    check_raw_parts_identity(ctx, F)
    c18.check_sentinels(ctx, F)
    check_flush_siblings(ctx, F)
    c08.check_encoder_guard(ctx, F)
    check_mirror(ctx, F)
    check_seal_point(ctx, F)
    c18.check_exhaustion_tolerance(ctx, F)   # "after the last symbol the decoder reports that it may be exhausted"
    if ctx.tier == 'thorough':
        from vlib import witness
        witness.run(ctx, 'C02')
    ctx.assume('structural equality of encoder and decoder updates is sufficient, not necessary, for their semantic agreement: an algebraically different but equivalent rewrite of one side would be reported (DESIGN R4)')
    return {
        'level': 'other',
        'explanation': 'Sibling-agreement rules over extracted MIR of src/stream/queue.rs: clear() is compared field by field with the parameter-free constructor; the emptiness sentinel is compared as an atom; '
                       'the two clones of the held-back flush and the encoder/decoder state updates are compared structurally after mapping model results to role atoms; seal() is counted against '
                       'num_seal_words(). These are necessary conditions of the round trip that hold for all inputs; carry arithmetic, sealing arithmetic and FIFO value identity are value-level and not decided.',
        'trusted_base': ['rustc type checker + MIR construction', 'cfacts extractor'],
    }
