"""C07 — random access: seeking to a recorded position resumes decoding exactly there (partial).

  1. held-back accounting: with Φ = |bulk| + n·[Inverted(n,_)], every success path of
     RangeEncoder::encode_symbol has ΔΦ = number of one-word shifts of `lower` on that path, Pos::pos
     returns bulk.pos() + held-back words, and the decoder reads exactly one word per shift of its
     window under the same renormalisation predicate                                                   (R5)
  2. seek protocol: RangeDecoder::seek = bulk.seek(pos)? ; point := read_point(bulk)? ; state := state,
     the same read_point the constructors use; AnsCoder / ChainCoder: seek(pos()) is the identity on
     every field pos() records, with the backend positions handed through unchanged                    (R1/R2)
  3. backend seek exactness (shared with C17)                                                          (R6)
  4. snapshots are pure: Pos::pos takes &self                                                          (R7)
Not decided: that decoding after a seek yields the right symbols (value level).
"""
from vlib import pow2, sym, rules, effects, anchors
from vlib.effects import Unresolved
import props.C08 as c08
import props.C17 as c17
import props.C18 as c18

RENC = c08.RENC
RDEC = 'stream::queue::RangeDecoder'
SIT = (1, 'deref', ('f', 'situation'))
BULK = (1, 'deref', ('f', 'bulk'))
LOWER = (1, 'deref', ('f', 'state'), ('f', 'lower'))


def peel_nz(t):
    n = 0
    while n < 8:
        n += 1
        if t[0] == 'call' and t[2] and (t[1] in c18.NZ_WRAPPERS or t[1].endswith(('NonZero::<T>::new', 'NonZero::<T>::get', '::expect', '::unwrap', '::ok_or_else', '::ok_or'))):
            t = t[2][0]
            continue
        if t[0] == 'unwrap' and t[1][0] == 'call' and t[1][1].endswith(('::ok_or_else', '::ok_or', 'BitArray::into_nonzero')):
            t = t[1]
            continue
        break
    return t


def held_of(term, res):
    """Number of held-back words denoted by a value of `situation` (term) on path `res`."""
    if term[0] == 'agg' and isinstance(term[1], tuple) and term[1][0] == 'adt':
        if term[1][2] == 'Normal':
            return sym.mk_int(0)
        if term[1][2] == 'Inverted':
            return peel_nz(term[2][0])
    if term[0] == 'in':
        return held_initial(res)
    if term[0] == 'partial' and term[1][0] == 'in':
        for p, v in term[2]:
            if p == (('dc', 'Inverted'), ('f', '0')):
                return peel_nz(v)
        return held_initial(res)
    raise Unresolved('cannot read the held-back count of %s' % sym.show(term)[:80])


def held_initial(res):
    for t, v, _ in res.preds:
        if t[0] == 'discr' and t[1] == ('in', SIT):
            vn = sym.discr_variant(t, v)
            if vn == 'Inverted':
                return ('call', 'core::num::NonZero::<T>::get', (('in', SIT + (('dc', 'Inverted'), ('f', '0'))),), None)
            if vn == 'Normal':
                return sym.mk_int(0)
    raise Unresolved('path does not test the situation')


def canon_held(t):
    """n.get() and its copies name the same atom."""
    def f(n):
        if n and n[0] == 'call' and n[1].endswith('NonZero::<T>::get') and n[2]:
            return ('held', n[2][0])
        if n and n[0] == 'in' and n[1][-2:] == (('dc', 'Inverted'), ('f', '0')):
            return None
        return None
    return effects.rebuild(effects.strip_uid(t), f)


def count_lower_shifts(res, lower_path, bits=('c', '<Word as BitArray>::BITS')):
    n = 0
    for e in res.events:
        if e['kind'] == 'write' and e['path'] == lower_path:
            v = e['value']
            if v[0] == 'bin' and v[1] == 'Shl' and v[3] == bits:
                n += 1
    return n


def check_held_back(ctx, F, only_potential=False):
    enc = [b for b in F.bodies if b.promoted is None and b.name == 'encode_symbol' and b.self_adt == RENC and b.impl_trait == 'stream::Encode']
    key = 'R5/held-back/' + RENC + '::encode_symbol'
    role = 'words written + words held back grow by one per window shift'
    if not enc:
        ctx.bad('R5', role, RENC, 'Encode::encode_symbol for RangeEncoder not found (anchor missing)', key=key)
        return
    b = enc[0]
    ctx.touch(b, calls=sum(1 for _ in b.calls()))
    ev, paths = rules.evaluate(b)
    if paths is None:
        ctx.unresolved('R5', role, b.defpath, 'too many paths', key=key)
        return
    try:
        summ = effects.summarise(ev, paths, lambda e: 1 if c08.is_call_on(e, 'WriteWords::write', BULK) else None)
        n_ok = 0
        bad = None
        shifts_seen = set()
        for s in summ:
            if s.end != 'return' or rules.ret_shape(s.ret)[0] != 'Ok':
                continue
            r = s.res
            n_in = held_initial(r)
            n_out = held_of(ev.final_read(r, SIT), r)
            shifts = count_lower_shifts(r, LOWER)
            shifts_seen.add(shifts)
            dphi = effects.affine_add(s.count, sym.affine(canon_held(n_out)))
            dphi = effects.affine_add(dphi, sym.affine(canon_held(n_in)), -1)
            cnt = (dict((k, (c, canon_held(at))) for k, (c, at) in s.count[0].items()), s.count[1])
            dphi = sym.affine(canon_held(c08._affine_to_term(dphi)))
            if dphi[0] or dphi[1] != shifts:
                bad = 'on a success path ΔΦ = %s but the window is shifted %d time(s) (writes %s, held before %s, held after %s; blocks …%s)' % (
                    sym.affine_str(dphi), shifts, sym.affine_str(s.count), sym.show(canon_held(n_in)), sym.show(canon_held(n_out)), r.blocks[-4:])
                break
            n_ok += 1
        ctx.extra['encode_symbol_success_paths'] = n_ok
        if bad:
            ctx.bad('R5', role, b.defpath, bad, key=key, loc=rules.loc(b))
        elif n_ok < 6 or shifts_seen != {0, 1}:
            ctx.unresolved('R5', role, b.defpath, 'only %d success paths / shifts %s' % (n_ok, shifts_seen), key=key)
        else:
            ctx.ok('R5', role, b.defpath, '%d success paths: ΔΦ = shifts ∈ {0,1}' % n_ok, key=key)
    except Unresolved as u:
        ctx.unresolved('R5', role, b.defpath, str(u), key=key)
    if only_potential:
        return
    # Pos::pos = bulk.pos() + held
    pos = [p for p in F.bodies if p.promoted is None and p.name == 'pos' and p.self_adt == RENC and p.impl_trait == 'Pos']
    k2 = 'R5/pos-counts-held-back/' + RENC
    role2 = 'Pos::pos = backend position + held-back words'
    if not pos:
        ctx.bad('R5', role2, RENC, 'Pos impl not found', key=k2)
    else:
        p = pos[0]
        ctx.touch(p)
        evp, pp = rules.evaluate(p)
        bad = None
        n = 0
        try:
            for r in pp:
                if r.end != 'return':
                    continue
                n += 1
                first = r.ret[2][0] if r.ret[0] == 'agg' and r.ret[2] else None
                if first is None:
                    bad = 'pos() does not return a tuple'
                    break
                want = sym.mk_bin('Add', ('call', 'Pos::pos', (('in', BULK),), None), canon_held(held_initial(r)))
                if not effects.affine_eq(sym.affine(canon_held(first)), sym.affine(want)):
                    bad = 'returns %s where %s is required' % (sym.show(canon_held(first)), sym.show(want))
                    break
                second = r.ret[2][1]
                if not (second[0] == 'call' and second[1].endswith('::state')):
                    bad = 'second component is not self.state()'
            if bad:
                ctx.bad('R5', role2, p.defpath, bad, key=k2, loc=rules.loc(p))
            elif n < 2:
                ctx.unresolved('R5', role2, p.defpath, 'fewer than two paths', key=k2)
            else:
                ctx.ok('R5', role2, p.defpath, '%d paths: bulk.pos() + n (Inverted) / + 0 (Normal)' % n, key=k2)
        except Unresolved as u:
            ctx.unresolved('R5', role2, p.defpath, str(u), key=k2)
    # decoder: one read per shift of the window, same renormalisation predicate as the encoder
    dec = [d for d in F.bodies if d.promoted is None and d.name == 'decode_symbol' and d.self_adt == RDEC and d.impl_trait == 'stream::Decode']
    k3 = 'R5/decoder-reads-per-shift/' + RDEC
    role3 = 'decoder consumes exactly one word per window shift'
    if not dec:
        ctx.bad('R5', role3, RDEC, 'Decode::decode_symbol for RangeDecoder not found', key=k3)
        return
    d = dec[0]
    ctx.touch(d, calls=sum(1 for _ in d.calls()))
    evd, pd = rules.evaluate(d)
    bad = None
    n = 0
    seen = set()
    for r in pd or []:
        if r.end != 'return':
            continue
        if rules.ret_shape(r.ret)[0] != 'Ok':
            continue
        reads = sum(1 for e in r.events if c08.is_call_on(e, 'ReadWords::read', BULK))
        shifts = count_lower_shifts(r, LOWER)
        pshift = count_lower_shifts(r, (1, 'deref', ('f', 'point')))
        seen.add(shifts)
        n += 1
        if reads != shifts or pshift != shifts:
            bad = 'a success path reads %d word(s), shifts lower %d and point %d time(s)' % (reads, shifts, pshift)
    if bad:
        ctx.bad('R5', role3, d.defpath, bad, key=k3, loc=rules.loc(d))
    elif seen != {0, 1}:
        ctx.unresolved('R5', role3, d.defpath, 'shift counts seen: %s' % seen, key=k3)
    else:
        ctx.ok('R5', role3, d.defpath, '%d success paths: reads == shifts of lower == shifts of point' % n, key=k3)
    # same renormalisation predicate in encoder and decoder (modulo NonZero plumbing)
    k4 = 'R4/renorm-predicate/' + RENC + '~' + RDEC
    pe = renorm_predicates(paths, LOWER)
    pdx = renorm_predicates(pd, LOWER)
    if pe and pdx and pe == pdx:
        ctx.ok('R4', 'encoder and decoder renormalise under the same predicate', b.defpath, sorted(pe)[0][:160], key=k4)
    elif not pe or not pdx:
        ctx.unresolved('R4', 'encoder and decoder renormalise under the same predicate', b.defpath, 'predicate not identified', key=k4)
    else:
        ctx.bad('R4', 'encoder and decoder renormalise under the same predicate', b.defpath,
                'encoder: %s ; decoder: %s' % (sorted(pe)[0][:200], sorted(pdx)[0][:200]), key=k4, loc=rules.loc(b))


def renorm_predicates(paths, lower_path):
    """The branch predicate (as a shape over role atoms) that immediately controls the window shift."""
    out = set()
    for r in paths or []:
        if r.end != 'return':
            continue
        shift_blocks = [e['block'] for e in r.events if e['kind'] == 'write' and e['path'] == lower_path and e['value'][0] == 'bin' and e['value'][1] == 'Shl']
        if not shift_blocks:
            continue
        # last predicate taken before the shift that compares something with 1 << (S - W)
        cand = None
        for t, v, blk in r.preds:
            if not sym.contains(t, lambda x: x == ('bin', 'Sub', ('c', '<State as BitArray>::BITS'), ('c', '<Word as BitArray>::BITS'))):
                continue
            # canonical form `x < 2^E` (so that `x < 1 << k`, `x >> k == 0` and their negations are one predicate)
            c = pow2.below_pow2(t, v, lambda x: pow2.bits_of('State'))
            if c is not None:
                cand = (('below', role_shape(c[0]), sym.affine_str(c[1])), bool(c[2]))
            elif t[0] == 'bin' and t[1] in ('Lt', 'Le'):
                cand = (role_shape(t), v)
        if cand:
            out.add(repr(cand))
    return out


def role_shape(t):
    """Abstract operands that differ by construction (model results) into role atoms; keep operators/constants."""
    def f(n):
        if n and n[0] == 'call' and (n[1].endswith('left_cumulative_and_probability') or n[1].endswith('quantile_function')):
            return ('model_result',)
        if n and n[0] in ('unwrap', 'payload', 'proj', 'as') and n[1] == ('model_result',):
            return ('model_result',)
        if n and n[0] == 'unwrap' and n[1][0] == 'bin':
            return n[1]          # `?`/expect on into_nonzero(arith): NonZero plumbing
        return None
    t = effects.rebuild(effects.strip_uid(peel_all(t)), f)
    return t


def peel_all(t):
    def f(n):
        p = peel_nz(n)
        return p if p is not n else None
    return effects.rebuild(t, f)


# ---------------------------------------------------------------- clause 2

def check_seek_protocols(ctx, F):
    # RangeDecoder::seek
    reader, _sk = anchors.window_reader(F)
    rname = reader.defpath if reader is not None else '<window reader not resolved>'
    sk = [b for b in F.bodies if b.promoted is None and b.name == 'seek' and b.self_adt == RDEC and b.impl_trait == 'Seek']
    key = 'R2/seek-protocol/' + RDEC
    role = 'seek: bulk.seek(pos)? then point := read_point(bulk)? then state := state'
    if not sk:
        ctx.bad('R2', role, RDEC, 'Seek impl not found (anchor missing)', key=key)
    else:
        b = sk[0]
        ctx.touch(b, calls=sum(1 for _ in b.calls()))
        ev, paths = rules.evaluate(b)
        bad = None
        n_ok = 0
        for r in paths or []:
            if r.end != 'return':
                continue
            sh = rules.ret_shape(r.ret)
            imp = [e for e in r.events if e['kind'] == 'call' and e.get('uid') is not None]
            if sh[0] == 'Ok':
                n_ok += 1
                names = [e['callee'] for e in imp]
                if len(imp) != 2 or not names[0].endswith('Seek::seek') or names[1] != rname:
                    bad = 'success path performs %s (expected Seek::seek then read_point)' % names
                    break
                if imp[0]['args'][1] != ('in', (2, ('f', '0'))) or imp[0]['args'][0][1] != BULK or imp[1]['args'][0][1] != BULK:
                    bad = 'seek/read_point are not applied to self.bulk with the recorded backend position'
                    break
                point = ev.final_read(r, (1, 'deref', ('f', 'point')))
                # the Ok payload of the reader's result, obtained by `?` (unwrap) or by an explicit match (payload .. Ok)
                is_ok_payload = point[0] == 'unwrap' or (point[0] == 'payload' and point[2] == 'Ok')
                if not (is_ok_payload and sym.contains(point, lambda x: isinstance(x, tuple) and x and x[0] == 'call' and x[1] == rname)):
                    bad = 'point is not the freshly read window (%s)' % sym.show(point)[:100]
                    break
                if ev.final_read(r, (1, 'deref', ('f', 'state'))) != ('in', (2, ('f', '1'))):
                    bad = 'state is not set to the recorded state'
                    break
            else:
                if rules.self_writes(r) and any(e['path'][2] == ('f', 'state') for e in rules.self_writes(r)):
                    bad = 'a failing seek overwrites the coder state'
        # errors of both steps are propagated: there must be failure exits for each `?`
        n_err = sum(1 for r in paths or [] if r.end == 'return' and rules.ret_shape(r.ret)[0] in ('Err',))
        if not bad and n_err < 2:
            bad = 'fewer than two error exits: a backend seek/read error is dropped'
        if bad:
            ctx.bad('R2', role, b.defpath, bad, key=key, loc=rules.loc(b))
        elif n_ok != 1:
            ctx.unresolved('R2', role, b.defpath, '%d success paths' % n_ok, key=key)
        else:
            ctx.ok('R2', role, b.defpath, 'order and operands as required; %d error exits propagate' % n_err, key=key)
        # constructors use the same read_point
        users = set()
        for c in F.bodies:
            if c.promoted is None and c.self_adt == RDEC:
                for _, t in c.calls():
                    cd = rules.callee(t)
                    if cd and cd['def'] == rname:
                        users.add(c.name)
        k2 = 'R4/read-point-shared/' + RDEC
        if 'seek' in users and len(users) >= 2:
            ctx.ok('R4', 'seek re-reads the window with the routine the constructors use', RDEC, 'read_point callers: %s' % sorted(users), key=k2)
        else:
            ctx.bad('R4', 'seek re-reads the window with the routine the constructors use', RDEC, 'read_point callers: %s' % sorted(users), key=k2)
    # symbolic round trip seek(pos()) for coders that implement both on the same type
    for adt in ('stream::stack::AnsCoder', 'stream::chain::ChainCoder'):
        pos = [b for b in F.bodies if b.promoted is None and b.name == 'pos' and b.self_adt == adt and b.impl_trait == 'Pos']
        sk = [b for b in F.bodies if b.promoted is None and b.name == 'seek' and b.self_adt == adt and b.impl_trait == 'Seek']
        key = 'R1/seek-pos-roundtrip/' + adt
        role = 'seek(pos()) restores every recorded field and hands backend positions through unchanged'
        if not pos or not sk:
            ctx.bad('R1', role, adt, 'Pos or Seek impl not found (anchor missing)', key=key)
            continue
        p, s = pos[0], sk[0]
        ctx.touch(p)
        ctx.touch(s)
        evp, pp = rules.evaluate(p)
        evs, ps = rules.evaluate(s)
        rp = c18.only_return(pp)
        if rp is None:
            ctx.unresolved('R1', role, p.defpath, 'pos() has several paths', key=key)
            continue
        snapshot = inline_state(F, rp.ret, adt)
        if sym.contains(snapshot, lambda x: isinstance(x, tuple) and x and x[0] == 'call' and x[1].endswith('::state')):
            ctx.unresolved('R1', role, p.defpath, 'state() accessor could not be inlined', key=key)
            continue
        bad = None
        n_ok = 0
        for r in ps or []:
            if r.end != 'return' or rules.ret_shape(r.ret)[0] != 'Ok':
                continue
            n_ok += 1
            m = arg_projection_map(r, evs, snapshot)
            seeks = [e for e in r.events if e['kind'] == 'call' and e['callee'].endswith('Seek::seek')]
            pos_backends = sorted(repr(x[2][0]) for x in sym.subterms(snapshot) if isinstance(x, tuple) and x and x[0] == 'call' and x[1] == 'Pos::pos')
            seek_backends = sorted(repr(('in', e['args'][0][1])) for e in seeks)
            if pos_backends != seek_backends:
                bad = 'pos() records the position of %s but seek() seeks %s' % (pos_backends, seek_backends)
                break
            for e in seeks:
                v = sym.subst(e['args'][1], m)
                if v != ('call', 'Pos::pos', (('in', e['args'][0][1]),), None):
                    bad = 'backend %s is sought to %s, not to the position pos() recorded for it' % (sym.path_str(e['args'][0][1]), sym.show(v)[:80])
            for x in sym.subterms(snapshot):
                if isinstance(x, tuple) and x and x[0] == 'in' and x[1][:2] == (1, 'deref') and len(x[1]) == 3:
                    fld = x[1]
                    if any(repr(x) == pb for pb in pos_backends):
                        continue
                    raw = evs.final_read(r, fld)
                    if sym.contains(raw, lambda y: isinstance(y, tuple) and y and y[0] == 'in' and y[1][:2] == (1, 'deref')):
                        bad = 'after seek(), field %s still depends on the coder\'s previous state (%s): it must be a function of the snapshot alone' % (sym.path_str(fld), sym.show(raw)[:100])
                    fin = simplify_partial(sym.subst(raw, m))
                    if fin != x and not bad:
                        bad = 'field %s recorded by pos() is not restored by seek() (becomes %s)' % (sym.path_str(fld), sym.show(fin)[:80])
        n_err = sum(1 for r in ps or [] if r.end == 'return' and rules.ret_shape(r.ret)[0] == 'Err')
        n_seeks = len([1 for x in sym.subterms(snapshot) if isinstance(x, tuple) and x and x[0] == 'call' and x[1] == 'Pos::pos'])
        n_opaque = sum(1 for r in ps or [] if r.end == 'return' and rules.ret_shape(r.ret)[0] not in ('Ok', 'Err'))
        if not bad and n_err < n_seeks and not n_opaque:
            bad = 'a backend seek error is not propagated (%d error exits for %d backend seeks)' % (n_err, n_seeks)
        if n_opaque and not bad:
            ctx.unresolved('R1', role, s.defpath, 'seek returns a Result built by a combinator (%d such exits); the rule reads `?`/match forms only' % n_opaque, key=key)
        elif bad:
            ctx.bad('R1', role, s.defpath, bad, key=key, loc=rules.loc(s))
        elif n_ok != 1:
            ctx.unresolved('R1', role, s.defpath, '%d success paths' % n_ok, key=key)
        else:
            ctx.ok('R1', role, s.defpath, 'snapshot %s' % sym.show(snapshot)[:160], key=key)


def check_seek_refusals(ctx, F):
    """A coder's seek refuses only what its backend (or the window reader) refuses.  pos() can report *every* reachable
    state -- also a head that is not yet filled above an empty bulk, or the empty coder -- so a refusal the coder decides
    from the snapshot alone turns away snapshots that pos() hands out.  Rule: on every Err exit of a coder's Seek::seek,
    the decision depends on the answer of a callee (a `?`/match on the backend's seek or on the reader)."""
    n = 0
    for b in F.bodies:
        if b.promoted is not None or b.name != 'seek' or b.impl_trait != 'Seek' or not (b.self_adt or '').startswith(('stream::', 'symbol::')) or '::tests::' in b.defpath:
            continue
        n += 1
        ctx.touch(b)
        ev, paths = rules.evaluate(b)
        key = 'R2/seek-refusals/' + b.defpath
        role = 'seek refuses only what a callee refuses'
        if paths is None:
            ctx.unresolved('R2', role, b.defpath, 'too many paths', key=key)
            continue
        bad = None
        n_err = 0
        is_call = lambda x: isinstance(x, tuple) and x and x[0] == 'call' and x[3] is not None
        for r in paths:
            if r.end == 'diverge' and not any(e['kind'] == 'branch' and sym.contains(e['term'], is_call) for e in r.events):
                # a panic decided from the snapshot alone
                if any(e['kind'] == 'branch' for e in r.events):
                    bad = bad or 'seek panics on a condition computed from the snapshot alone'
                continue
            if r.end != 'return' or rules.ret_shape(r.ret)[0] != 'Err':
                continue
            n_err += 1
            if not any(e['kind'] == 'branch' and sym.contains(e['term'], is_call) for e in r.events):
                conds = [sym.show(e['term'])[:70] for e in r.events if e['kind'] == 'branch']
                bad = 'an Err exit is decided from the snapshot alone (%s): snapshots that pos() reports -- e.g. a partially filled head at position 0 -- are refused' % '; '.join(conds)
        if bad:
            ctx.bad('R2', role, b.defpath, bad, key=key, loc=rules.loc(b))
        else:
            ctx.ok('R2', role, b.defpath, '%d error exit(s), each behind a callee\'s answer' % n_err, key=key)
        # a refused seek leaves the coder where it was: no field of the coder is assigned before a step that can still refuse
        key2 = 'R2/seek-failure-clean/' + b.defpath
        role2 = 'nothing is assigned before the last step that can refuse'
        early = None
        n_fallible = 0
        for r in paths:
            idx_calls = [i for i, e in enumerate(r.events) if e['kind'] == 'call' and e.get('uid') is not None
                         and (e['callee'].endswith('Seek::seek') or (F.by_def.get(e['callee']) is not None and 'Result<' in (F.by_def[e['callee']].raw.get('sig') or '')))]
            if not idx_calls:
                continue
            n_fallible = max(n_fallible, len(idx_calls))
            last = idx_calls[-1]
            for i, e in enumerate(r.events[:last]):
                if e['kind'] == 'write' and e['path'][:2] == (1, 'deref'):
                    early = 'field %s is assigned before %s, which can still refuse: after a refused seek the coder is left with the new %s but the old position, so it cannot carry on where it was' % (
                        sym.path_str(e['path']), r.events[last]['callee'].split('::')[-2] + '::' + r.events[last]['callee'].split('::')[-1], sym.path_str(e['path']).split('.')[-1])
        if early:
            ctx.bad('R2', role2, b.defpath, early, key=key2, loc=rules.loc(b))
        elif n_fallible == 0:
            ctx.unresolved('R2', role2, b.defpath, 'no fallible step recognised', key=key2)
        else:
            ctx.ok('R2', role2, b.defpath, 'all assignments follow the last fallible step (%d fallible step(s))' % n_fallible, key=key2)
    ctx.floor('R2', 'coder Seek impls examined for own refusals', 'stream', n, 3, '%d coder Seek impls' % n, 'R2/floor/seek-refusals', public=True)


def check_state_ctor_accepts_wrapped(ctx, F):
    """A snapshot can only be stored and reloaded through its raw parts (lower(), range() and the public state constructor).
    While the encoder holds back words its interval [lower, lower + range) wraps around 2^State::BITS on purpose, so the
    constructor must accept *every* lower: its refusals may depend on `range` alone (the renormalisation bound, decided by
    C10).  A refusal that looks at `lower` turns away genuine snapshots taken in that situation."""
    RCS = 'stream::queue::RangeCoderState'
    key = 'R2/state-ctor-accepts-any-lower/' + RCS
    role = 'the state constructor refuses on `range` alone'
    ctor = anchors.method(F, RCS, 'new')
    if ctor is None:
        return ctx.unresolved('R2', role, RCS, 'constructor not found', key=key)
    ctx.touch(ctor)
    ev, paths = rules.evaluate(ctor)
    if not paths:
        return ctx.unresolved('R2', role, ctor.defpath, 'not evaluated', key=key)
    # which argument ends up in the `lower` field of the accepted literal?
    lower_arg = None
    for r in paths:
        if r.end == 'return' and r.ret is not None and rules.ret_shape(r.ret)[0] == 'Ok':
            lit = [x for x in sym.subterms(r.ret) if isinstance(x, tuple) and x and x[0] == 'agg' and x[3] and 'lower' in x[3]]
            if lit:
                v = lit[0][2][lit[0][3].index('lower')]
                if isinstance(v, tuple) and v and v[0] == 'arg':
                    lower_arg = v
    if lower_arg is None:
        return ctx.unresolved('R2', role, ctor.defpath, 'the accepted literal does not store an argument in `lower`', key=key)
    n_err = 0
    bad = None
    for r in paths:
        if r.end == 'return' and rules.ret_shape(r.ret)[0] == 'Err' or r.end == 'diverge':
            n_err += 1
            for t, v, _ in r.preds:
                if sym.contains(t, lambda x: x == lower_arg):
                    bad = 'a refusing exit is decided by `%s`, which looks at `lower`: while words are held back the interval wraps around 2^State::BITS, so snapshots recorded then (a few percent of all symbol boundaries) cannot be reloaded' % sym.show(t)[:90]
    if bad:
        return ctx.bad('R2', role, ctor.defpath, bad, key=key, loc=rules.loc(ctor))
    ctx.ok('R2', role, ctor.defpath, '%d refusing exit(s), none looks at `lower`' % n_err, key=key)


def simplify_partial(t):
    """partial(base, overrides) where every override re-stores the base's own projection is just base."""
    if t[0] == 'partial' and t[1][0] == 'in':
        keep = tuple((p, v) for p, v in t[2] if v != ('in', t[1][1] + p))
        return t[1] if not keep else ('partial', t[1], keep)
    return t


def inline_state(F, t, adt=None):
    """Code::state(self) -> the field it returns (one-level inlining of the accessor)."""
    def f(n):
        if n and n[0] == 'call' and n[1].endswith('::state') and n[2] and n[2][0] == ('in', (1, 'deref')):
            b = F.by_def.get(n[1])
            if b is None:
                cands = [x for x in F.bodies if x.promoted is None and x.name == 'state' and x.impl_trait == 'stream::Code' and x.self_adt == adt]
                if len(cands) != 1:
                    return None
                b = cands[0]
            _, pp = rules.evaluate(b)
            r = c18.only_return(pp)
            if r is not None:
                return r.ret
        return None
    return effects.rebuild(t, f)


def arg_projection_map(r, ev, snapshot):
    """Map every ('in', (2, ...)) atom occurring on the path to the matching projection of the snapshot term."""
    m = {}
    terms = [e['args'][1] for e in r.events if e['kind'] == 'call' and len(e['args']) > 1]
    for p, v in r.store.items():
        terms.append(v)
    for t in terms:
        for x in sym.subterms(t):
            if isinstance(x, tuple) and x and x[0] == 'in' and x[1][0] == 2 and x not in m:
                v = snapshot
                ok = True
                for e in x[1][1:]:
                    if v[0] == 'in' and e[0] == 'f':
                        v = ('in', v[1] + (e,))
                    elif v[0] == 'agg' and e[0] == 'f':
                        fn = v[3]
                        if fn and e[1] in fn:
                            v = v[2][fn.index(e[1])]
                        else:
                            try:
                                v = v[2][int(e[1])]
                            except Exception:
                                ok = False
                                break
                    else:
                        ok = False
                        break
                if ok:
                    m[x] = v
    return m


def check_pure_snapshots(ctx, F):
    n = 0
    for b in F.bodies:
        if b.promoted is None and b.name == 'pos' and b.impl_trait == 'Pos' and not b.defpath.startswith('<pybindings'):
            n += 1
            key = 'R7/pos-readonly/' + b.defpath
            rk = b.receiver_kind()
            (ctx.ok if rk == '&self' else ctx.bad)('R7', 'taking a snapshot does not mutate', b.defpath, 'receiver ' + str(rk), key=key)
    if n < 5:
        ctx.bad('R7', 'floor: Pos impls', 'crate', 'only %d Pos impls found' % n, key='R7/floor/pos')


def run(ctx):
    F = ctx.F
    check_held_back(ctx, F)
    check_seek_protocols(ctx, F)
    check_seek_refusals(ctx, F)
    check_state_ctor_accepts_wrapped(ctx, F)
    c17.check_seek(ctx, F)
    c17.check_cursor_position_carried(ctx, F)      # a decoder converted in place keeps the position it was sought to
    check_pure_snapshots(ctx, F)
    ctx.assume('a backend write appends one word, a backend read consumes one word (C17 for the provided backends)')
    ctx.assume('Rust typing: a (position, state) pair can only be assembled from the component types recorded by pos()')
    return {
        'level': 'other',
        'explanation': 'Potential-function argument decided statically: on every success path of RangeEncoder::encode_symbol the loop-summarised number of words written plus the change of the held-back '
                       'count equals the number of one-word shifts of `lower`; Pos::pos returns exactly that potential; the decoder reads one word per shift under the same predicate; seek re-reads the '
                       'window with the constructors\' routine after seeking the backend and propagates both errors; seek(pos()) is symbolically the identity for AnsCoder and ChainCoder; backend seek accepts '
                       'exactly p <= len. Hence, by induction over symbols, the position an encoder reports at a symbol boundary is the number of words the decoder has consumed beyond its window there. '
                       'Not decided: that decoding after the seek yields the right symbols (arithmetic), maybe_exhausted at the final position.',
        'trusted_base': ['rustc type checker + MIR construction', 'cfacts extractor', 'iterator length algebra', 'std Vec/NonZero contracts'],
    }
