"""C13 — chain coder: decode-then-re-encode restores the data (partial).

Statically decided clauses:
  1. running out of compressed data / remainders is an error, never data: on every path of the chain
     coder's reading functions that continues after a backend read, the read is known to have
     returned a word (R2 error discipline)
  2. the `unsafe` precision changers are only called where their preconditions are entailed: the
     assertion set of the dedicated safe wrapper is the reference; every other caller must entail it
     from its own static assertions plus the branch it sits in (R6 const-generic entailment)
  3. the heads are closed: ChainCoderHeads has private fields and is only built by its constructor
     and the precision changers (R7)
  4. configuration guards (compile-fail witnesses, thorough tier) (R9)
Not decided: restore-exactly arithmetic (refill/flush thresholds), head export/import identity.
"""
from vlib import pow2, sym, rules, effects, dbm as dbmmod
from vlib.facts import callee

CHAIN = 'stream::chain::ChainCoder'
HEADS = 'stream::chain::ChainCoderHeads'


def option_known_some(res, read_event):
    """Is there a predicate on the path that establishes `read()` yielded Some(word)?"""
    rt = read_event['result']
    for t, v, _ in res.preds:
        if not sym.contains(t, lambda x: x == rt):
            continue
        # the read result must have been unwrapped from its Result at least once below this predicate
        unwrapped = sym.contains(t, lambda x: isinstance(x, tuple) and x and ((x[0] == 'unwrap' and sym.contains(x[1], lambda y: y == rt))
                                                                              or (x[0] == 'payload' and x[2] == 'Ok' and sym.contains(x[1], lambda y: y == rt))))
        if not unwrapped:
            continue
        if t[0] == 'discr':
            vn = sym.discr_variant(t, v)
            if vn in ('Some', 'Continue'):
                return True
        if t[0] == 'is' and t[1] == 'Some' and v == 1:
            return True
    return False


def check_out_of_data(ctx, F):
    targets = []
    for b in F.bodies:
        if b.promoted is not None or b.dk != 'AssocFn' or not b.file.endswith('stream/chain.rs') or 'pybindings' in b.file or '::tests::' in b.defpath:
            continue
        direct = any((rules.callee(t) or {}).get('def') == 'backends::ReadWords::read' for _, t in b.calls())
        if not direct:
            # a caller of a reading helper: after inlining, its paths contain the helper's read
            helpers = [F.by_def.get((rules.callee(t) or {}).get('def')) for _, t in b.calls()]
            if not any(h is not None and h.file.endswith('stream/chain.rs') and any((rules.callee(t2) or {}).get('def') == 'backends::ReadWords::read' for _, t2 in h.calls()) for h in helpers):
                continue
        targets.append(b)
    n = 0
    for b in targets:
        ev, paths = rules.evaluate(b)
        ctx.touch(b, calls=sum(1 for _ in b.calls()))
        key = 'R2/out-of-data-is-error/' + b.defpath
        role = 'a backend read that yields no word ends in an error, never in data'
        if paths is None:
            ctx.unresolved('R2', role, b.defpath, 'too many paths', key=key)
            continue
        n += 1
        bad = None
        n_reads = 0
        for r in paths:
            cont = r.end == 'backedge' or (r.end == 'return' and rules.ret_shape(r.ret)[0] in ('Ok', 'Some', 'opaque') and not (r.ret is not None and r.ret[0] == 'err_of'))
            if not cont:
                continue
            for e in r.events:
                if e['kind'] == 'call' and e['callee'] == 'backends::ReadWords::read':
                    n_reads += 1
                    if not option_known_some(r, e):
                        bad = 'a path continues (%s) after the read at %s without establishing that a word was returned' % (r.end, e['span'].split('-')[0])
                # a helper that reads (refill / flush of a head) reports "no word" through its Result: going on requires its Ok
                h = F.by_def.get(e['callee']) if e['kind'] == 'call' else None
                if h is not None and h is not b and h.file.endswith('stream/chain.rs') and any((rules.callee(t2) or {}).get('def') == 'backends::ReadWords::read' for _, t2 in h.calls()):
                    n_reads += 1
                    res = e['result']
                    # the decision may be taken on the result itself or on what a combinator (map_err, ..) made of it
                    went_on_ok = any(t[0] == 'discr' and sym.contains(t[1], lambda x, res=res: x == res) and sym.discr_variant(t, v) in ('Continue', 'Ok') for t, v, _ in r.preds)
                    if not went_on_ok:
                        bad = 'a path continues (%s) after %s at %s without the Ok / Continue decision of its result: "no word left" is swallowed and the function goes on with a head that was not refilled' % (r.end, e['callee'].rsplit('::', 1)[-1], e['span'].split('-')[0])
        if bad:
            ctx.bad('R2', role, b.defpath, bad, key=key, loc=rules.loc(b))
        elif n_reads == 0:
            ctx.unresolved('R2', role, b.defpath, 'no continuing path with a read', key=key)
        else:
            ctx.ok('R2', role, b.defpath, '%d (path, read) pairs: every continuing path has the Some/Continue decision of the read' % n_reads, key=key)
    ctx.extra['chain_readers'] = n
    ctx.floor('R2', 'floor: chain-coder reading functions', CHAIN, n, 4, 'only %d functions with backend reads found (>= 4 expected)' % n, key='R2/floor/chain-readers')


rules.callee = __import__('vlib.facts', fromlist=['callee']).callee


# ---------------------------------------------------------------- clause 2

def asserts_of(F, body):
    """Static assertions evaluated in the body: list of (term, value)."""
    out = []
    for bl in body.blocks:
        if bl['cleanup']:
            continue
        for s in bl['stmts']:
            if s['k'] != 'assign' or s['rv']['k'] != 'use':
                continue
            o = s['rv']['op']
            if o['k'] == 'const' and o.get('ck') == 'uneval' and '::Check::' in o.get('def', ''):
                cb = F.by_def.get(o['def'])
                if cb is None:
                    continue
                _, pp = rules.evaluate(cb)
                for r in pp or []:
                    if r.end == 'return':
                        for t, v, _ in r.preds:
                            out.append((t, v, o['def'].rsplit('::', 1)[-1]))
    return out


def entails(facts, goal):
    """facts/goal: (term, value[, label]). Identity, or difference-bound entailment over const generics."""
    gt, gv = goal[0], goal[1]
    for f in facts:
        if f[0] == gt and f[1] == gv:
            return True
    d = dbmmod.DBM()
    for f in facts:
        t, v = f[0], f[1]
        if t[0] == 'bin' and t[1] in ('Lt', 'Le', 'Eq', 'Ne') and v in (0, 1):
            d.assume_cmp(t[1], t[2], t[3], v)
    if gt[0] == 'bin' and gt[1] in ('Lt', 'Le', 'Eq') and gv == 1:
        return d.entails_cmp(gt[1], gt[2], gt[3])
    if gt[0] == 'bin' and gt[1] in ('Lt', 'Le') and gv == 0:
        return d.entails_cmp('Le' if gt[1] == 'Lt' else 'Lt', gt[3], gt[2])
    return False


def check_precision_changers(ctx, F):
    unsafe_fns = [b for b in F.bodies if b.promoted is None and b.unsafe and b.self_adt == CHAIN and b.dk == 'AssocFn']
    n_sites = 0
    for u in unsafe_fns:
        callers = []
        for c in F.bodies:
            if c.promoted is not None or c.dk not in ('Fn', 'AssocFn'):
                continue
            for blk, t in c.calls():
                cd = rules.callee(t)
                if cd and cd['def'] == u.defpath:
                    callers.append((c, blk))
        # reference: the safe wrapper = caller with a single path to the call (no branch) and static assertions
        wrappers = []
        for c, blk in callers:
            ev, paths = rules.evaluate(c)
            if paths and not c.unsafe and len([p for p in paths if p.end in ('return',)]) <= 2 and not any(e['kind'] == 'branch' and not _is_try_branch(e) for p in paths for e in p.events):
                if asserts_of(F, c):
                    wrappers.append(c)
        key0 = 'R6/precond-reference/' + u.defpath
        if len(wrappers) != 1:
            ctx.unresolved('R6', 'reference preconditions of an unsafe fn', u.defpath, 'expected exactly one dedicated safe wrapper, found %d' % len(wrappers), key=key0)
            continue
        ref = asserts_of(F, wrappers[0])
        ctx.ok('R6', 'reference preconditions of an unsafe fn', u.defpath,
               'taken from %s: %s' % (wrappers[0].name, '; '.join('%s=%s' % (sym.show(t), v) for t, v, _ in ref)), key=key0)
        for c, blk in callers:
            n_sites += 1
            ctx.touch(c)
            key = 'R6/precond/%s@%s' % (u.name, c.defpath)
            role = 'unsafe precision changer is called only where its preconditions hold'
            if c.unsafe:
                ctx.unresolved('R6', role, c.defpath, 'caller is itself unsafe: obligation passes on', key=key)
                continue
            ev, paths = rules.evaluate(c)
            own = asserts_of(F, c)
            bad = None
            seen = False
            for p in paths or []:
                for i, e in enumerate(p.events):
                    if e['kind'] == 'call' and e['callee'] == u.defpath and e['block'] == blk:
                        seen = True
                        facts = list(own) + [(t, v) for t, v, b2 in p.preds]
                        for g in ref:
                            if not entails(facts, g):
                                bad = 'precondition `%s == %s` (%s) is not entailed at the call in %s (facts: %s)' % (
                                    sym.show(g[0]), g[1], g[2], c.name, '; '.join('%s=%s' % (sym.show(f[0]), f[1]) for f in facts)[:300])
            if bad:
                ctx.bad('R6', role, c.defpath, bad, key=key, loc=rules.loc(c))
            elif not seen:
                ctx.unresolved('R6', role, c.defpath, 'call site not reached by any enumerated path', key=key)
            else:
                ctx.ok('R6', role, c.defpath, 'all %d reference preconditions entailed by the caller\'s assertions and branch' % len(ref), key=key)
    ctx.extra['unsafe_precision_call_sites'] = n_sites
    ctx.floor('R6', 'floor: unsafe precision changer call sites', CHAIN, n_sites, 4, 'only %d call sites found (4 expected)' % n_sites, key='R6/floor/precision-sites')


def _is_try_branch(e):
    return e['term'][0] == 'discr' and e['term'][1][0] == 'try'


def _shift_affine(k):
    """shift amount as an affine form over {S, W, P} (PRECISION and NEW_PRECISION both play the role P)."""
    a = sym.affine(k)
    if a is None:
        return None
    out = {}
    for key, (c, at) in a[0].items():
        if at[0] != 'c':
            return None
        n = at[1]
        role = 'S' if n.startswith('<State') else 'W' if n.startswith('<Word') else 'P' if 'PRECISION' in n else n
        out[role] = out.get(role, 0) + c
    if a[1]:
        out['const'] = a[1]
    return tuple(sorted(out.items()))


def guard_of_call(res, i):
    """The last comparison of the remainders head with a shifted threshold decided before event i: (relation, shift, base)."""
    found = None
    is_rem = lambda rem: sym.contains(rem, lambda y: isinstance(y, tuple) and y and ((y[0] in ('in', 'loop', 'post') and any(e == ('f', 'remainders') for e in y[-1] if isinstance(e, tuple))) or (y[0] == 'loop')))
    for t, v, _ in res.preds[:rules.preds_before(res, i)]:
        # the same threshold spelled as a shift test: `remainders >> k == 0`  <=>  remainders < 1 << k
        if t[0] == 'bin' and t[1] in ('Eq', 'Ne') and v in (0, 1):
            for x, z in ((t[2], t[3]), (t[3], t[2])):
                if ((z[0] == 'k' and z[1] == 'zero') or z == ('int', 0)) and x[0] == 'bin' and x[1] == 'Shr' and is_rem(x[2]):
                    below = (t[1] == 'Eq') == bool(v)
                    found = ('<' if below else '>=', _shift_affine(x[3]), 'one')
            continue
        if not (t[0] == 'bin' and t[1] in ('Lt', 'Le') and v in (0, 1)):
            continue
        for rem, thr, rem_left in ((t[2], t[3], True), (t[3], t[2], False)):
            if thr[0] == 'bin' and thr[1] == 'Shl' and sym.contains(rem, lambda y: isinstance(y, tuple) and y and ((y[0] in ('in', 'loop', 'post') and any(e == ('f', 'remainders') for e in y[-1] if isinstance(e, tuple))) or (y[0] == 'loop'))):
                # normalise to a relation  remainders REL threshold
                if rem_left:
                    rel = {('Lt', 1): '<', ('Lt', 0): '>=', ('Le', 1): '<=', ('Le', 0): '>'}[(t[1], v)]
                else:
                    rel = {('Lt', 1): '>', ('Lt', 0): '<=', ('Le', 1): '>=', ('Le', 0): '<'}[(t[1], v)]
                base = 'one' if (thr[2][0] == 'k' and thr[2][1] == 'one') else 'probability'
                found = (rel, _shift_affine(thr[3]), base)
    return found


def check_head_guards(ctx, F):
    """Sibling agreement: every flush of the remainders head is guarded by `remainders >= 1 << (S - P)`, every refill
    / initial fill by `remainders < x << (S - P - W)`; same strictness and same shift at all sites."""
    groups = {'flush': {}, 'refill': {}}
    for b in F.bodies:
        if b.promoted is not None or not b.file.endswith('stream/chain.rs') or '::tests::' in b.defpath or b.dk not in ('Fn', 'AssocFn'):
            continue
        names = [(callee(t) or {}).get('name') for _, t in b.calls()]
        if not any(n in ('flush_remainders_head', 'refill_remainders_head') for n in names) and not (b.name == 'new' and b.self_adt == HEADS):
            continue
        ev, paths = rules.evaluate(b)
        ctx.touch(b)
        for r in paths or []:
            for i, e in enumerate(r.events):
                if e['kind'] != 'call':
                    continue
                kind = None
                if e['name'] == 'flush_remainders_head':
                    kind = 'flush'
                elif e['name'] == 'refill_remainders_head':
                    kind = 'refill'
                elif b.name == 'new' and b.self_adt == HEADS and e['callee'] == 'backends::ReadWords::read' and r.end == 'backedge' \
                        and any(e['block'] in blocks for blocks in ev.loops.values()):
                    kind = 'refill'
                if kind is None:
                    continue
                g = guard_of_call(r, i)
                site = '%s@%s' % (b.name, e['span'].split(':')[1])
                groups[kind].setdefault(b.defpath, set()).add(g)
    for kind, want_rel in (('flush', '>='), ('refill', '<')):
        sites = groups[kind]
        key = 'R4/head-guard-agreement/' + kind
        role = 'all guards that trigger a %s of the remainders head use the same relation and threshold shift' % kind
        flat = set()
        for dp, gs in sites.items():
            flat |= {(g[0], g[1]) if g else None for g in gs}
        if len(sites) < 2:
            ctx.unresolved('R4', role, CHAIN, 'fewer than two %s sites found (%d)' % (kind, len(sites)), key=key)
        elif None in flat:
            ctx.unresolved('R4', role, CHAIN, 'a %s site has no recognisable guard' % kind, key=key)
        elif len(flat) == 1 and list(flat)[0][0] == want_rel:
            ctx.ok('R4', role, CHAIN, '%d sites: remainders %s x << %s' % (len(sites), want_rel, dict(list(flat)[0][1])), key=key)
        else:
            detail = '; '.join('%s: %s' % (dp.rsplit('::', 1)[-1], sorted((g[0], dict(g[1]) if g and g[1] else None) for g in gs if g)) for dp, gs in sorted(sites.items()))
            ctx.bad('R4', role, CHAIN, 'sites disagree (expected `remainders %s threshold` everywhere): %s' % (want_rel, detail), key=key)


def check_flush_threshold(ctx, F):
    """The remainders head is flushed exactly when it reaches 2^(State::BITS - P'), where P' is the precision of the coder the
    function leaves behind: PRECISION for the coding steps, NEW_PRECISION for a precision change.  The rule inlines every
    private helper (so it does not matter whether the test sits in the caller or in the helper), finds each write of the
    head's low word to the remainders backend, and reads the test that guards it in canonical form `head >= 2^E`.  A test
    written on a left-shifted head is refuted: the shift drops the head's top bits for large precision steps."""
    from vlib import inline
    import props.C18 as c18
    is_head = lambda x: c18._is_field(x, 'heads', 'remainders')
    n = 0
    for b in F.bodies:
        if b.promoted is not None or b.self_adt != CHAIN or b.dk != 'AssocFn' or '::tests::' in b.defpath or not b.file.endswith('stream/chain.rs'):
            continue
        if b.vis != 'pub' and b.impl_trait is None and not b.name.endswith('_unchecked'):
            continue       # private helpers are looked at inside their callers
        try:
            b2, _ = inline.inline_body(F, b, set())
            ev = sym.Evaluator(b2, max_paths=4000)
            paths = ev.run()
        except Exception:
            continue
        flushes = []
        for r in paths:
            for i, e in enumerate(r.events):
                if e['kind'] == 'call' and e['callee'].endswith('WriteWords::write') and e['args'] and e['args'][0][0] == 'ref' and ('f', 'remainders') in e['args'][0][1] and ('f', 'heads') not in e['args'][0][1] \
                        and sym.contains(e['args_val'][1], is_head) and not e.get('loops'):
                    flushes.append((r, i, e))
        if not flushes:
            continue
        sig = b.raw.get('sig') or ''
        newp = 'NEW_PRECISION' in sig.split('->')[-1]
        want = pow2._exp_add(pow2.bits_of('State'), ({sym.tkey(('c', 'NEW_PRECISION' if newp else 'PRECISION')): (1, ('c', 'NEW_PRECISION' if newp else 'PRECISION'))}, 0), -1)
        n += 1
        ctx.touch(b)
        key = 'R10/flush-threshold/' + b.defpath
        role = 'the remainders head is flushed exactly at 2^(State::BITS - %s)' % ('NEW_PRECISION' if newp else 'PRECISION')
        bad = unk = None
        for r, i, e in flushes:
            k = rules.preds_before(r, i)
            guard = None
            for t, v, _ in r.preds[:k]:
                if not sym.contains(t, is_head):
                    continue
                if sym.contains(t, lambda x: isinstance(x, tuple) and x and x[0] == 'bin' and x[1] == 'Shl' and sym.contains(x[2], is_head)):
                    guard = ('shl', t)
                    continue
                c = pow2.below_pow2(t, v, lambda x: pow2.bits_of('State'))
                if c is not None and sym.contains(c[0], is_head):
                    guard = ('thr', c)        # the tested value is the head, or the value just computed from it and stored as the new head
            if guard is None:
                unk = unk or 'a flush without a recognisable test of the head'
            elif guard[0] == 'shl':
                bad = 'the test that decides the flush compares a *left-shifted* head (%s): for a precision step larger than the old precision the shift drops the top bits of the head, the test misjudges such heads and the flush is skipped (debug builds panic on the shift)' % sym.show(guard[1])[:100]
            else:
                x, E, holds = guard[1]
                if holds:
                    unk = unk or 'the flush happens on the outcome `head < 2^E`'
                elif sym.affine_str(E) != sym.affine_str(want):
                    bad = 'the head is flushed when it reaches 2^(%s), but the coder this function leaves behind needs head < 2^(%s): %s' % (
                        sym.affine_str(E), sym.affine_str(want), 'the test looks at the old precision, so a precision increase never flushes and the next symbols overflow the head' if newp else 'the thresholds disagree')
        if bad:
            ctx.bad('R10', role, b.defpath, bad, key=key, loc=rules.loc(b))
        elif unk:
            ctx.unresolved('R10', role, b.defpath, unk, key=key)
        else:
            ctx.ok('R10', role, b.defpath, '%d flush path(s) under head >= 2^(%s)' % (len(flushes), sym.affine_str(want)), key=key)
    if n == 0:
        ctx.unresolved('R10', 'flush threshold', CHAIN, 'no function flushes the remainders head', key='R10/flush-threshold/floor')


def check_heads_closed(ctx, F):
    a = F.adts.get(HEADS)
    if a is None:
        ctx.bad('R7', 'anchor', HEADS, 'ChainCoderHeads not found', key='R7/anchor/heads')
        return
    pubs = [f['name'] for f in a['variants'][0]['fields'] if f['vis'] == 'pub']
    key = 'R7/heads-private'
    (ctx.bad if pubs else ctx.ok)('R7', 'ChainCoderHeads fields are private', HEADS, 'pub fields: %s' % pubs if pubs else 'compressed, remainders are private', key=key)
    sites = {}
    for b in F.bodies:
        if b.promoted is not None or b.derived or '::tests::' in b.defpath:
            continue
        for bl in b.blocks:
            if bl['cleanup']:
                continue
            for s in bl['stmts']:
                if s['k'] == 'assign' and s['rv']['k'] == 'agg' and s['rv'].get('adt') == HEADS:
                    sites[b.defpath] = b
    def accepted(b, depth=0):
        # the constructor (an associated fn of the heads type), the unsafe precision changers (their callers carry the
        # obligation, checked by the precondition-entailment rule), or a private helper that only such functions call
        if not b.file.endswith('stream/chain.rs'):
            return False
        if b.self_adt == HEADS or (b.self_adt == CHAIN and b.unsafe):
            return True
        if depth == 0 and b.vis != 'pub' and b.self_adt == CHAIN:
            callers = [x for x in F.bodies if x.promoted is None and '::tests::' not in x.defpath and any((callee(t) or {}).get('def') == b.defpath for _, t in x.calls())]
            return bool(callers) and all(accepted(x, 1) for x in callers)
        return False
    for dp, b in sorted(sites.items()):
        key = 'R7/heads-literal/' + dp
        if accepted(b):
            ctx.ok('R7', 'ChainCoderHeads is built only by its constructor and the precision changers', dp, 'literal site (inventory)', key=key)
        else:
            ctx.unresolved('R7', 'ChainCoderHeads is built only by its constructor and the precision changers', dp, 'new literal site of ChainCoderHeads: the head invariants are not re-established by a known routine', key=key, loc=rules.loc(b))
    ctx.floor('R7', 'floor: ChainCoderHeads literal sites', HEADS, len(sites), 3, 'only %d literal sites found' % len(sites), key='R7/floor/heads-literals')


def _seed_of_head(ev, r, term):
    """value the remainders-head accumulator had before its fill loop on this path."""
    if isinstance(term, tuple) and term and term[0] == 'loop':
        for e in r.events:
            if e['kind'] == 'loop_enter' and e['head'] == term[1] and term[2] in e['pre']:
                return e['pre'][term[2]]
        return None
    return term


def check_marker_sentinel(ctx, F):
    """Import and export of the remainders head agree on the artificial leading 1.

    from_binary seeds the head with the constant 1 (a marker above the data), from_compressed seeds it with the first data
    word.  The matching exporter drains the head word by word: it must stop at 1 exactly when the importer pushed the
    marker, and must run down to 0 when every bit of the head is data - otherwise the top word is dropped or a marker
    word is emitted.  Both facts are read from the MIR (seed of the accumulator before the fill loop; constant the drain
    loop compares the head with)."""
    AGG_HEADS = 'stream::chain::ChainCoderHeads'
    for suffix in ('binary', 'compressed', 'remainders'):
        imp = method_of(F, 'from_' + suffix)
        exp = method_of(F, 'into_' + suffix)
        key = 'R4/marker-sentinel/%s/%s' % (CHAIN, suffix)
        role = 'the exporter drains the remainders head down to the marker the importer pushed (or to zero if it pushed none)'
        if imp is None or exp is None:
            ctx.unresolved('R4', role, CHAIN, 'from_%s / into_%s not found' % (suffix, suffix), key=key)
            continue
        ctx.touch(imp); ctx.touch(exp)
        ev, paths = rules.evaluate(imp)
        seeds = set()
        for r in paths or []:
            if r.end != 'return' or r.ret is None or not (r.ret[0] == 'agg' and r.ret[1][-1] == 'Ok'):
                continue
            heads = [x for x in sym.subterms(r.ret) if isinstance(x, tuple) and x and x[0] == 'agg' and isinstance(x[1], tuple) and x[1][0] == 'adt' and x[1][1] == AGG_HEADS]
            for h in heads:
                names = h[3]
                if 'remainders' not in names:
                    continue
                sd = _seed_of_head(ev, r, h[2][names.index('remainders')])
                if sd is None:
                    seeds.add('?')
                elif sd[0] == 'k' and sd[1] == 'one':
                    seeds.add('marker')
                elif sym.contains(sd, lambda x: isinstance(x, tuple) and x and x[0] == 'call' and str(x[1]).endswith('ReadWords::read')):
                    seeds.add('data')
                else:
                    seeds.add('?')
        ev2, paths2 = rules.evaluate(exp)
        consts = set()
        RH = (('f', 'heads'), ('f', 'remainders'))
        for r in paths2 or []:
            pre = {}
            for e in r.events:
                if e['kind'] == 'loop_enter':
                    for pth, val in e['pre'].items():
                        pre[(e['head'], pth)] = val

            def is_head(a):
                # the loop variable is the remainders head itself, or a local that was initialised with it (a by-value copy
                # handed to an extracted helper)
                if not (isinstance(a, tuple) and a and a[0] == 'loop'):
                    return False
                if tuple(a[2][-2:]) == RH:
                    return True
                v0 = pre.get((a[1], a[2]))
                return isinstance(v0, tuple) and v0 and v0[0] == 'in' and tuple(v0[1][-2:]) == RH
            for t, v, _ in r.preds:
                if not (isinstance(t, tuple) and t and t[0] == 'bin' and t[1].split('.')[0] in ('Ne', 'Eq', 'Lt', 'Le', 'Gt', 'Ge')):
                    continue
                for a, c in ((t[2], t[3]), (t[3], t[2])):
                    if is_head(a) and isinstance(c, tuple) and c[0] == 'k':
                        consts.add(c[1])
                    elif is_head(a) and pow2.p2(c) is not None:
                        consts.add('2^..: ' + pow2.p2(c).show())
        if len(seeds) != 1 or '?' in seeds or len(consts) != 1:
            ctx.unresolved('R4', role, CHAIN, 'importer seeds %s, exporter compares the head with %s' % (sorted(seeds), sorted(consts)), key=key)
            continue
        seed, const = list(seeds)[0], list(consts)[0]
        if const not in ('one', 'zero'):
            ctx.bad('R4', role, CHAIN, 'into_%s stops draining the remainders head at %s: the words of the head above that bound are written differently from how from_%s reads them back (a head that is an exact power of 2^Word::BITS loses its top word)' % (
                suffix, const.replace('2^..: ', ''), suffix), key=key, loc=rules.loc(exp))
            continue
        if (seed == 'marker') == (const == 'one') and const in ('one', 'zero'):
            ctx.ok('R4', role, CHAIN, 'from_%s seeds the head with %s; into_%s drains it while it differs from / exceeds %s()' % (suffix, 'the constant 1' if seed == 'marker' else 'the first data word', suffix, const), key=key)
        else:
            ctx.bad('R4', role, CHAIN, 'from_%s seeds the head with %s, but into_%s stops draining at %s(): %s' % (
                suffix, 'the constant 1 (marker)' if seed == 'marker' else 'the first data word (no marker)', suffix, const,
                'a top word equal to 1 is data here and is dropped from the output' if seed == 'data' else 'the marker is written out as if it were data'), key=key, loc=rules.loc(exp))


class _Unknown(Exception):
    pass


def _eval_bitlen(t, k):
    """Abstract value of term t for a remainders head of bit length 1 + k*W (marker above k whole words):
    ('num', affine over {W, S}) | ('bl', affine bit length) | ('zero',).  Raises _Unknown."""
    W, S = ('c', '<Word as BitArray>::BITS'), ('c', '<State as BitArray>::BITS')
    aW = ({sym.tkey(W): (1, W)}, 0)

    def num(a):
        return ('num', a)

    def scale(a, c):
        return ({kk: (vv[0] * c, vv[1]) for kk, vv in a[0].items() if vv[0] * c}, a[1] * c)

    def add(a, b, sign=1):
        d = dict(a[0])
        for kk, (c, at) in b[0].items():
            c0 = d.get(kk, (0, at))[0]
            d[kk] = (c0 + sign * c, at)
        return ({kk: vv for kk, vv in d.items() if vv[0]}, a[1] + sign * b[1])

    def sign_ge1(a):
        # a >= 1 for all W >= 1, S >= 2W ?  decided only for forms c*W + n
        ks = list(a[0].values())
        if any(at != W for c, at in ks):
            return None
        c = ks[0][0] if ks else 0
        n = a[1]
        if c >= 0 and n >= 1:
            return True
        if c == 0:
            return n >= 1
        if c > 0 and c + n >= 1:
            return True            # W >= 1
        if c < 0 and n <= 1 + (-c) - 1 and c + n < 1:
            return False           # c*W + n <= c + n < 1
        return None
    L = add(({}, 1), scale(aW, k))          # bit length of the head
    h = t
    if sym.is_int(t):
        return num(({}, t[1]))
    if t[0] == 'k':
        return num(({}, 1 if t[1] == 'one' else 0)) if t[1] in ('one', 'zero') else (_ for _ in ()).throw(_Unknown(t[1]))
    if t[0] == 'c':
        if t in (W, S):
            return num(({sym.tkey(t): (1, t)}, 0))
        raise _Unknown('constant ' + t[1])
    if t[0] == 'cast':
        return _eval_bitlen(t[2], k)
    if t[0] in ('in', 'loop') and tuple(x for x in (t[1] if t[0] == 'in' else t[2]) if isinstance(x, tuple))[-2:] == (('f', 'heads'), ('f', 'remainders')) and t[0] == 'in':
        return ('bl', L)
    if t[0] == 'call' and str(t[1]).endswith('leading_zeros'):
        v = _eval_bitlen(t[2][0], k)
        if v[0] == 'bl':
            return num(add(({sym.tkey(S): (1, S)}, 0), v[1], -1))
        raise _Unknown('leading_zeros of a non-head value')
    if t[0] == 'call' and str(t[1]).endswith('::is_whole'):
        return num(({}, 1))
    if t[0] == 'bin':
        op = t[1].split('.')[0]
        a, b = _eval_bitlen(t[2], k), _eval_bitlen(t[3], k)
        if op in ('Add', 'Sub') and a[0] == b[0] == 'num':
            return num(add(a[1], b[1], 1 if op == 'Add' else -1))
        if op == 'Rem' and a[0] == b[0] == 'num':
            # (c * b) % b == 0
            if not b[1][0] and b[1][1] == 0:
                raise _Unknown('modulo zero')
            if b[1] == aW and all(at == W for c, at in a[1][0].values()) and a[1][1] == 0:
                return num(({}, 0))
            if not a[1][0] and a[1][1] == 0:
                return num(({}, 0))
            raise _Unknown('remainder not decided')
        if op == 'Shr' and a[0] == 'bl' and b[0] == 'num':
            rest = add(a[1], b[1], -1)
            ge = sign_ge1(rest)
            if ge is True:
                return ('bl', rest)
            if ge is False:
                return ('zero',)
            raise _Unknown('shift result not decided')
        if op in ('Eq', 'Ne', 'Lt', 'Le'):
            def as_class(v):
                # -> ('exact', n) | ('ge2',) | None
                if v[0] == 'zero':
                    return ('exact', 0)
                if v[0] == 'num' and not v[1][0]:
                    return ('exact', v[1][1])
                if v[0] == 'bl':
                    if not v[1][0] and v[1][1] == 1:
                        return ('exact', 1)
                    g = sign_ge1(add(v[1], ({}, 1), -1))
                    if g is True:
                        return ('ge2',)
                return None
            ca, cb = as_class(a), as_class(b)
            if a[0] == b[0] == 'num':
                d = add(a[1], b[1], -1)
                if not d[0]:
                    r = {'Eq': d[1] == 0, 'Ne': d[1] != 0, 'Lt': d[1] < 0, 'Le': d[1] <= 0}[op]
                    return num(({}, int(r)))
                if sign_ge1(d) is True:            # a > b for all widths
                    return num(({}, int({'Eq': False, 'Ne': True, 'Lt': False, 'Le': False}[op])))
                if sign_ge1(scale(d, -1)) is True:   # a < b
                    return num(({}, int({'Eq': False, 'Ne': True, 'Lt': True, 'Le': True}[op])))
            if ca and cb:
                if ca[0] == 'exact' and cb[0] == 'exact':
                    x, y = ca[1], cb[1]
                    return num(({}, int({'Eq': x == y, 'Ne': x != y, 'Lt': x < y, 'Le': x <= y}[op])))
                if ca[0] == 'ge2' and cb[0] == 'exact' and cb[1] <= 1:
                    return num(({}, int({'Eq': False, 'Ne': True, 'Lt': False, 'Le': False}[op])))
                if cb[0] == 'ge2' and ca[0] == 'exact' and ca[1] <= 1:
                    return num(({}, int({'Eq': False, 'Ne': True, 'Lt': True, 'Le': True}[op])))
            raise _Unknown('comparison not decided')
    raise _Unknown('term ' + sym.show(t)[:50])


def check_binary_alignment(ctx, F):
    """into_binary() accepts every remainders head that from_binary() can have produced.

    from_binary seeds the head with the marker 1 and shifts whole words in (checked by the marker rule), so after k words the
    head has bit length 1 + k*W, for every k from 0 to State::BITS/Word::BITS - 1.  The refusing exits of into_binary are
    evaluated over that family (k = 0, 1, 2, 3) in a small abstract domain (exact affine numbers / values of known bit
    length): no refusing exit may be taken, provided the coder is whole (the compressed head is 1)."""
    key = 'R6/binary-alignment/' + CHAIN
    role = 'into_binary accepts every head from_binary can produce (marker above k whole words, any k)'
    exp = method_of(F, 'into_binary')
    if exp is None:
        return ctx.unresolved('R6', role, CHAIN, 'into_binary not found', key=key)
    ev, paths = rules.evaluate(exp)
    ctx.touch(exp)
    refusing = [r for r in paths or [] if r.end == 'return' and r.ret is not None and r.ret[0] == 'agg' and r.ret[1][-1] == 'Err' and not any(e['kind'] == 'call' and e.get('uid') is not None for e in r.events)]
    if not refusing:
        return ctx.unresolved('R6', role, exp.defpath, 'no refusing exit found', key=key)
    unknown = None
    for k in (0, 1, 2, 3):
        for r in refusing:
            taken = True
            for t, v, _ in r.preds:
                try:
                    val = _eval_bitlen(t, k)
                except _Unknown as u:
                    unknown = str(u)
                    taken = None
                    break
                if not (val[0] == 'num' and not val[1][0]):
                    unknown = 'predicate value not constant'
                    taken = None
                    break
                if bool(val[1][1]) != bool(v):
                    taken = False
                    break
            if taken:
                return ctx.bad('R6', role, exp.defpath, 'with %d whole word(s) above the marker (bit length of the head 1 + %d*Word::BITS) into_binary takes a refusing exit (%s): data imported with from_binary and re-encoded correctly is rejected for this head size '
                               '(e.g. State wider than two Words, or PRECISION == Word::BITS)' % (k, k, '; '.join('%s = %s' % (sym.show(t)[:70], v) for t, v, _ in r.preds[-2:])), key=key, loc=rules.loc(exp))
    if unknown:
        return ctx.unresolved('R6', role, exp.defpath, 'a refusing exit could not be evaluated over the bit-length model: ' + unknown, key=key)
    return ctx.ok('R6', role, exp.defpath, '%d refusing exit(s) evaluated for heads with 0..3 whole words above the marker: none is taken when the coder is whole' % len(refusing), key=key)


def method_of(F, name):
    out = [b for b in F.bodies if b.promoted is None and b.name == name and b.self_adt == CHAIN and b.dk == 'AssocFn' and b.impl_trait is None]
    return out[0] if out else None


def check_refused_export_untouched(ctx, F):
    """A consuming export that refuses (`Err(CoderError::Frontend(self))`: the coder does not hold whole words, the head is not
    aligned) hands the coder back so that the caller can carry on with it.  It must hand back the coder *as it was*: the
    refusal is decided before the first word is moved, and nothing has been written through `self` on that exit."""
    n = 0
    for b in F.bodies:
        if b.promoted is not None or b.self_adt != CHAIN or b.dk != 'AssocFn' or '::tests::' in b.defpath or b.vis != 'pub' or b.receiver_kind() not in ('self', 'mut self'):
            continue
        ev, paths = rules.evaluate(b)
        if not paths:
            continue
        key = 'R1/refused-export-untouched/' + b.defpath
        role = 'a refused export hands the coder back as it was'
        exits = []
        for r in paths:
            if r.end != 'return' or r.ret is None or rules.ret_shape(r.ret)[0] != 'Err':
                continue
            fr = [x for x in sym.subterms(r.ret) if isinstance(x, tuple) and x and x[0] == 'agg' and isinstance(x[1], tuple) and x[1][0] == 'adt' and x[1][2] == 'Frontend' and x[2]]
            if not fr:
                continue
            payload = fr[0][2][0]
            if not sym.contains(payload, lambda x: x == ('arg', 1) or (isinstance(x, tuple) and x and x[0] in ('in', 'loop', 'post') and ((x[0] == 'in' and x[1][0] == 1) or (x[0] != 'in' and x[2][0] == 1)))):
                continue        # the error does not carry the coder
            dirty = [e for e in r.events if (e['kind'] == 'write' and e['path'][0] == 1) or (e['kind'] == 'call' and e.get('uid') is not None and any(p and p[0] == 1 for p in e['mut_paths']))]
            changed = payload != ('arg', 1) and payload != ('in', (1,))
            exits.append((dirty, changed, payload))
        if not exits:
            continue
        n += 1
        ctx.touch(b)
        bad = [x for x in exits if x[0] or x[1]]
        if bad:
            d, ch, pl = bad[0]
            what = (('after ' + (d[0]['callee'].split('::')[-1] if d[0]['kind'] == 'call' else 'an assignment to ' + sym.path_str(d[0]['path']))) if d else 'as %s' % sym.show(pl)[:60])
            ctx.bad('R1', role, b.defpath, 'a refusing exit hands the coder back %s: words of the remainders head have already been moved to the other backend, so a caller that carries on decoding with the returned coder cuts later chunks from the wrong words' % what, key=key, loc=rules.loc(b))
        else:
            ctx.ok('R1', role, b.defpath, '%d refusing exit(s) return the untouched `self`' % len(exits), key=key)
    ctx.extra['consuming_exports_that_can_refuse'] = n


def _const_at3(t, S, W, P):
    """value of a term over State::BITS, Word::BITS and PRECISION (None if it mentions anything else)."""
    import props.C18 as c18
    t = c18.peel(t)
    if sym.is_int(t):
        return t[1]
    if not isinstance(t, tuple) or not t:
        return None
    if t[0] in ('c', 'cparam'):
        nm = str(t[1])
        if 'State' in nm and 'BITS' in nm:
            return S
        if 'Word' in nm and 'BITS' in nm:
            return W
        if nm.endswith('PRECISION'):
            return P
        return None
    if t[0] == 'cast':
        return _const_at3(t[2], S, W, P)
    if t[0] == 'bin':
        x, y = _const_at3(t[2], S, W, P), _const_at3(t[3], S, W, P)
        if x is None or y is None:
            return None
        op = t[1].split('.')[0]
        return {'Add': x + y, 'Sub': x - y, 'Mul': x * y}.get(op, (x // y) if op == 'Div' and y else None)
    return None


def check_heads_ctor_fill(ctx, F):
    """The constructor of the heads fills the remainders head until it reaches its lower bound 2^(S - W - PRECISION), one word at
    a time: every loop that reads words into the head is controlled by that threshold test (as the refill in the coding steps
    is).  A loop that reads a *precomputed number* of words instead is evaluated over the admitted configurations: starting
    from the marker bit, 1 + n * Word::BITS bits must stay below the upper bound State::BITS - PRECISION of the head."""
    from vlib import effects
    AGG_HEADS = 'stream::chain::ChainCoderHeads'
    key = 'R6/heads-ctor-fill/' + AGG_HEADS
    role = 'the head constructor reads words under the threshold test only'
    bs = [b for b in F.bodies if b.promoted is None and b.name == 'new' and b.self_adt == AGG_HEADS and b.dk == 'AssocFn']
    if not bs:
        return ctx.unresolved('R6', role, AGG_HEADS, 'constructor not found', key=key)
    b = bs[0]
    ctx.touch(b)
    ev, paths = rules.evaluate(b)
    if not paths:
        return ctx.unresolved('R6', role, b.defpath, 'not evaluated', key=key)
    is_read = lambda e: e['kind'] == 'call' and e['callee'].endswith('ReadWords::read')
    reading = {}      # loop head -> threshold-controlled?
    for r in paths:
        if r.end != 'backedge':
            continue
        les = [(i, e) for i, e in enumerate(r.events) if e['kind'] == 'loop_enter']
        if not les:
            continue
        i0, le = les[-1]
        if not any(is_read(e) for e in r.events[i0:]):
            continue
        thr = False
        for t, v, _ in r.preds:
            c = pow2.below_pow2(t, v, lambda x: pow2.bits_of('State'))
            if c is not None and c[2] and isinstance(c[0], tuple) and c[0] and c[0][0] == 'loop' and c[0][1] == le['head']:
                thr = True
        reading[le['head']] = reading.get(le['head'], True) and thr
    if not reading:
        return ctx.unresolved('R6', role, b.defpath, 'no loop reads words', key=key)
    counted = [h for h, ok in reading.items() if not ok]
    if not counted:
        return ctx.ok('R6', role, b.defpath, '%d reading loop(s), each iteration under `head < 2^E`' % len(reading), key=key)
    # counted loops: evaluate the trip count over the admitted configurations
    trips = {}
    for r in paths:
        for e in r.events:
            if e['kind'] == 'loop_enter' and e['head'] in counted:
                for pth, v in e['pre'].items():
                    if v[0] == 'call' and 'into_iter' in v[1]:
                        try:
                            trips[e['head']] = effects.IterModel(r).length(v)
                        except Exception:
                            trips[e['head']] = None
    for h in counted:
        T = trips.get(h)
        if T is None:
            return ctx.unresolved('R6', role, b.defpath, 'a loop reads words into the head without the threshold test and its trip count is not recognised', key=key)
        for W in (8, 16, 32, 64):
            for S in (2 * W, 4 * W, 8 * W):
                if S > 128:
                    continue
                for P in sorted({1, W // 2, W - 1, W}):
                    if S < W + P:
                        continue
                    n = _const_at3(T, S, W, P)
                    if n is None:
                        return ctx.unresolved('R6', role, b.defpath, 'the trip count %s is not a function of the type parameters' % sym.show(T)[:60], key=key)
                    if 1 + max(n, 0) * W > S - P:
                        return ctx.bad('R6', role, b.defpath, 'a loop reads a precomputed number of words (%s) on top of the marker bit: for Word = %d, State = %d, PRECISION = %d that is %d word(s), i.e. %d bits, more than the head may hold (State::BITS - PRECISION = %d): one word too many is swallowed, every later chunk is shifted by a word and the coder runs out of data early' % (
                            sym.show(T)[:60], W, S, P, n, 1 + n * W, S - P), key=key, loc=rules.loc(b))
    ctx.ok('R6', role, b.defpath, 'counted reading loop(s) stay below the upper bound of the head in every admitted configuration', key=key)


def check_heads_ctor_initial_nonzero(ctx, F):
    """The remainders head enters the fill loop of the head constructor with a set bit: the marker bit (raw binary data) or
    the top word of the imported data, decided `!= 0` on the word itself.  A head that starts from zero absorbs the zero
    words the data ends in: `from_compressed` then accepts data that the exporter can never produce, and the way back
    loses those words."""
    import props.C04 as c04
    AGG_HEADS = 'stream::chain::ChainCoderHeads'
    key = 'R6/heads-ctor-initial-nonzero/' + AGG_HEADS
    role = 'the head enters the fill loop non-zero (marker bit or a top word decided != 0)'
    bs = [b for b in F.bodies if b.promoted is None and b.name == 'new' and b.self_adt == AGG_HEADS and b.dk == 'AssocFn']
    if not bs:
        return ctx.unresolved('R6', role, AGG_HEADS, 'constructor not found', key=key)
    b = bs[0]
    ev, paths = rules.evaluate(b)
    n_marker = n_word = 0
    for r in paths or []:
        if not (r.end == 'backedge' or (r.end == 'return' and r.ret is not None and rules.ret_shape(r.ret)[0] == 'Ok')):
            continue
        les = [e for e in r.events if e['kind'] == 'loop_enter']
        if not les:
            continue
        le = les[0]
        heads = set()
        for t, v, _ in r.preds:
            c = pow2.below_pow2(t, v, lambda x: pow2.bits_of('State'))
            if c is not None and isinstance(c[0], tuple) and c[0] and c[0][0] == 'loop' and c[0][1] == le['head']:
                heads.add(tuple(c[0][2]) if isinstance(c[0][2], (list, tuple)) else c[0][2])
        if len(heads) != 1:
            return ctx.unresolved('R6', role, b.defpath, 'the loop variable under the threshold test is not identified', key=key)
        init = le['pre'].get(next(iter(heads)))
        if init is None:
            return ctx.unresolved('R6', role, b.defpath, 'initial value of the head not recorded', key=key)
        init = effects_strip(init)
        if init == ('call', 'num_traits::One::one', ()) or (init[0] == 'k' and init[1] == 'one'):
            n_marker += 1
            continue
        if init[0] == 'k' and init[1] == 'zero' or (init[0] == 'call' and init[1].endswith('Zero::zero')) or init == ('int', 0):
            return ctx.bad('R6', role, b.defpath, 'on one path the head enters the fill loop as zero: leading zero words of the data are absorbed, data ending in a zero word is accepted and re-exporting drops those words', key=key, loc=rules.loc(b))
        w, got, nonzero = c04.top_word_decision(r)
        if w is not None and sym.contains(init, lambda x, w0=effects_strip(w): x == w0) and not sym.contains(init, lambda x: isinstance(x, tuple) and x and x[0] == 'bin'):
            if not nonzero:
                return ctx.bad('R6', role, b.defpath, 'the head starts from the first word of the data without the decision that the word is non-zero', key=key, loc=rules.loc(b))
            n_word += 1
            continue
        return ctx.unresolved('R6', role, b.defpath, 'initial head `%s` is neither the marker bit nor the first word read' % sym.show(init)[:60], key=key)
    if n_marker + n_word == 0:
        return ctx.unresolved('R6', role, b.defpath, 'no path enters a fill loop', key=key)
    ctx.ok('R6', role, b.defpath, '%d path(s) start from the marker bit, %d from a top word decided != 0' % (n_marker, n_word), key=key)


def effects_strip(t):
    from vlib import effects
    return effects.strip_uid(t)


def check_remainders_import_refusals(ctx, F):
    """`from_remainders` refuses (Frontend error) only what `into_remainders` cannot have produced: a word that is absent, or
    a head word that is zero.  A refusing path on which every word asked for was there and non-zero turns down remainders
    that came right out of the exporter (the heads are carried over unchanged by the precision changers, so no value of
    PRECISION narrows what they may hold)."""
    key = 'R6/remainders-import-refusals/' + CHAIN
    role = 'from_remainders refuses only absent or zero words'
    bs = [b for b in F.bodies if b.promoted is None and b.name == 'from_remainders' and b.self_adt == CHAIN and b.dk == 'AssocFn']
    if not bs:
        return ctx.unresolved('R6', role, CHAIN, 'from_remainders not found', key=key)
    b = bs[0]
    ctx.touch(b)
    ev, paths = rules.evaluate(b)
    if not paths:
        return ctx.unresolved('R6', role, b.defpath, 'not evaluated', key=key)
    is_read = lambda x: isinstance(x, tuple) and x and x[0] == 'call' and str(x[1]).endswith('ReadWords::read')
    n = 0
    for r in paths:
        if r.end != 'return' or r.ret is None:
            continue
        sh = rules.ret_shape(r.ret)
        if sh[0] != 'Err' or not sym.contains(r.ret, lambda x: isinstance(x, tuple) and x and x[0] == 'agg' and isinstance(x[1], tuple) and x[1][0] == 'adt' and x[1][2] == 'Frontend'):
            continue
        n += 1
        excuse = False
        for t, v, _ in r.preds:
            if t[0] == 'discr' and sym.contains(t[1], is_read):
                dv = sym.discr_variant(t, v)
                if dv in ('None', 'Break', 'Err'):
                    excuse = True
            if t[0] == 'bin' and t[1] in ('Eq', 'Ne'):
                for a, c in ((t[2], t[3]), (t[3], t[2])):
                    if a[0] == 'k' and a[1] == 'zero' and sym.contains(c, is_read) and not sym.contains(c, lambda x: isinstance(x, tuple) and x and x[0] == 'bin'):
                        if (t[1] == 'Eq' and v) or (t[1] == 'Ne' and not v):
                            excuse = True
            if t[0] == 'call' and str(t[1]).endswith('is_zero') and v and sym.contains(t, is_read):
                excuse = True
        if not excuse:
            extra = [sym.show(t)[:70] for t, v, _ in r.preds if not sym.contains(t, is_read) or (t[0] == 'bin' and not any(x[0] == 'k' for x in (t[2], t[3])))]
            return ctx.bad('R6', role, b.defpath, 'a refusing path on which every word asked for is present and non-zero (decided on %s): remainders that came out of into_remainders are turned down' % (extra[:2] or 'other grounds'), key=key, loc=rules.loc(b))
    if not n:
        return ctx.unresolved('R6', role, b.defpath, 'no refusing path found', key=key)
    ctx.ok('R6', role, b.defpath, '%d refusing path(s), each with an absent or zero word' % n, key=key)


def check_no_stale_heads(ctx, F):
    """A function that consumes a chain coder and hands back a coder (the precision changers, the conversions) builds the
    result from the coder *as it is at that point*: when a `&mut self` helper ran on the way (a refill or a flush of the
    remainders head pops or pushes a word and rewrites the head), no part of the returned value may be a copy of `self`
    taken before that call.  Otherwise the word moved by the helper is lost and the head bound it restored is undone."""
    n = 0
    for b in F.bodies:
        if b.promoted is not None or b.self_adt != CHAIN or b.dk != 'AssocFn' or '::tests::' in b.defpath or b.receiver_kind() not in ('self', 'mut self'):
            continue
        ev, paths = rules.evaluate(b)
        if not paths:
            continue
        key = 'R1/no-stale-heads/' + b.defpath
        role = 'the returned coder is built from the state after the last helper call'
        bad = None
        seen = False
        for r in paths:
            if r.end != 'return' or r.ret is None:
                continue
            muts = [e for e in r.events if e['kind'] == 'call' and e.get('uid') is not None and any(p == (1,) or p[:2] == (1, ('f', 'heads')) for p in e['mut_paths'])]
            if not muts:
                continue
            lits = [x for x in sym.subterms(r.ret) if isinstance(x, tuple) and x and x[0] == 'agg' and isinstance(x[1], tuple) and x[1][0] == 'adt' and x[1][1] in (CHAIN, 'stream::chain::ChainCoderHeads')]
            if not lits:
                continue
            seen = True
            stale = [x for l in lits for x in sym.subterms(l) if isinstance(x, tuple) and x and x[0] == 'in' and x[1][0] == 1 and ('f', 'heads') in x[1]]
            if stale:
                bad = 'after %s ran, the returned coder still contains %s - the value from before the call: the word the helper moved is lost and the head is back below its bound' % (
                    muts[-1]['callee'].split('::')[-1], sym.path_str(stale[0][1]))
        if not seen:
            continue
        n += 1
        ctx.touch(b)
        if bad:
            ctx.bad('R1', role, b.defpath, bad, key=key, loc=rules.loc(b))
        else:
            ctx.ok('R1', role, b.defpath, 'every part of the result that comes from `self` is read after the last mutating helper', key=key)
    ctx.extra['consuming_functions_with_helper_calls'] = n


def check_chain_export_not_truncated(ctx, F):
    """The truncating chunker (the function AnsCoder::into_compressed turns its state into words with) drops the zero words at
    the top of its argument.  That is lossless only for a value whose top set bit is a marker that the importer puts back; a
    head with the marker removed, or any other derived value, loses the zero words below the marker (ANS: F13).  Every use of
    it inside the chain coder therefore gets a head itself."""
    from vlib import anchors
    chunker = anchors.state_chunker(F)
    key = 'R4/chain-export-not-truncated'
    role = 'the truncating chunker is only applied to a head with its marker bit'
    if chunker is None:
        return ctx.unresolved('R4', role, CHAIN, 'the chunker of the ANS coder could not be resolved', key=key)
    n = 0
    bad = None
    for b in F.bodies:
        if b.promoted is not None or '::tests' in b.defpath or b.dk not in ('Fn', 'AssocFn') or not (b.file or '').endswith('stream/chain.rs'):
            continue
        if not any((callee(t) or {}).get('def') == chunker.defpath for _, t in b.calls()):
            continue
        ctx.touch(b)
        try:
            _, paths = rules.evaluate(b)
        except sym.TooManyPaths:
            return ctx.unresolved('R4', role, b.defpath, 'too many paths', key=key)
        for r in paths or []:
            for e in r.events:
                if e['kind'] == 'call' and e['callee'] == chunker.defpath:
                    n += 1
                    a = e['args'][0]
                    if not (a[0] == 'in' and ('f', 'heads') in a[1] and a[1][-1] in (('f', 'remainders'), ('f', 'compressed'))):
                        bad = bad or (b, '%s chunks `%s` instead of a head itself: zero words directly below the marker are dropped at %s, so binary data that ends in zero words comes back shorter' % (b.name, sym.show(a)[:100], e['span'].split('-')[0]))
    if bad:
        ctx.bad('R4', role, bad[0].defpath, bad[1], key=key, loc=rules.loc(bad[0]))
    else:
        ctx.ok('R4', role, CHAIN, '%d use(s) of %s in the chain coder%s' % (n, chunker.name, '' if n else ' (its exporters move their heads word by word)'), key=key)


def run(ctx):
    F = ctx.F
    check_out_of_data(ctx, F)
    import props.C08 as c08
    c08.check_clone_complete(ctx, F, CHAIN)      # a snapshot (clone / clone_from) carries the heads as well as the two backends
    check_no_stale_heads(ctx, F)
    check_heads_ctor_fill(ctx, F)
    check_heads_ctor_initial_nonzero(ctx, F)
    check_remainders_import_refusals(ctx, F)
    check_refused_export_untouched(ctx, F)
    check_chain_export_not_truncated(ctx, F)
    check_precision_changers(ctx, F)
    check_heads_closed(ctx, F)
    check_marker_sentinel(ctx, F)
    check_binary_alignment(ctx, F)
    import props.C04 as c04
    c04.check_top_word_nonzero(ctx, F, method_of(F, 'from_compressed'), CHAIN + '::from_compressed', 'into_compressed')
    check_head_guards(ctx, F)
    check_flush_threshold(ctx, F)
    if ctx.tier == 'thorough':
        from vlib import witness
        witness.run(ctx, 'C13')
    ctx.assume('generic_static_asserts! labels are associated consts whose body is one comparison over const generics; a failing one aborts monomorphisation (witnessed in the thorough tier)')
    return {
        'level': 'other',
        'explanation': 'Error-discipline rule over every path of the chain coder\'s reading functions (decode_symbol, refill_remainders_head, ChainCoderHeads::new, from_remainders, ...): a path that continues '
                       'after a backend read carries the Some/Continue decision of that read, so exhaustion can only surface as Err. Const-generic entailment: the static assertions of the dedicated safe '
                       'wrappers are the reference preconditions of the two unsafe precision changers; change_precision entails them on each side of its branch (identity or difference-bound closure). '
                       'Inventory: ChainCoderHeads is private and built only by known routines. Not decided: that decode followed by encode restores the words exactly (thresholds, arithmetic).',
        'trusted_base': ['rustc type checker + MIR construction (assoc-const bodies via mir_for_ctfe)', 'cfacts extractor'],
    }
