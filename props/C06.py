"""C06 — the bit streams conform to the specified rANS / range-coding format (claimed: the format *constants* only).

The statement compares the emitted words with an independent reference implementation.  That equality is value-level and
is NOT decided.  But the published format fixes a handful of constants, and each of them is visible in the code as a
threshold, a shift amount or an initial value.  Because they are fixed by the *format* (not by today's source), they can
be checked as absolute values - which is what makes a change visible that alters encoder and decoder consistently, the
case no sibling-agreement rule can see.  Every constant is read in canonical form (`x >> k == 0`, `x < 1 << k`,
`leading_zeros(x) >= w`, ... are one predicate `x < 2^E`; shift amounts are affine forms over the symbolic widths), so an
equivalent respelling is not reported; a shape that is not understood is unresolved, never a violation.

  K1  rANS normalisation: the decoder refills, and both import loops fill, exactly while  state < 2^(State::BITS - Word::BITS).
  K2  rANS flush: the encoder emits a word exactly when  probability <= state >> (State::BITS - PRECISION)  (the largest
      state from which the update still fits).
  K3  rANS update uses PRECISION-bit fixed point on both sides: encode shifts the quotient left by PRECISION, decode shifts
      right by PRECISION and takes the quantile modulo 2^PRECISION.
  K4  range coder: renormalisation restores  range >= 2^(State::BITS - Word::BITS)  in encoder and decoder; the scale is
      range >> PRECISION on both sides; words leave/enter at bit State::BITS - Word::BITS.
  K5  range coder sealing: addend 2^(State::BITS - Word::BITS) - 1, second word zero (shared with C11).
  K6  initial states: an empty ANS coder has state 0 (exports nothing); a fresh range coder has lower = 0 and range = MAX.
  K7  word order of the ANS export: chunks of the state least significant first, leading zero words dropped (shared with C04).
"""
from vlib import sym, rules, anchors, pow2
import props.C02 as c02
import props.C04 as c04
import props.C11 as c11
import props.C18 as c18

ANS = anchors.ANS
RENC = anchors.RENC
RDEC = anchors.RDEC
STATE = (1, 'deref', ('f', 'state'))

SB = pow2.bits_of('State')
WB = pow2.bits_of('Word')
S_MINUS_W = pow2._exp_add(SB, WB, -1)


def _is_precision(e):
    return e is not None and sym.affine_str(e) == 'PRECISION'


def _exp_is(e, want):
    return e is not None and pow2.exp_cmp(e, want) == 0


def check_ans_normalisation(ctx, F):
    key = 'R10/format/ans-normalisation-threshold'
    role = 'rANS normalisation interval starts at 2^(State::BITS - Word::BITS)'
    dec = anchors.method(F, ANS, 'decode_symbol', 'stream::Decode')
    fb, ri = anchors.ans_import_loops(F)
    if dec is None or fb is None or ri is None:
        return ctx.bad('R10', role, ANS, 'decode_symbol / from_binary / read_initial_state not found', key=key)
    want = pow2.P2([(S_MINUS_W, 1)]).show()
    got = {}
    for name, b in (('decode_symbol', dec), ('from_binary', fb), ('read_initial_state', ri)):
        ctx.touch(b)
        got[name] = c04.threshold_predicates(F, b)
    if any(not g for g in got.values()):
        return ctx.unresolved('R10', role, ANS, 'threshold test not recognised in %s' % sorted(k for k, g in got.items() if not g), key=key)
    wrong = {k: sorted(g) for k, g in got.items() if g != {('state < T', want)}}
    if wrong:
        return ctx.bad('R10', role, ANS, 'the format refills/fills while state < %s; found %s - also a change made consistently in all three places alters every compressed stream' % (want, wrong), key=key, loc=rules.loc(dec))
    return ctx.ok('R10', role, ANS, 'decode_symbol, from_binary and read_initial_state all test state < %s' % want, key=key)


def check_ans_flush(ctx, F):
    key = 'R10/format/ans-flush-threshold'
    role = 'rANS encoder flushes exactly when probability <= state >> (State::BITS - PRECISION)'
    enc = anchors.method(F, ANS, 'encode_symbol', 'stream::Encode')
    if enc is None:
        return ctx.bad('R10', role, ANS, 'encode_symbol not found', key=key)
    ctx.touch(enc)
    _, paths = rules.evaluate(enc)
    found = []
    unk = None
    for r in paths or []:
        # the test that decides whether a word is written
        wrote = any(e['kind'] == 'call' and e['callee'].endswith('WriteWords::write') for e in r.events)
        for t, v, _ in r.preds:
            if isinstance(v, tuple) or not (isinstance(t, tuple) and t and t[0] == 'bin' and t[1].split('.')[0] in ('Le', 'Lt', 'Ge', 'Gt')):
                continue
            if not sym.contains(t, lambda x: x == ('in', STATE)):
                continue
            op = t[1].split('.')[0]
            a, b = t[2], t[3]
            if op in ('Ge', 'Gt'):
                a, b = b, a
                op = {'Ge': 'Le', 'Gt': 'Lt'}[op]
            # canonical: prob <= state >> e   (true => flush)
            if isinstance(b, tuple) and b[0] == 'bin' and b[1] == 'Shr' and b[2] == ('in', STATE) and not sym.contains(a, lambda x: x == ('in', STATE)):
                e = pow2.width_exp(b[3])
                found.append((op, e, bool(v), wrote))
            elif isinstance(a, tuple) and a[0] == 'bin' and a[1] == 'Shr' and a[2] == ('in', STATE) and not sym.contains(b, lambda x: x == ('in', STATE)):
                # state >> e < prob   (true => no flush): same test negated
                e = pow2.width_exp(a[3])
                found.append(({'Lt': 'Le', 'Le': 'Lt'}[op], e, not bool(v), wrote))
            else:
                unk = 'flush test %s is not of the form probability <= state >> k' % sym.show(t)[:100]
    if not found:
        return ctx.unresolved('R10', role, enc.defpath, unk or 'no comparison of the state with the probability found', key=key)
    want_e = pow2._exp_add(SB, ({sym.tkey(('c', 'PRECISION')): (1, ('c', 'PRECISION'))}, 0), -1)
    for op, e, holds, wrote in found:
        if e is None:
            return ctx.unresolved('R10', role, enc.defpath, 'shift amount of the flush test is not an affine form of the widths', key=key)
        if sym.affine_str(e) != sym.affine_str(want_e) or op != 'Le':
            return ctx.bad('R10', role, enc.defpath, 'the flush test is probability %s state >> (%s); the format flushes when probability <= state >> (%s): words are emitted at other states than the reference encoder emits them' % (
                '<=' if op == 'Le' else '<', sym.affine_str(e), sym.affine_str(want_e)), key=key, loc=rules.loc(enc))
        if holds != wrote:
            return ctx.bad('R10', role, enc.defpath, 'a word is written on the outcome where the test says the update still fits (or not written where it does not)', key=key, loc=rules.loc(enc))
    return ctx.ok('R10', role, enc.defpath, 'flush iff probability <= state >> (%s) on %d path(s)' % (sym.affine_str(want_e), len(found)), key=key)


def check_ans_fixed_point(ctx, F):
    key = 'R10/format/ans-precision-shifts'
    role = 'both rANS steps use PRECISION-bit fixed point'
    enc = anchors.method(F, ANS, 'encode_symbol', 'stream::Encode')
    dec = anchors.method(F, ANS, 'decode_symbol', 'stream::Decode')
    if enc is None or dec is None:
        return ctx.bad('R10', role, ANS, 'encode_symbol / decode_symbol not found', key=key)
    eve, pe = rules.evaluate(enc)
    evd, pd = rules.evaluate(dec)
    shl, shr, mod = set(), set(), set()
    for r in pe or []:
        if r.end != 'return' or rules.ret_shape(r.ret)[0] != 'Ok':
            continue
        t = eve.final_read(r, STATE)
        for x in sym.subterms(t):
            if isinstance(x, tuple) and x and x[0] == 'bin' and x[1] == 'Shl' and sym.contains(x[2], lambda y: isinstance(y, tuple) and y and y[0] == 'bin' and y[1].split('.')[0] == 'Div'):
                e = pow2.width_exp(x[3])
                shl.add(sym.affine_str(e) if e else '?')
    for r in pd or []:
        if r.end != 'return' or rules.ret_shape(r.ret)[0] != 'Ok':
            continue
        t = evd.final_read(r, STATE)
        for x in sym.subterms(t):
            if not (isinstance(x, tuple) and x and x[0] == 'bin'):
                continue
            if x[1] == 'Shr' and x[2] == ('in', STATE):
                e = pow2.width_exp(x[3])
                shr.add(sym.affine_str(e) if e else '?')
            if x[1].split('.')[0] == 'Rem' and x[2] == ('in', STATE):
                m = pow2.p2(x[3])
                mm = m.monomial() if m is not None else None
                mod.add(sym.affine_str(mm[1]) if mm and mm[0] == 1 else '?')
            if x[1].split('.')[0] == 'BitAnd' and ('in', STATE) in (x[2], x[3]):
                o = x[3] if x[2] == ('in', STATE) else x[2]
                m = pow2.p2(o)
                ao = pow2.all_ones(m) if m is not None else None
                mod.add(sym.affine_str(ao) if ao is not None else '?')
    # the divisor of the update is the symbol's probability itself
    def plain_probability(t):
        """'plain' if t is the model's probability up to conversions, 'derived' if it is computed from it, None otherwise."""
        is_model = lambda x: isinstance(x, tuple) and x and x[0] == 'call' and ('EncoderModel::' in str(x[1]) or 'DecoderModel::' in str(x[1]))
        if not sym.contains(t, is_model):
            return None
        u = t
        while isinstance(u, tuple) and u:
            if u[0] in ('cast',):
                u = u[2]
            elif u[0] == 'unwrap':
                u = u[1]
            elif u[0] in ('proj', 'payload'):
                u = u[1]
            elif u[0] == 'call' and isinstance(u[1], str) and u[1].endswith(('::get', '::into', '::ok_or_else', '::ok_or', '::unwrap', '::expect', 'NonZeroBitArray::get')) and u[2]:
                u = u[2][0]
            else:
                break
        return 'plain' if is_model(u) else 'derived'
    divisors = set()
    for r in pe or []:
        if r.end != 'return' or rules.ret_shape(r.ret)[0] != 'Ok':
            continue
        t = eve.final_read(r, STATE)
        for x in sym.subterms(t):
            if isinstance(x, tuple) and x and x[0] == 'bin' and x[1].split('.')[0] in ('Div', 'Rem') and x[2] == ('in', STATE) or (isinstance(x, tuple) and x and x[0] == 'bin' and x[1].split('.')[0] in ('Div', 'Rem') and isinstance(x[2], tuple) and x[2][:2] == ('bin', 'Shr') and x[2][2] == ('in', STATE)):
                divisors.add(('encode', plain_probability(x[3]), sym.show(x[3])[:70]))
    for r in pd or []:
        if r.end != 'return' or rules.ret_shape(r.ret)[0] != 'Ok':
            continue
        t = evd.final_read(r, STATE)
        for x in sym.subterms(t):
            if isinstance(x, tuple) and x and x[0] == 'bin' and x[1].split('.')[0] == 'Mul':
                for a, b2 in ((x[2], x[3]), (x[3], x[2])):
                    if isinstance(a, tuple) and a[:2] == ('bin', 'Shr') and a[2] == ('in', STATE):
                        divisors.add(('decode', plain_probability(b2), sym.show(b2)[:70]))
    derived = sorted(d for d in divisors if d[1] == 'derived')
    if derived:
        return ctx.bad('R10', role, ANS, 'the %s step scales the state by %s, a value computed from the symbol\'s probability rather than the probability itself: the format divides (multiplies) by the probability; a mirrored change of both steps still alters every stream and wastes the difference' % (derived[0][0], derived[0][2]), key=key, loc=rules.loc(enc))
    if not shl or not shr or not mod:
        return ctx.unresolved('R10', role, ANS, 'fixed-point operations not recognised (encode << %s, decode >> %s, quantile modulus %s)' % (sorted(shl), sorted(shr), sorted(mod)), key=key)
    if '?' in shl | shr | mod:
        return ctx.unresolved('R10', role, ANS, 'a shift amount is not an affine form of the widths', key=key)
    if shl == shr == mod == {'PRECISION'}:
        return ctx.ok('R10', role, ANS, 'encode: (state / p) << PRECISION; decode: state >> PRECISION and state mod 2^PRECISION', key=key)
    return ctx.bad('R10', role, ANS, 'encode shifts the quotient by %s, decode shifts by %s and reduces modulo 2^(%s); the format uses PRECISION in all three places' % (sorted(shl), sorted(shr), sorted(mod)), key=key, loc=rules.loc(enc))


def check_range_constants(ctx, F):
    key = 'R10/format/range-renormalisation'
    role = 'range coder keeps range >= 2^(State::BITS - Word::BITS), scales by range >> PRECISION, moves words at bit State::BITS - Word::BITS'
    enc = anchors.method(F, RENC, 'encode_symbol', 'stream::Encode')
    dec = anchors.method(F, RDEC, 'decode_symbol', 'stream::Decode')
    if enc is None or dec is None:
        return ctx.bad('R10', role, RENC, 'encode_symbol / decode_symbol not found', key=key)
    RANGE = (1, 'deref', ('f', 'state'), ('f', 'range'))
    LOWER = (1, 'deref', ('f', 'state'), ('f', 'lower'))
    problems, unknown = [], []
    for side, b in (('encoder', enc), ('decoder', dec)):
        ctx.touch(b)
        ev, paths = rules.evaluate(b)
        bounds, scales, outs = set(), set(), set()
        for r in paths or []:
            for t, v, _ in r.preds:
                c = pow2.below_pow2(t, v, lambda x: SB)
                if c is not None and sym.contains(c[0], lambda x: x == ('in', RANGE)) and 'BITS' in sym.affine_str(c[1]):
                    bounds.add(sym.affine_str(c[1]))
            terms = [e['value'] for e in r.events if e['kind'] == 'write'] + [a for e in r.events if e['kind'] == 'call' for a in e['args'] if isinstance(a, tuple)]
            for t in terms:
                for x in sym.subterms(t):
                    if isinstance(x, tuple) and x and x[0] == 'bin' and x[1] == 'Shr':
                        e = pow2.width_exp(x[3])
                        if x[2] == ('in', RANGE) or (isinstance(x[2], tuple) and x[2][0] == 'call' and str(x[2][1]).endswith('::get') and x[2][2] and x[2][2][0] == ('in', RANGE)):
                            scales.add(sym.affine_str(e) if e else '?')
            if side == 'encoder':
                # words handed to the sink (directly or via the held-back bookkeeping): casts of  <lower-derived> >> k
                for e_ in r.events:
                    cand = []
                    if e_['kind'] == 'call' and e_['callee'].endswith('WriteWords::write'):
                        cand = [e_['args'][1]]
                    elif e_['kind'] == 'write' and e_['path'][:3] == (1, 'deref', ('f', 'situation')):
                        cand = [e_['value']]
                    for t in cand:
                        for x in sym.subterms(t):
                            if isinstance(x, tuple) and x and x[0] == 'cast' and isinstance(x[2], tuple) and x[2] and x[2][0] == 'bin' and x[2][1] == 'Shr' \
                                    and sym.contains(x[2][2], lambda y: c18._is_field(y, 'state', 'lower')):
                                e = pow2.width_exp(x[2][3])
                                outs.add(sym.affine_str(e) if e else '?')
        want_b = sym.affine_str(S_MINUS_W)
        if not bounds:
            unknown.append('%s: renormalisation test not recognised' % side)
        elif bounds != {want_b}:
            problems.append('%s renormalises against 2^(%s)' % (side, sorted(bounds)))
        if not scales or '?' in scales:
            unknown.append('%s: scale shift not recognised' % side)
        elif scales != {'PRECISION'}:
            problems.append('%s computes the scale as range >> %s' % (side, sorted(scales)))
        if side == 'encoder':
            if not outs or '?' in outs:
                unknown.append('encoder: emitted word position not recognised')
            elif outs != {want_b}:
                problems.append('encoder emits the word at bit %s' % sorted(outs))
    if problems:
        return ctx.bad('R10', role, RENC, '; '.join(problems) + ' - the format uses 2^(State::BITS - Word::BITS), range >> PRECISION and bit State::BITS - Word::BITS; a consistent change of both sides still alters every stream', key=key, loc=rules.loc(enc))
    if unknown:
        return ctx.unresolved('R10', role, RENC, '; '.join(unknown), key=key)
    return ctx.ok('R10', role, RENC, 'both sides: bound 2^(%s), scale = range >> PRECISION; words leave at bit %s' % (sym.affine_str(S_MINUS_W), sym.affine_str(S_MINUS_W)), key=key)


def check_initial_states(ctx, F):
    key = 'R4/format/initial-states'
    role = 'a fresh range coder starts at lower = 0, range = MAX'
    sd = [b for b in F.bodies if b.promoted is None and b.name == 'default' and b.self_adt == 'stream::queue::RangeCoderState']
    if not sd:
        return ctx.bad('R4', role, RENC, 'RangeCoderState::default not found', key=key)
    ctx.touch(sd[0])
    _, pd = rules.evaluate(sd[0])
    rd = c18.only_return(pd)
    if rd is None or rd.ret[0] != 'agg' or not rd.ret[3]:
        return ctx.unresolved('R4', role, sd[0].defpath, 'default() is not a single literal', key=key)
    f = dict(zip(rd.ret[3], rd.ret[2]))
    lo, ra = c18.peel(f.get('lower')), c18.peel(f.get('range'))
    while isinstance(ra, tuple) and ra and ra[0] == 'call' and ra[2]:
        ra = c18.peel(ra[2][0])
    ok_lo = pow2._is_zero(lo)
    ok_ra = isinstance(ra, tuple) and ra[:2] == ('k', 'max_value')
    if ok_lo and ok_ra:
        return ctx.ok('R4', role, sd[0].defpath, 'lower = zero(), range = max_value()', key=key)
    return ctx.bad('R4', role, sd[0].defpath, 'a fresh coder starts at lower = %s, range = %s: every stream differs from the reference from the first word on' % (sym.show(f.get('lower'))[:40], sym.show(f.get('range'))[:60]), key=key, loc=rules.loc(sd[0]))


def run(ctx):
    F = ctx.F
    check_ans_normalisation(ctx, F)
    check_ans_flush(ctx, F)
    check_ans_fixed_point(ctx, F)
    check_range_constants(ctx, F)
    check_initial_states(ctx, F)
    c11.check_addend_exact(ctx, F)
    c11.check_second_word(ctx, F)
    c02.check_seal_point(ctx, F)
    c18.check_sentinels(ctx, F)          # the empty ANS coder has state 0 and exports nothing
    c04.check_same_source(ctx, F)        # chunks of the unmodified state, least significant word first
    import props.C12 as c12
    c12.check_width_conserved(ctx, F)    # the format's update: the new width is the old width scaled by the symbol's share, nothing else
    if ctx.tier == 'thorough':
        from vlib import witness
        witness.run(ctx, 'C06')          # the preset aliases keep their documented (Word, State, PRECISION): a const assertion the compiler evaluates
    ctx.assume('the constants are those of the published format: rANS with renormalisation interval [2^(S-W), 2^S), PRECISION-bit fixed point; carry-propagating range coder with range >= 2^(S-W), sealing point lower + 2^(S-W) - 1')
    return {
        'level': 'other',
        'explanation': 'Only the format constants are decided, as absolute values read from the code in canonical form (power-of-two polynomials / affine shift amounts over the symbolic widths): rANS refill/fill threshold 2^(S-W), '
                       'flush test probability <= state >> (S-PRECISION), PRECISION-bit shifts on both sides; range coder bound 2^(S-W), scale range >> PRECISION, word position S-W, sealing addend 2^(S-W)-1 with a zero second word, '
                       'initial states, least-significant-first export of the ANS state. Because the values come from the format and not from the sibling function, a change applied consistently to encoder and decoder is '
                       'reported too. Not decided: equality of the emitted words with a reference implementation (the update arithmetic beyond these constants), the published example vectors.',
        'trusted_base': ['rustc type checker + MIR construction', 'cfacts extractor'],
    }
