#!/usr/bin/env python3
"""seedmatrix.py [seed dir ...] | --benign [diff ...] : catch matrix of the confirmed seeded changes (default: /verif/seeded/*).

For each seed: `git -C /repo apply`, extract the facts once, run the rule instances of every claimed property in one
process (quick tier), `git -C /repo checkout -- .`.  Evidence and replays of these runs go to a scratch directory, never
to /verif/evidence.  Prints `<seed>: caught by [..]`.  (tools/seedtest does the same through the registered commands.)
"""
import glob
import importlib
import io
import json
import os
import subprocess
import sys
import contextlib
import tempfile
import time

HERE = os.path.dirname(os.path.dirname(os.path.abspath(__file__)))
LAST_UNRESOLVED = []
scratch = tempfile.mkdtemp(prefix='verif-seedmatrix-')
os.environ['VERIF_SCRATCH_OUT'] = scratch
sys.path.insert(0, HERE)


def run_all(claimed):
    """one fresh interpreter per seed (module-level caches are keyed by object identity)"""
    code = r"""
import importlib, io, contextlib, sys, time
sys.path.insert(0, %r)
from vlib import extract, facts, report, anchors, effects
p, info = extract.extract('default')
F = facts.Facts(p); F.info = info
ch = anchors.state_chunker(F)
if ch is not None: effects.CHUNK_SOURCES.add(ch.defpath)
caught = []
unres = []
for prop in %r:
    mod = importlib.import_module('props.' + prop)
    ctx = report.Ctx(prop, 'quick', {'default': F}, 0); ctx.replay = None
    buf = io.StringIO()
    try:
        with contextlib.redirect_stdout(buf):
            meta = mod.run(ctx)
            rc = report.finish(ctx, meta['level'], meta['explanation'], 'seedmatrix', meta['trusted_base'], time.time())
    except Exception as e:
        rc = 1; buf.write('checker error: %%r' %% (e,))
    if rc: caught.append(prop)
    unres += [prop + ':' + o.key for o in ctx.obs if o.status == 'unresolved']
print('UNRES ' + ' '.join(u.replace(' ', '_') for u in unres))
print('CAUGHT ' + ' '.join(caught))
""" % (HERE, claimed)
    out = subprocess.run([sys.executable, '-c', code], capture_output=True, text=True, cwd=HERE, env=os.environ)
    global LAST_UNRESOLVED
    LAST_UNRESOLVED = []
    for line in out.stdout.splitlines():
        if line.startswith('UNRES'):
            LAST_UNRESOLVED = line.split()[1:]
        if line.startswith('CAUGHT'):
            return line.split()[1:]
    return ['<extract/engine failure: %s>' % (out.stderr.strip().splitlines()[-1] if out.stderr.strip() else '?')]


def main():
    if subprocess.run(['git', '-C', '/repo', 'status', '--porcelain'], capture_output=True, text=True).stdout.strip():
        print('/repo has uncommitted changes; refusing')
        return 2
    claimed = [c['property_id'] for c in json.load(open(os.path.join(HERE, 'MANIFEST.json')))['checks']]
    args = sys.argv[1:]
    if args and args[0] == '--benign':
        # behaviour-preserving variants: every check must stay silent
        rc = 0
        for pf in [os.path.realpath(a) for a in args[1:]] or sorted(glob.glob(os.path.join(HERE, 'variants', 'benign', '*.diff'))):
            name = os.path.basename(pf)[:-5]
            if subprocess.run(['git', '-C', '/repo', 'apply', '--check', pf], capture_output=True).returncode:
                print('%s: patch no longer applies (skipped)' % name)
                continue
            subprocess.run(['git', '-C', '/repo', 'apply', pf], check=True)
            try:
                alarms = run_all(claimed)
            finally:
                subprocess.run(['git', '-C', '/repo', 'checkout', '--', '.'], check=True)
            grip = '' if not LAST_UNRESOLVED else '  (rule instances that lost their grip and became unresolved: %s)' % ' '.join(LAST_UNRESOLVED)
            print('%s: %s%s' % (name, 'silent' if not alarms else 'FALSE ALARM from [%s]' % ' '.join(alarms), grip), flush=True)
            rc = rc or bool(alarms)
        return int(rc)
    seeds = [os.path.realpath(a) for a in args] or sorted(glob.glob(os.path.join(HERE, 'seeded', '*')))
    base = run_all(claimed)
    if base:
        print('unchanged tree is not silent: %s - fix that first' % base)
        return 2
    for d in seeds:
        pf = os.path.join(d, 'patch.diff')
        if not os.path.exists(pf):
            continue
        name = os.path.basename(d)
        if subprocess.run(['git', '-C', '/repo', 'apply', '--check', pf], capture_output=True).returncode:
            print('%s: patch no longer applies (skipped)' % name)
            continue
        subprocess.run(['git', '-C', '/repo', 'apply', pf], check=True)
        try:
            caught = run_all(claimed)
        finally:
            subprocess.run(['git', '-C', '/repo', 'checkout', '--', '.'], check=True)
        print('%s: caught by [%s]' % (name, ' '.join(caught)), flush=True)
    return 0


if __name__ == '__main__':
    sys.exit(main())
