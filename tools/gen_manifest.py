#!/usr/bin/env python3
"""Regenerates /verif/MANIFEST.json from the claim table below (single source of truth)."""
import json
import os

VERIF = os.path.dirname(os.path.dirname(os.path.abspath(__file__)))
TRUST = "Trusted: rustc type checker + MIR construction (nightly 1.97), the cfacts extractor, Rust aliasing rules, tabulated std contracts (Vec/SmallVec/Fuse/ExactSizeIterator/iterator adapters). Generic parameters (backends, models) are opaque and assumed to honour safe trait contracts only."

CLAIMS = {
    'C17': dict(
        text="Decides, for all inputs and histories (induction over calls, every generic instantiation), the structural core of the backend contracts: Cursor invariant pos<=len(buf) established at every literal and preserved by every mutator; remaining()/space_left() = number of reads/writes that will succeed (E'=E-1 on success, E==0 on failure, failure writes nothing); write/read inverse cell; seek accepts exactly p<=len and pos() reports it; Reverse<B> and sibling queries delegate within the same instantiation; adapters are fused. Not decided: into_reversed being observationally a no-op; user-supplied iterators/callbacks.",
        tech="difference-bound abstract interpretation + contract/delegation rules over extracted MIR (rustc_private driver)"),
    'C08': dict(
        text="Decides the structural core: inspection methods take &self on structs without interior mutability; for the four guard types the number of words appended on creation equals the number popped on drop for every aligned predicate valuation (loop-summarised effect counting), creation/drop/seal touch only the word buffer, seal() writes exactly num_seal_words() words, and each temporary view is produced by the same source as the final export. Holds for all histories by induction (each inspection is a no-op on coder state). Not decided: bit arithmetic inside write_bit/read_bit; backend failure in the middle of a guard constructor (outside the quantifier).",
        tech="path-sensitive effect counting with loop summarisation and predicate alignment; receiver-kind / interior-mutability scan; compile-fail witnesses (thorough)"),
    'C18': dict(
        text="Decides the structural half of the size/emptiness queries: ANS num_words() equals remaining(bulk) plus the symbolic number of words into_compressed appends; range-encoder num_words() equals remaining(bulk) + num_seal_words() and seal() writes exactly num_seal_words() words on every aligned path pair; num_bits = BITS*num_words; the 'fresh/empty' sentinel compared by is_empty/seal/num_seal_words/maybe_exhausted is the constant the constructors store and clear() restores; the bit-level coders test 'partial word present' through one and the same field everywhere; the tolerance of RangeDecoder::maybe_exhausted is at least the distance sealing can leave between point and lower (power-of-two polynomials over the symbolic widths, reader zero-fill checked); num_valid_bits() after from_binary equals the data size (bit-length accounting of the import loop, formula evaluated as a polynomial over that model); diagnostic overrides are structural clones of the trait defaults and no possibly-zero power of two reaches a divisor. Not decided: 'one with whole words left reports that it is not', bit-coder len(), numeric values of entropy/KL.",
        tech="affine agreement of query return values with loop-summarised export effect counts; sentinel atom agreement; structural (DAG) equality of overrides; two-point constant rule for wrapping_pow2; power-of-two polynomial comparison of thresholds; bit-length abstract domain for the import loop"),
    'C07': dict(
        text="Decides the structural half of random access by a potential-function argument: on every success path of RangeEncoder::encode_symbol (words written, loop-summarised) + (change of held-back count) equals the number of one-word window shifts; Pos::pos returns backend position + held-back words; the decoder reads one word per shift under the same renormalisation predicate; RangeDecoder::seek = backend seek, re-read of the window with the constructors' routine, state restore, with both errors propagated; seek(pos()) is symbolically the identity for AnsCoder and ChainCoder; backend seek accepts exactly p<=len; snapshots take &self. Not decided: that decoding after a seek yields the right symbols; maybe_exhausted at the final position.",
        tech="loop-summarised effect counting against a potential function; symbolic seek(pos()) round trip; dominance/ordering of the seek protocol; difference bounds for backend seek"),
    'C09': dict(
        text="Decides the structural core for all models, symbols and histories: in every encoder-side model (6 impls + Huffman) the predicates that separate rejecting from accepting paths mention the symbol outside any possibly-narrowing conversion (or under a dominating guard on the un-narrowed symbol); in each of the three Encode::encode_symbol impls the Continue edge of the model-lookup `?` precedes the first mutation of the coder on every path and every rejecting exit is mutation-free; ANS: no assignment to the coder precedes the fallible backend write; Huffman rejects before emitting and the default adaptors buffer first. Not decided: that each model's None set equals the complement of its support (value level).",
        tech="information-flow (narrowing taint) over the value graph + path ordering / must-precede rules over extracted MIR"),
    'C01': dict(
        text="Decides that every batch / fallible / iid / reverse form of the stream-code traits is, by construction, the per-symbol loop the property quantifies over (no impl overrides a provided batch method; each provided body makes exactly one encode_symbol/decode_symbol call per yielded item with the item's components, propagates its error and touches the coder in no other way; DecodeIidSymbols yields exactly amt items), that every conversion of an AnsCoder copies `state` unchanged, that only the coding steps, clear() and seek() assign `state`, and that Clone is derived. The core statement - encode_symbol and decode_symbol are algebraic inverses, export/import is the identity - is value-level and NOT decided: a changed threshold or state update is not detected by this check.",
        tech="override inventory over impl tables; loop-summarised structural rules on provided trait bodies and closures; literal-site / field-writer inventory (who-may-write)"),
    'C14': dict(cat='proof',
        text="Model-independence of chain decoding, proved as non-interference on the current tree: on every path of ChainCoder::decode_symbol (loop-free; all paths enumerated) no term derived from the model argument, the model's results, the remainders head or the remainders backend reaches the quantile handed to the model, a value stored in the compressed head, a use of the compressed backend, the decision to report OutOfCompressedData, or any branch evaluated before such an event; helpers called with &mut self write only remainders-side places. Hence, by induction over calls, the quantile sequence, words consumed and exhaustion point are functions of the compressed data alone and symbol i = model_i(quantile_i) (termination-insensitive w.r.t. remainders-sink errors). In addition (necessary condition of the chunk clause, outside the proof): every value stored in the compressed head depends on the previous head, so left-over bits are never discarded. The check downgrades itself to `other` if any obligation is unresolved. Not decided: that flipping bits inside chunk j changes only quantile j (bit-level dependence through the shifted head), nor that chunk i is exactly the i-th PRECISION-bit group (arithmetic).",
        tech="path-sensitive information-flow (non-interference) analysis over the value graph + callee frame summaries"),
    'C13': dict(
        text="Decides three structural clauses for all inputs/configurations: (1) in every chain-coder function that reads a backend, each path that continues after a read carries the Some/Continue decision of that read, so running out of compressed data or remainders can only surface as Err, never as data; (2) the two unsafe precision changers are called only where the static assertions of their dedicated safe wrappers are entailed by the caller's own assertions plus its branch (const-generic difference bounds); (3) ChainCoderHeads is private and built only by its constructor and the precision changers; (4) all guards that trigger a flush/refill of the remainders head agree in relation and shift; (5) each exporter drains the remainders head down to exactly the marker its importer pushed (1 for from_binary, none for from_compressed). Not decided: that decode followed by re-encode restores the words exactly (head arithmetic is value-level: a consistent change of all sibling thresholds is not detected).",
        tech="error-discipline (must-establish) rule over enumerated paths; const-generic entailment with difference bounds; literal-site inventory; compile-fail witnesses (thorough)"),
    'C19': dict(
        text="Decides necessary structural conditions for all inputs/configurations: every literal of a model type is produced after the Ok arm of a shared validator, by a view/conversion of an existing model, or behind inline rejecting guards (private producers discharged at their callers); the float-table ingesters agree on sign and length checks and the (symbols, probabilities) constructors reject a count mismatch in both directions (no silent zip); no accept/reject decision is an ordering comparison against wrapping_pow2(PRECISION) without a zero/precision test (it degenerates at PRECISION == BITS); the validator's accept decision depends on every accumulator. Known finding (printed, exit 0): the lazy categorical constructor accepts negative weights by design trade-off. Not decided: that an accepted table satisfies C03 numerically.",
        tech="who-may-construct (literal-site) analysis with validator reachability; Engler-style sibling agreement of argument checks; two-point constant domain for wrapping_pow2; compile-fail witnesses (thorough)"),
    'C20': dict(
        text="Obligation audit of every call to an `unsafe` callee in the library (56 sites on the current tree; found from callee signatures in MIR so macro-expanded sites are included). Machine-discharged: index/range bounds from dominating guards with helper inlining and no-underflow side conditions (BOUND), tabled non-zero shift idioms under dominating guards (NONZERO-LOCAL), binary-search comparators that never return Equal (COMPARATOR), const-generic precondition entailment for the unsafe precision changers (PRECOND), core NonZero guarantee and forwards inside unsafe fns (TRUSTED-TYPE/FORWARD), entry index of the Huffman table walks. Data-dependent sites are TRUSTED-DATA: their invariants are enumerated in `assumptions`, and their structural half is checked: owning model types are built from strictly validated data only (a user-implementable IterableEntropyModel does not count), lookup tables have their length established, no unchecked access relies on an invariant that a safe `&mut` accessor can break, unsafe traits are implemented for std types only, no transmute/raw-pointer dereference. Unrecognised or new unsafe operations fail closed. Not decided: the TRUSTED-DATA invariants themselves (cdf monotonicity, Huffman node indices) and wrap-dependent arithmetic.",
        tech="unsafe-site obligation audit over MIR: difference-bound proofs, dominating-guard idiom table, comparator scan, const-generic entailment, who-may-construct / length-establishment / &mut-escape rules"),
    'C10': dict(
        text="Decides, for every path and configuration, that the quantile handed to a model by the three decoders is below 2^PRECISION (reduced modulo 2^PRECISION, under a dominating strict guard whose failing arm returns InvalidData, or on the PRECISION == BITS edge), that the lookup models and the quantizer check that bound before their first use of the quantile, that only the documented front-end errors are constructed (ANS none, range InvalidData, chain OutOfCompressedData), that the public range-coder state constructor rejects every range below the renormalisation threshold the coding steps maintain (thresholds canonicalised to x < 2^E), and that both quantizer searches wrap-check the candidate they adopt after a wrapping step. Not decided: absence of other arithmetic panics, termination of the quantizer search in general, that the returned symbol belongs to the support (value-level; e.g. a wrong skip loop inside a model is not detected).",
        tech="bounded-value abstract domain over the value graph with dominating-guard recognition; error-constructor inventory; threshold canonicalisation; path rule on wrapping search steps"),
    'C02': dict(
        text="Decides sibling-agreement conditions necessary for the range-coder round trip, for all inputs/configurations: clear() resets every field to what the parameter-free constructor stores; the 'no symbol yet' sentinel compared by seal / num_seal_words / is_empty / maybe_exhausted is the constant the constructors store; the two clones of the held-back-word flush (encode_symbol, seal) emit the same (first word, fill word) pairs with the same trip count; seal() writes exactly num_seal_words() words; the decoder's range/lower updates and renormalisation predicate are structurally identical to the encoder's after mapping model results to role atoms. maybe_exhausted tolerates the full distance sealing leaves between point and lower. Not decided: carry-resolution and sealing arithmetic, FIFO value identity (a symmetric change of encoder and decoder, or a changed threshold on both sides, is not detected).",
        tech="reset-completeness and sentinel agreement over constructor literals; structural (DAG) sibling comparison of duplicated code and of encoder vs decoder updates; loop-summarised effect counting"),
    'C04': dict(
        text="Decides necessary structural conditions of the bits-back round trip for all inputs/configurations: every function that exports the ANS state applies the truncating chunker to the unmodified state (so words below the marker are never dropped); from_binary starts from the single marker bit and the raw-binary view / consuming export strip exactly one leading chunk that must equal Word::one(); from_binary can only fail with the backend's read error; the two import loops and the decoder's refill test compare the state with the same threshold and the same strictness. num_valid_bits() after from_binary equals the size of the data (bit-length accounting). Not decided: encode(decode(bits)) == bits for all states (the algebra of the coding step).",
        tech="same-source rule over all exporters; marker push/strip pairing; error-origin classification; sibling agreement of the normalisation threshold (structural predicate equality)"),
    'C05': dict(
        text="Decides necessary structural conditions, for all models/configurations, for the representations of one distribution to be the same model: every fixed-point cumulative of the leaky quantizer (encoder view, decoder search, symbol_table iterator) evaluates cdf and slack at the same boundary index (affine rule); views/projections copy the same-named fields; `impl Trait for &M` forwards unchanged; generic conversions store table triples without arithmetic; the contiguous->lookup conversion copies the cdf and fills the table from the monotonic part cdf[1..len-1] only; the lazy and eager categorical constructors compute a structurally identical `scale` under the same validation, with the as_(prefix_sum*scale)+index formula in both. every ordered search over a cdf excludes the wrapping total-mass entry; size_hint() of every crate-local iterator is consistent with its next() (what the generic conversions reserve and collect). Not decided: numeric equality of genuinely different float paths (e.g. the lazy model's float pre-skip bound); uniform-model views.",
        tech="affine boundary-consistency rule over the value graph (R10); same-field / delegation / no-arithmetic rules; structural (DAG) equality of sibling float computations; size_hint/next step consistency (affine, modulo wrap)"),
    'C15': dict(
        text="Decides the mutual-consistency clause structurally: both Huffman tree builders build the heap from the same keyed source enumerate().map(|(i,s)| Reverse((s,i))) (deterministic tie-break by symbol index), pop two and push Reverse((w0+w1, next)) with the node counter starting at the number of symbols and stepping by one, and give bit 0 to the child popped first; out-of-alphabet symbols are rejected before any bit is emitted and the default prefix/suffix adaptors buffer first; the entry index of both unchecked table walks is in bounds. Not decided: prefix-freeness, Kraft equality, optimality, that decode inverts encode for every codeword (statements about code lengths / bit patterns).",
        tech="sibling agreement of the two builders' merge loops over role-normalised value-graph terms; ordering rule; difference-bound entry check"),
    'C16': dict(
        text="Decides position / direction / marker agreement of the bit-level coders for all word types and histories: writing the one-hot mask as 2^p, write_bit stores each bit at the position the mask then points to (p+1; a fresh word starts at position 0) and flushes exactly when the word is full; StackCoder::read_bit tests the bit at the mask and steps to p-1 (after a refill: BITS-1), i.e. it undoes write_bit; QueueDecoder::read_bit tests the bit at the mask and steps to p+1 (after a refill: 0), i.e. it replays write_bit; the queue and stack write_bit bodies are identical; len() adds trailing_zeros(mask)+1 bits for the partial word; re-import takes the end marker at the top set bit (where the sealing write_bit(true) puts it), removes it and leaves the mask one position below; all emptiness tests use the same sentinel field; the export guards push and pop symmetrically and view what the export writes. Not decided: the bit contents of the word (that other bits are preserved, that bits above the mask are zero), Exp-Golomb and Huffman round trips for every value.",
        tech="abstract interpretation of one-hot masks in a bit-position domain (power-of-two exponents over symbolic widths); sibling agreement of the step functions; structural (DAG) equality of clones; effect-count guard pairing"),
    'C12': dict(
        text="Decides ONLY the word-count clause of the statement ('the number of words produced after n symbols never exceeds n plus a constant that depends only on the type parameters'), for all inputs and configurations: every path of the ANS encode_symbol appends at most one word and exporting appends at most State::BITS/Word::BITS chunks of the state; for the range encoder (words written + held-back words) grows by the number of window shifts, 0 or 1, per symbol, and sealing appends held-back + at most 2 words, exactly as many as num_seal_words() reports. NOT decided: the analytic bound on the number of bits (information content + n*log2(1+2^-(StateBits-WordBits-PRECISION)) + constant, the advertised 0.006 bit/symbol), which is value-level.",
        tech="loop-summarised effect counting against a potential function (words written + held-back words); affine form of the sealing count; structural bound of the state chunker"),
}

NA = {
    'C03': "value-level: float rounding / fixed-point tiling for all parameters and quantiles; no sound static argument short of an arithmetic decision procedure bounds these values (structural neighbours are claimed under C05, C19, C20)",
    'C06': "equality with an external reference bit stream: a symmetric change of encoder and decoder is invisible to any sibling rule, and comparing against a frozen copy of today's formulas would alarm on every behaviour-preserving rewrite",
    'C11': "interval arithmetic on lower/range values of the seal words; no structural fact implies it",
}
PENDING = "check not built yet in this round (see DESIGN.md §7 build order); will be claimed or declared not applicable with a reason"


def main():
    props = [json.loads(l) for l in open(os.path.join(VERIF, 'properties.jsonl'))]
    checks = []
    na = []
    for p in props:
        pid = p['id']
        if pid in CLAIMS and os.path.exists(os.path.join(VERIF, 'props', pid + '.py')):
            c = CLAIMS[pid]
            checks.append({
                "property_id": pid,
                "quick_cmd": "./check %s --tier quick" % pid,
                "thorough_cmd": "./check %s --tier thorough" % pid,
                "evidence_file": "/verif/evidence/%s.json" % pid,
                "replay_cmd_template": "./check %s --replay {path}" % pid,
                "engine": "cfacts+vlib",
                "level_claimed": {"category": c.get('cat', 'other'), "text": c['text'], "design_ref": "DESIGN.md §4 " + pid},
                "level_note": c.get('note', TRUST),
                "technique": c['tech'],
            })
        else:
            na.append({"property_id": pid, "reason": NA.get(pid, PENDING)})
    claimed = [c['property_id'] for c in checks]
    m = {
        "version": 1,
        "setup_cmd": "./setup.sh",
        "hooks": {
            "guard": "constriction_verif",
            "enable": "no hooks are needed: the analysis reads the unmodified build (cargo +nightly check --lib through a rustc_private RUSTC_WORKSPACE_WRAPPER)",
            "baseline_off_cmd": "cd /repo && (cargo nextest run --workspace --no-fail-fast --offline --test-threads 8 || cargo test --workspace --no-fail-fast --offline)",
            "source_commits": [],
            "add_only": True,
        },
        "engines": [
            {"name": "cfacts", "path": "driver/", "serves_properties": claimed, "kind_free_text": "rustc_private MIR / type-table fact extractor (nightly, zero cargo deps)"},
            {"name": "vlib", "path": "vlib/", "serves_properties": claimed, "kind_free_text": "Python 3 stdlib: CFG, dominators, path-sensitive term evaluation (value graph), difference bounds, effect counting, taint"},
            {"name": "witness", "path": "witness/", "serves_properties": [], "kind_free_text": "compile_fail doc-test witnesses with compiling twins (thorough tier)"},
        ],
        "checks": checks,
        "not_applicable": na,
        "notes": "Technique family: static analysis only (no execution of library code, no solver). Known findings: known_findings.json. Seeded changes: seeded/.",
    }
    with open(os.path.join(VERIF, 'MANIFEST.json'), 'w') as f:
        json.dump(m, f, indent=1)
    print('claimed:', claimed)
    print('n/a:', [x['property_id'] for x in na])


if __name__ == '__main__':
    main()
