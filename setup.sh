#!/bin/sh
# Builds the fact extractor (nightly, rustc_private, zero cargo dependencies) and warms the dependency caches. Offline.
set -e
cd "$(dirname "$0")"
export CARGO_NET_OFFLINE=true
python3 -c "
import sys; sys.path.insert(0,'.')
from vlib import extract
extract.build_driver()
for c in ('default','nostd','pybindings'):
    p,i=extract.extract(c); print(c, i)
"
