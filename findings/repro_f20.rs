use constriction::stream::model::{DecoderModel, EncoderModel, LeakyQuantizer};
use probability::distribution::Gaussian;
use std::sync::mpsc;
use std::time::Duration;

/// A leakily quantized Gaussian over the full range of a narrow *signed* symbol type is a well-formed model.
/// Looking up a quantile must return the symbol whose bin contains it (never panic, never loop).
fn lookup_all_quantiles(mean: f64, min: i8, max: i8) -> Result<(), String> {
    let quantizer = LeakyQuantizer::<f64, i8, u8, 8>::new(min..=max);
    let model = quantizer.quantize(Gaussian::new(mean, 1e-3));
    for quantile in 0u8..=255 {
        let (tx, rx) = mpsc::channel();
        let m = model.clone();
        std::thread::spawn(move || {
            let r = std::panic::catch_unwind(std::panic::AssertUnwindSafe(|| m.quantile_function(quantile)));
            let _ = tx.send(r.map_err(|_| ()));
        });
        match rx.recv_timeout(Duration::from_secs(2)) {
            Ok(Ok((symbol, left, prob))) => {
                let (l2, p2) = model.left_cumulative_and_probability(symbol).unwrap();
                if (l2, p2) != (left, prob) || !(left <= quantile && (quantile as u16) < left as u16 + prob.get() as u16) {
                    return Err(format!("quantile {quantile}: decoder view ({symbol}, {left}, {prob}) disagrees with the encoder view ({l2}, {p2})"));
                }
            }
            Ok(Err(())) => return Err(format!("quantile_function({quantile}) panicked (support {min}..={max}, mean {mean})")),
            Err(_) => return Err(format!("quantile_function({quantile}) did not return within 2 s (support {min}..={max}, mean {mean})")),
        }
    }
    Ok(())
}

#[test]
fn full_range_i8_mass_at_the_low_end() {
    lookup_all_quantiles(-1000.0, -128, 127).unwrap();
}

#[test]
fn wide_i8_support_mass_at_the_low_end() {
    lookup_all_quantiles(-1000.0, -100, 100).unwrap();
}

#[test]
fn wide_i8_support_mass_at_the_high_end() {
    lookup_all_quantiles(1000.0, -100, 100).unwrap();
}

#[test]
fn control_i32_symbols() {
    // the same shape of model with the default (wide) symbol type works
    use constriction::stream::model::DefaultLeakyQuantizer;
    let quantizer = DefaultLeakyQuantizer::<f64, i32>::new(-100..=100);
    let model = quantizer.quantize(Gaussian::new(-1000.0, 1e-3));
    for quantile in (0u32..1 << 24).step_by(4099) {
        let (symbol, left, prob) = model.quantile_function(quantile);
        assert_eq!(model.left_cumulative_and_probability(symbol).unwrap(), (left, prob));
    }
}
