//! F26 (C20): converting a contiguous categorical model with `PRECISION == usize::BITS` into a lookup decoder model.
//!
//! Before the fix this file compiles; in a build without overflow checks (release) `1 << PRECISION` is `1 << 0`, the lookup
//! table gets ONE entry, and `quantile_function` indexes it with `get_unchecked(quantile)` for any 64-bit quantile: an
//! out-of-bounds read from safe code (run it with
//! `RUSTFLAGS="-C overflow-checks=off -C debug-assertions=off" cargo +nightly miri test --test repro_f26`).
//! With overflow checks it panics with "attempt to shift left with overflow".
//! After the fix the conversion is rejected at compile time like its sibling constructors (USIZE_MUST_STRICTLY_SUPPORT_PRECISION),
//! so this file is expected NOT to build any more (error[E0080] in the static assertion).
use constriction::stream::model::{ContiguousCategoricalEntropyModel, DecoderModel};

#[test]
fn lookup_table_covers_every_quantile() {
    let model = ContiguousCategoricalEntropyModel::<usize, Vec<usize>, 64>::from_nonzero_fixed_point_probabilities(
        [1usize, usize::MAX],
        false,
    )
    .unwrap();
    let lookup = model.to_lookup_decoder_model();
    let (symbol, _, _) = lookup.quantile_function(12345);
    assert_eq!(symbol, 1);
}
