use constriction::stream::model::{DefaultLeakyQuantizer, EncoderModel, IterableEntropyModel};
use probability::distribution::{Distribution, Inverse};

/// A (buggy, but safely implemented) user distribution whose cdf decreases by exactly one fixed-point unit
/// between -0.5 and 0.5.
struct Dented;

impl Distribution for Dented {
    type Value = f64;
    fn distribution(&self, x: f64) -> f64 {
        let free_weight = (1u32 << 24) as f64 - 3.0; // support -1..=1
        if x < 0.0 { 2.5 / free_weight } else { 1.5 / free_weight }
    }
}

impl Inverse for Dented {
    fn inverse(&self, _p: f64) -> f64 { 0.0 }
}

/// The encoder view reports the invalid distribution with a panic (checked conversion) ...
#[test]
#[should_panic(expected = "Invalid underlying")]
fn encoder_view_panics_cleanly() {
    let model = DefaultLeakyQuantizer::<f64, i32>::new(-1..=1).quantize(Dented);
    let _ = model.left_cumulative_and_probability(0);
}

/// ... and so must the iterated symbol table; it must not put a zero into a NonZero (undefined behaviour).
#[test]
#[should_panic(expected = "Invalid underlying")]
fn symbol_table_panics_cleanly() {
    let model = DefaultLeakyQuantizer::<f64, i32>::new(-1..=1).quantize(Dented);
    for (_symbol, _left, probability) in model.symbol_table() {
        assert!(probability.get() != 0);
    }
}
