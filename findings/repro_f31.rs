//! F31 (C19: "oversized fixed-point probabilities ... fail cleanly"): the lookup-model constructors grew their lookup table by
//! `probability` entries for every item of the caller's list and validated the sum only afterwards.  One oversized `usize`
//! probability (1 << 40 at PRECISION 12) makes the constructor ask for 2^40 table entries (8 TB): the allocation fails and
//! the process ABORTS ("memory allocation of 8796093022208 bytes failed", SIGABRT) - neither an error value nor a panic.
//! With `u16` probabilities 2000 invalid entries (4 kB of input) allocate 260 MB before Err(()) comes back.  After the fix
//! the table never grows beyond 1 << PRECISION entries and the call returns Err(()) at once.
use constriction::stream::model::{ContiguousLookupDecoderModel, NonContiguousLookupDecoderModel};

#[test]
fn oversized_probabilities_are_refused_without_allocating_for_them() {
    let probabilities = [1usize << 40, 1];
    let result = ContiguousLookupDecoderModel::<usize, Vec<usize>, Box<[usize]>, 12>::from_nonzero_fixed_point_probabilities(
        probabilities.iter(),
        false,
    );
    assert!(result.is_err());
}

#[test]
fn same_for_the_non_contiguous_lookup_model() {
    let probabilities = [1usize << 40, 1];
    let result = NonContiguousLookupDecoderModel::<char, usize, Vec<(usize, char)>, Box<[usize]>, 12>::from_symbols_and_nonzero_fixed_point_probabilities(
        "ab".chars(),
        probabilities.iter(),
        false,
    );
    assert!(result.is_err());
}
