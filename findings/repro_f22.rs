//! F22 (C11): for State wider than two Words, the words returned by sealing a range encoder do not always identify the
//! message on their own: an all-ones suffix changes the last decoded symbol.
use constriction::stream::{
    model::ContiguousCategoricalEntropyModel,
    queue::{RangeDecoder, RangeEncoder},
    Decode, Encode,
};

#[test]
fn sealed_words_pin_the_message_for_wide_states() {
    let model = ContiguousCategoricalEntropyModel::<u8, Vec<u8>, 8>::from_nonzero_fixed_point_probabilities(
        [3u8, 3, 160, 90],
        false,
    )
    .unwrap();
    let message = [0usize, 3, 0, 1, 0, 0, 1];

    let mut encoder = RangeEncoder::<u8, u32>::new();
    encoder.encode_iid_symbols(message.iter().copied(), &model).unwrap();
    let sealed = encoder.into_compressed().unwrap();

    for suffix in [vec![], vec![0u8, 0, 0], vec![0xffu8, 0xff, 0xff], vec![0x80u8, 1, 2]] {
        let mut data = sealed.clone();
        data.extend_from_slice(&suffix);
        let mut decoder = RangeDecoder::<u8, u32, _>::from_compressed(data).unwrap();
        let decoded = decoder
            .decode_iid_symbols(message.len(), &model)
            .collect::<Result<Vec<_>, _>>()
            .unwrap();
        assert_eq!(decoded, message, "sealed = {:02x?}, suffix = {:02x?}", sealed, suffix);
    }
}
