//! F29 (C20: "no arithmetic that is only correct because release builds wrap"): the `_perfect` quantiser did unchecked
//! arithmetic on shares computed in floating point from unvalidated input.  Debug builds panic with an arithmetic overflow,
//! release builds wrap and then (1) grind through millions of repair iterations before returning the right model,
//! (2) reach the sign check late and return the documented Err, (3) panic later on a NaN.  After the fix no path
//! overflows: (1) returns the model, (2) and (3) return Err(()) as documented.
use constriction::stream::model::{
    DefaultContiguousCategoricalEntropyModel, IterableEntropyModel, SmallContiguousCategoricalEntropyModel,
};

fn overflow_panic<T>(f: impl FnOnce() -> T + std::panic::UnwindSafe) -> Result<T, String> {
    std::panic::catch_unwind(f).map_err(|e| {
        e.downcast_ref::<String>().cloned().or_else(|| e.downcast_ref::<&str>().map(|s| s.to_string())).unwrap_or_default()
    })
}

#[test]
fn tiny_probabilities() {
    // Valid input: nonnegative, finite, the sum 4e-305 is a normal positive f64; `free_weight / sum` is +inf.
    let outcome = overflow_panic(|| {
        DefaultContiguousCategoricalEntropyModel::from_floating_point_probabilities_perfect(&[1e-305f64, 3e-305])
            .map(|model| model.symbol_table().map(|(_, _, p)| p.get()).collect::<Vec<_>>())
    });
    match outcome {
        Err(msg) => panic!("arithmetic the release build only survives by wrapping: {}", msg),
        Ok(Ok(table)) => assert_eq!(table, [1 << 22, 3 << 22]),
        Ok(Err(())) => {}
    }
}

#[test]
fn negative_entry_behind_a_positive_sum() {
    let outcome = overflow_panic(|| {
        DefaultContiguousCategoricalEntropyModel::from_floating_point_probabilities_perfect(&[0.6f64, 0.7, -1.0]).is_err()
    });
    assert_eq!(outcome, Ok(true), "the documented outcome is Err(()), reached without overflowing arithmetic");
}

#[test]
fn more_symbols_than_quanta() {
    let mut probabilities = vec![1.0f64; 4097];
    probabilities[0] = 1e6;
    let outcome = overflow_panic(move || {
        SmallContiguousCategoricalEntropyModel::from_floating_point_probabilities_perfect(&probabilities).is_err()
    });
    assert_eq!(outcome, Ok(true), "the documented outcome is Err(()), reached without overflowing arithmetic");
}
