//! Reproductions of the genuine defects found by the static checks (run against the *unfixed* tree:
//! each test documents the defective behaviour by asserting it; on the fixed tree they fail).
//! Drop into tests/ of a scratch worktree: `cargo test --offline --test repro_pinned`.
use constriction::stream::model::{
    ContiguousCategoricalEntropyModel, DecoderModel, DefaultLeakyQuantizer, EncoderModel,
    IterableEntropyModel, LazyContiguousCategoricalEntropyModel,
    NonContiguousCategoricalDecoderModel, NonContiguousLookupDecoderModel,
};
use constriction::stream::{queue::DefaultRangeEncoder, stack::DefaultAnsCoder, Decode, Encode};

#[test]
fn f7_fast_constructor_accepts_negative_weight() {
    let m = ContiguousCategoricalEntropyModel::<u32, _, 24>::from_floating_point_probabilities_fast(
        &[3.0f64, -2.0, 1.0],
        None,
    );
    let m = m.expect("F7: negative weight accepted");
    let table: Vec<_> = m.symbol_table().collect();
    // non-monotone cdf: second left cumulative is larger than the third
    assert!(table[1].1 > table[2].1, "{:?}", table);
}

#[test]
fn f7_lazy_constructor_accepts_negative_weight() {
    let m = LazyContiguousCategoricalEntropyModel::<u32, f64, _, 24>::from_floating_point_probabilities_fast(
        vec![3.0f64, -2.0, 1.0],
        None,
    );
    assert!(m.is_ok(), "F7 (lazy): negative weight accepted");
}

#[test]
fn f8_decoder_model_silently_truncates() {
    let m = NonContiguousCategoricalDecoderModel::<char, u32, _, 24>::from_symbols_and_floating_point_probabilities_fast(
        ['a'],
        &[0.2f64, 0.3, 0.5],
        None,
    );
    let m = m.expect("F8: count mismatch accepted");
    assert_eq!(m.support_size(), 1);
}

#[test]
fn f9_lookup_model_silently_truncates() {
    let m = NonContiguousLookupDecoderModel::<char, u16, _, _, 12>::from_symbols_and_floating_point_probabilities_fast(
        "ab".chars(),
        &[0.2f64, 0.3, 0.5],
        None,
    );
    assert!(m.is_ok(), "F9: count mismatch accepted");
}

#[test]
fn f12_infer_last_probability_fails_at_full_precision() {
    let m = ContiguousCategoricalEntropyModel::<u32, _, 32>::from_nonzero_fixed_point_probabilities(
        [0x8000_0000u32],
        true,
    );
    assert!(m.is_err(), "F12: inferring the last probability always fails at PRECISION == BITS");
}

#[test]
fn f11_single_symbol_with_whole_mass_is_accepted() {
    let m = ContiguousCategoricalEntropyModel::<u32, _, 24>::from_nonzero_fixed_point_probabilities(
        [1u32 << 24],
        false,
    );
    assert!(m.is_ok(), "F11: one symbol with probability one accepted");
}

#[test]
fn f13_into_binary_drops_trailing_zero_word() {
    let mut c = DefaultAnsCoder::from_binary(vec![5u32, 0]).unwrap();
    assert_eq!(&*c.get_binary().unwrap(), &[5u32, 0]);
    assert_eq!(c.into_binary().unwrap(), vec![5u32]);
}

#[test]
fn f1_symbol_table_disagrees_with_encoder_view() {
    let q = DefaultLeakyQuantizer::<f64, i32>::new(-5..=5);
    let m = q.quantize(probability::distribution::Gaussian::new(0.3, 2.0));
    let from_table: Vec<_> = m.symbol_table().map(|(s, c, p)| (s, c, p.get())).collect();
    let direct: Vec<_> = (-5..=5)
        .map(|s| {
            let (c, p) = m.left_cumulative_and_probability(s).unwrap();
            (s, c, p.get())
        })
        .collect();
    assert_ne!(from_table, direct, "F1");
}

#[test]
fn f4_clear_keeps_the_inverted_situation() {
    use constriction::stream::model::DefaultContiguousCategoricalEntropyModel;
    use constriction::stream::queue::RangeEncoder;
    // drive a small encoder into the inverted situation, clear it, and compare with a fresh one
    let probs = [0.01f64, 0.98, 0.01];
    let model =
        ContiguousCategoricalEntropyModel::<u8, _, 8>::from_floating_point_probabilities_fast(&probs, None)
            .unwrap();
    let _ = DefaultContiguousCategoricalEntropyModel::from_floating_point_probabilities_fast(&probs, None);
    let mut found = false;
    'outer: for seed in 0u32..2000 {
        let mut enc = RangeEncoder::<u8, u16>::new();
        let mut x = seed.wrapping_mul(2654435761).wrapping_add(12345);
        for _ in 0..40 {
            x = x.wrapping_mul(1664525).wrapping_add(1013904223);
            let s = ((x >> 16) % 3) as usize;
            enc.encode_symbol(s, &model).unwrap();
            let (_, _, situation) = enc.clone().into_raw_parts();
            if format!("{:?}", situation).starts_with("Inverted") {
                enc.clear();
                let mut fresh = RangeEncoder::<u8, u16>::new();
                for s in [1usize, 0, 2, 1, 1, 0, 2, 1] {
                    enc.encode_symbol(s, &model).unwrap();
                    fresh.encode_symbol(s, &model).unwrap();
                }
                if enc.into_compressed().unwrap() != fresh.into_compressed().unwrap() {
                    found = true;
                }
                break 'outer;
            }
        }
    }
    assert!(found, "F4: cleared encoder differs from a fresh one");
}

#[allow(dead_code)]
fn unused(_: DefaultRangeEncoder, _: &dyn Fn(&mut DefaultAnsCoder)) {}
#[allow(unused_imports)]
use constriction::stream::model::DefaultLeakyQuantizer as _Q;
#[allow(dead_code)]
fn quantile<M: DecoderModel<24>>(_m: M) {}
#[allow(dead_code)]
fn dec<D: Decode<24>>(_d: D) {}

#[test]
fn f16_leaky_quantizer_truncates_support_size() {
    use constriction::stream::model::SmallLeakyQuantizer;
    // 65637 symbols cannot all get a nonzero probability with 12 bits of precision, yet construction succeeds
    let q = SmallLeakyQuantizer::<f64, i32>::new(0..=65636);
    let m = q.quantize(probability::distribution::Gaussian::new(100.0, 10.0));
    let total: u64 = m.symbol_table().take(300).map(|(_, _, p)| p.get() as u64).sum();
    assert!(total > 4096, "F16: first 300 probabilities already exceed 2^12: {}", total);
}
