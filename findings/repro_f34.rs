//! C20 / C19: the `..._fast` constructors of the tabulated categorical models hand the
//! fixed-point cdf that `fast_quantized_cdf` computes with the *caller's* float type `F`
//! straight to code that indexes / builds `NonZero` values without any check.
//!
//! `F` is only bounded by safe traits (`FloatCore + Sum<F> + AsPrimitive<Probability>`), so a
//! downstream crate may pass its own number type. If that type's arithmetic is not what the
//! library expects (here: a float-to-integer conversion that is not monotone), the constructor
//! returns `Ok(model)` with a symbol of probability ZERO, and the next safe call
//! (`left_cumulative_and_probability`, `quantile_function`) executes
//! `into_nonzero_unchecked(0)`, i.e., undefined behaviour.
//!
//! The property demands: the constructor either fails cleanly or returns a model in which
//! every symbol of the support has a non-zero probability and the intervals tile
//! `[0, 1 << PRECISION)`; and no safe call may cause undefined behaviour.

use core::num::FpCategory;
use core::ops::{Add, Div, Mul, Neg, Rem, Sub};
use std::panic::{catch_unwind, AssertUnwindSafe};

use constriction::stream::model::{
    ContiguousCategoricalEntropyModel, ContiguousLookupDecoderModel, DecoderModel, EncoderModel,
    IterableEntropyModel, NonContiguousCategoricalDecoderModel,
};
use num_traits::{float::FloatCore, AsPrimitive, Num, NumCast, One, ToPrimitive, Zero};

/// A user-defined float type (think: a soft-float or fixed-point wrapper). Everything is
/// forwarded to `f64`, except that the conversion to `u8` has a glitch: it maps 2 to 0.
#[derive(Clone, Copy, Debug, PartialEq, PartialOrd)]
struct Glitchy(f64);

macro_rules! forward_binop {
    ($($tr:ident $f:ident),*) => {$(
        impl $tr for Glitchy {
            type Output = Glitchy;
            fn $f(self, rhs: Glitchy) -> Glitchy { Glitchy($tr::$f(self.0, rhs.0)) }
        }
    )*};
}
forward_binop!(Add add, Sub sub, Mul mul, Div div, Rem rem);

impl Neg for Glitchy {
    type Output = Glitchy;
    fn neg(self) -> Glitchy {
        Glitchy(-self.0)
    }
}
impl Zero for Glitchy {
    fn zero() -> Self {
        Glitchy(0.0)
    }
    fn is_zero(&self) -> bool {
        self.0 == 0.0
    }
}
impl One for Glitchy {
    fn one() -> Self {
        Glitchy(1.0)
    }
}
impl Num for Glitchy {
    type FromStrRadixErr = <f64 as Num>::FromStrRadixErr;
    fn from_str_radix(s: &str, r: u32) -> Result<Self, Self::FromStrRadixErr> {
        <f64 as Num>::from_str_radix(s, r).map(Glitchy)
    }
}
impl ToPrimitive for Glitchy {
    fn to_i64(&self) -> Option<i64> {
        self.0.to_i64()
    }
    fn to_u64(&self) -> Option<u64> {
        self.0.to_u64()
    }
    fn to_f64(&self) -> Option<f64> {
        Some(self.0)
    }
}
impl NumCast for Glitchy {
    fn from<T: ToPrimitive>(n: T) -> Option<Self> {
        n.to_f64().map(Glitchy)
    }
}
impl core::iter::Sum<Glitchy> for Glitchy {
    fn sum<I: Iterator<Item = Glitchy>>(iter: I) -> Self {
        Glitchy(iter.map(|x| x.0).sum())
    }
}
impl FloatCore for Glitchy {
    fn infinity() -> Self {
        Glitchy(f64::INFINITY)
    }
    fn neg_infinity() -> Self {
        Glitchy(f64::NEG_INFINITY)
    }
    fn nan() -> Self {
        Glitchy(f64::NAN)
    }
    fn neg_zero() -> Self {
        Glitchy(-0.0)
    }
    fn min_value() -> Self {
        Glitchy(f64::MIN)
    }
    fn min_positive_value() -> Self {
        Glitchy(f64::MIN_POSITIVE)
    }
    fn epsilon() -> Self {
        Glitchy(f64::EPSILON)
    }
    fn max_value() -> Self {
        Glitchy(f64::MAX)
    }
    fn classify(self) -> FpCategory {
        self.0.classify()
    }
    fn to_degrees(self) -> Self {
        Glitchy(self.0.to_degrees())
    }
    fn to_radians(self) -> Self {
        Glitchy(self.0.to_radians())
    }
    fn integer_decode(self) -> (u64, i16, i8) {
        FloatCore::integer_decode(self.0)
    }
}
impl AsPrimitive<Glitchy> for usize {
    fn as_(self) -> Glitchy {
        Glitchy(self as f64)
    }
}
impl AsPrimitive<u8> for Glitchy {
    fn as_(self) -> u8 {
        let converted = self.0 as u8;
        if converted == 2 {
            0 // the glitch: the conversion is not monotone
        } else {
            converted
        }
    }
}

const PRECISION: usize = 4;

// 3 symbols => 16 - 3 = 13 quanta are distributed proportionally, so with these weights the
// scaled cumulatives are exactly 0, 1, 2 (the last of which the glitch turns into 0).
fn probabilities() -> [Glitchy; 3] {
    [Glitchy(1.0), Glitchy(1.0), Glitchy(11.0)]
}

/// What C03 / C19 demand of any model that a constructor returns with `Ok`.
fn assert_valid_table(table: std::thread::Result<Vec<(usize, u8, u8)>>, what: &str) {
    let table = table.unwrap_or_else(|_| {
        panic!(
            "{}: the constructor returned Ok(model), but the model's symbol table cannot even be listed (zero-probability symbol)",
            what
        )
    });
    let mut expected_left = 0u32;
    for &(symbol, left, probability) in &table {
        assert!(probability > 0, "{}: symbol {} has probability zero", what, symbol);
        assert_eq!(left as u32, expected_left, "{}: intervals must be consecutive", what);
        expected_left += probability as u32;
    }
    assert_eq!(expected_left, 1 << PRECISION, "{}: intervals must tile [0, 1 << PRECISION)", what);
}

#[test]
fn a1_contiguous_fast_constructor_fails_cleanly_or_returns_valid_model() {
    let result = ContiguousCategoricalEntropyModel::<u8, Vec<u8>, PRECISION>::from_floating_point_probabilities_fast(&probabilities(), None);
    if let Ok(model) = result {
        let table = catch_unwind(AssertUnwindSafe(|| {
            model.symbol_table().map(|(s, l, p)| (s, l, p.get())).collect::<Vec<_>>()
        }));
        assert_valid_table(table, "ContiguousCategoricalEntropyModel::from_floating_point_probabilities_fast");
    }
}

#[test]
fn a2_non_contiguous_decoder_fast_constructor_fails_cleanly_or_returns_valid_model() {
    let result = NonContiguousCategoricalDecoderModel::<usize, u8, Vec<(u8, usize)>, PRECISION>::from_symbols_and_floating_point_probabilities_fast(0..3usize, &probabilities(), None);
    if let Ok(model) = result {
        let table = catch_unwind(AssertUnwindSafe(|| {
            model.symbol_table().map(|(s, l, p)| (s, l, p.get())).collect::<Vec<_>>()
        }));
        assert_valid_table(table, "NonContiguousCategoricalDecoderModel::from_symbols_and_floating_point_probabilities_fast");
    }
}

#[test]
fn a3_contiguous_lookup_fast_constructor_fails_cleanly_or_returns_valid_model() {
    let result = ContiguousLookupDecoderModel::<u8, Vec<u8>, Box<[u8]>, PRECISION>::from_floating_point_probabilities_fast(&probabilities(), None);
    if let Ok(model) = result {
        let table = catch_unwind(AssertUnwindSafe(|| {
            model.symbol_table().map(|(s, l, p)| (s, l, p.get())).collect::<Vec<_>>()
        }));
        assert_valid_table(table, "ContiguousLookupDecoderModel::from_floating_point_probabilities_fast");
    }
}

/// The undefined behaviour itself (run this one under Miri; a debug build aborts with "unsafe
/// precondition(s) violated: NonZero::new_unchecked requires the argument to be non-zero").
#[test]
fn b_safe_calls_on_the_returned_model_must_not_be_undefined_behaviour() {
    let result = ContiguousCategoricalEntropyModel::<u8, Vec<u8>, PRECISION>::from_floating_point_probabilities_fast(&probabilities(), None);
    if let Ok(model) = result {
        for symbol in 0..3usize {
            let (_, probability) = model.left_cumulative_and_probability(symbol).unwrap();
            assert!(probability.get() > 0, "a `NonZero` probability holds zero");
        }
        for quantile in 0..(1u8 << PRECISION) {
            let (symbol, left, probability) = model.quantile_function(quantile);
            assert!(symbol < 3);
            assert!(probability.get() > 0, "a `NonZero` probability holds zero");
            assert!(left <= quantile && (quantile - left) < probability.get());
        }
    }
}
