use constriction::stream::model::{DecoderModel, EntropyModel, IterableEntropyModel};
use core::num::NonZeroU16;

/// A (wrong but safe) user implementation of the safe trait `IterableEntropyModel`.
struct Bogus(Vec<(char, u16, u16)>);
impl EntropyModel<12> for Bogus {
    type Symbol = char;
    type Probability = u16;
}
impl<'m> IterableEntropyModel<'m, 12> for Bogus {
    fn symbol_table(&'m self) -> impl Iterator<Item = (char, u16, NonZeroU16)> {
        self.0.iter().map(|&(s, c, p)| (s, c, NonZeroU16::new(p).unwrap()))
    }
}

#[test]
fn f10_short_lookup_table_is_read_out_of_bounds() {
    // self-consistent but partial table: covers only quantiles 0..30
    let m = Bogus(vec![('a', 0, 10), ('b', 10, 20)]);
    let lookup = m.to_generic_lookup_decoder_model();
    // quantile 4000 < 2^12 is a legal quantile, but the table has only 30 entries
    let r = std::panic::catch_unwind(std::panic::AssertUnwindSafe(|| lookup.quantile_function(4000)));
    println!("F10 result: {:?}", r.as_ref().map(|x| (x.0, x.1)).map_err(|_| "panic"));
}

#[test]
fn f14_unvalidated_cdf_in_generic_decoder_model() {
    let m = Bogus(vec![('a', 5, 10), ('b', 15, 20)]);
    let dec = m.to_generic_decoder_model();
    let r = std::panic::catch_unwind(std::panic::AssertUnwindSafe(|| dec.quantile_function(3)));
    println!("F14 result: {:?}", r.as_ref().map(|x| (x.0, x.1)).map_err(|_| "panic"));
}
