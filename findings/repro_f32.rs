//! F32 (C20: "no arithmetic that is only correct because release builds wrap"): the categorical constructors computed a
//! capacity hint as `iterator.size_hint().0 + 1 (+ 1)` with a plain `+`.  Every unbounded std iterator (`0..`, `repeat`,
//! `cycle`) legally reports a lower bound of usize::MAX, so for a call such as `from_symbols_and_..(0.., probabilities, ..)`
//! a debug build panicked with "attempt to add with overflow" while a release build wrapped the hint to 0 and - only
//! because of that - went on to return the documented Err(()) ("more symbols than probabilities").
use constriction::stream::model::{
    ContiguousLookupDecoderModel, NonContiguousCategoricalDecoderModel, NonContiguousLookupDecoderModel,
};

fn message<T>(f: impl FnOnce() -> T + std::panic::UnwindSafe) -> Result<T, String> {
    std::panic::catch_unwind(f).map_err(|e| {
        e.downcast_ref::<String>().cloned().or_else(|| e.downcast_ref::<&str>().map(|s| s.to_string())).unwrap_or_default()
    })
}

#[test]
fn unbounded_symbol_iterators_do_not_overflow_the_capacity_hint() {
    let probabilities = [1u16 << 11, 1 << 11];
    let r = message(|| {
        NonContiguousCategoricalDecoderModel::<u32, u16, Vec<(u16, u32)>, 12>::from_symbols_and_nonzero_fixed_point_probabilities(
            0u32.., probabilities.iter(), false,
        )
        .is_err()
    });
    assert_eq!(r, Ok(true), "decoder model");
    let r = message(|| {
        NonContiguousLookupDecoderModel::<u32, u16, Vec<(u16, u32)>, Box<[u16]>, 12>::from_symbols_and_nonzero_fixed_point_probabilities(
            0u32.., probabilities.iter(), false,
        )
        .is_err()
    });
    assert_eq!(r, Ok(true), "lookup decoder model");
}

#[test]
fn unbounded_probability_iterators_neither() {
    // An endless list of probabilities can never add up: the validator refuses it at the first wrap-around.
    let r = message(|| {
        ContiguousLookupDecoderModel::<u16, Vec<u16>, Box<[u16]>, 12>::from_nonzero_fixed_point_probabilities(
            core::iter::repeat(1u16 << 11), false,
        )
        .is_err()
    });
    assert_eq!(r, Ok(true));
}
