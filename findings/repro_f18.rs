use constriction::stream::model::{DefaultContiguousCategoricalEntropyModel, EncoderModel};

/// A user-supplied `normalization` that is smaller than the sum of the probabilities must be rejected
/// (or corrected): otherwise the cumulative table over-runs `1 << PRECISION`, the last symbol gets
/// probability zero and `left_cumulative_and_probability` calls `into_nonzero_unchecked(0)`.
#[test]
fn too_small_normalization_is_not_accepted_silently() {
    let result = DefaultContiguousCategoricalEntropyModel::from_floating_point_probabilities_fast(
        &[1.0f64, 1.0],
        Some(0.9999999),
    );
    if let Ok(model) = result {
        // Only query symbol 0 (safe: its probability is non-zero); symbol 1 would be undefined behaviour.
        let (left, probability) = model.left_cumulative_and_probability(0usize).unwrap();
        assert_eq!(left, 0);
        assert!(
            probability.get() < 1 << 24,
            "symbol 0 received the entire probability mass {} = 1 << 24; symbol 1 has probability zero",
            probability.get()
        );
    }
}

#[test]
fn exact_or_larger_normalization_still_works() {
    let exact = DefaultContiguousCategoricalEntropyModel::from_floating_point_probabilities_fast(
        &[1.0f64, 3.0], Some(4.0)).unwrap();
    let none = DefaultContiguousCategoricalEntropyModel::from_floating_point_probabilities_fast(
        &[1.0f64, 3.0], None).unwrap();
    for s in 0..2usize {
        assert_eq!(exact.left_cumulative_and_probability(s), none.left_cumulative_and_probability(s));
    }
    assert!(DefaultContiguousCategoricalEntropyModel::from_floating_point_probabilities_fast(
        &[1.0f64, 3.0], Some(8.0)).is_ok());
}

#[test]
fn lazy_sibling() {
    use constriction::stream::model::DefaultLazyContiguousCategoricalEntropyModel;
    let result = DefaultLazyContiguousCategoricalEntropyModel::from_floating_point_probabilities_fast(
        vec![1.0f64, 1.0], Some(0.9999999));
    if let Ok(model) = result {
        let (left, probability) = model.left_cumulative_and_probability(0usize).unwrap();
        assert_eq!(left, 0);
        assert!(probability.get() < 1 << 24, "lazy: symbol 0 received probability {}", probability.get());
    }
}
