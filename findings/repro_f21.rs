use constriction::stream::model::{DecoderModel, EncoderModel, LeakyQuantizer};
use probability::distribution::{Distribution, Inverse};

/// A safely implemented but invalid distribution: its "cdf" is 2.0 everywhere.
struct Broken;
impl Distribution for Broken {
    type Value = f64;
    fn distribution(&self, _x: f64) -> f64 { 2.0 }
}
impl Inverse for Broken {
    fn inverse(&self, _p: f64) -> f64 { 0.0 }
}

/// The encoder view uses a checked conversion: it either returns a non-zero probability or panics ...
#[test]
fn encoder_view_is_checked() {
    let model = LeakyQuantizer::<f64, i32, u32, 32>::new(0..=10).quantize(Broken);
    for symbol in 0..=10 {
        let r = std::panic::catch_unwind(std::panic::AssertUnwindSafe(|| model.left_cumulative_and_probability(symbol)));
        if let Ok(Some((_, probability))) = r {
            assert!(probability.get() != 0);
        }
    }
}

/// ... and so must the decoder view; it must not put a zero into a NonZero (undefined behaviour).
#[test]
#[should_panic(expected = "Invalid underlying")]
fn decoder_view_panics_cleanly() {
    let model = LeakyQuantizer::<f64, i32, u32, 32>::new(0..=10).quantize(Broken);
    let (_symbol, _left, probability) = model.quantile_function(5);
    assert!(probability.get() != 0);
}
