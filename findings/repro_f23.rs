//! F23 (C08/C09): a failed inspection of an ANS coder on a bounded backend must leave the coder as it was.
use constriction::backends::Cursor;
use constriction::stream::{model::DefaultContiguousCategoricalEntropyModel, stack::AnsCoder, Decode, Encode};

#[test]
fn failed_view_leaves_the_coder_intact() {
    let model = DefaultContiguousCategoricalEntropyModel::from_floating_point_probabilities_fast(
        &[0.4f64, 0.25, 0.15, 0.1, 0.07, 0.03],
        None,
    )
    .unwrap();
    let mut coder =
        AnsCoder::<u32, u64, _>::from_compressed(Cursor::new_at_write_beginning(vec![0u32; 4])).unwrap();
    let mut symbols = Vec::new();
    let mut i = 0usize;
    while coder.num_words() < 5 {
        let symbol = (i * 7 + i / 3) % 6;
        coder.encode_symbol(symbol, &model).unwrap();
        symbols.push(symbol);
        i += 1;
    }
    // three words on `bulk`, two in the state: exactly one free slot is left in the buffer
    let words_before = coder.num_words();
    assert!(coder.get_compressed().is_err(), "the view needs two free slots");
    assert_eq!(coder.num_words(), words_before, "a failed inspection changed the size of the coder");
    for &expected in symbols.iter().rev() {
        assert_eq!(coder.decode_symbol(&model).unwrap(), expected);
    }
    assert!(coder.is_empty());
}
