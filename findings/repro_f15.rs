use constriction::symbol::{DefaultStackCoder, ReadBitStream, WriteBitStream};
use constriction::UnwrapInfallible;
#[test]
fn f15_stack_coder_reimport() {
    let bits = [true, false, true, true, false];
    let mut c = DefaultStackCoder::new();
    for &b in &bits { c.write_bit(b).unwrap_infallible(); }
    let len = c.len();
    let words = c.into_compressed().unwrap_infallible();
    let mut d = DefaultStackCoder::from_compressed(words).unwrap();
    assert_eq!(d.len(), len, "re-imported stack has a different length");
    let mut back = Vec::new();
    while let Some(b) = d.read_bit().unwrap_infallible() { back.push(b); }
    back.reverse();
    assert_eq!(back, bits);
}
