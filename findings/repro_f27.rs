//! F27 (C19, C20): the `_fast` floating point constructors must not let rounding errors push the scaled cumulative beyond the
//! free weight.  With `f32` and the default preset (u32, PRECISION = 24) the table [106.71429, 118.14286, 0.0] was accepted
//! with a last symbol of probability ZERO; `left_cumulative_and_probability(2)` then wraps that zero into a `NonZero` with
//! `into_nonzero_unchecked` (undefined behaviour from safe code).  For PRECISION > 24 the free weight is not representable
//! in f32 and [1.0, 0.0] gives the cdf [0, 2^26 + 1, 2^26].
use constriction::stream::model::{ContiguousCategoricalEntropyModel, IterableEntropyModel};

fn accepted_model_is_valid<const P: usize>(probs: &[f32]) {
    let Ok(model) = ContiguousCategoricalEntropyModel::<u32, Vec<u32>, P>::from_floating_point_probabilities_fast(probs, None)
    else {
        return; // a clean refusal is fine
    };
    // `symbol_table` panics ("quantization is leaky") on a zero probability instead of invoking UB.
    let table = std::panic::catch_unwind(move || model.symbol_table().collect::<Vec<_>>())
        .unwrap_or_else(|_| panic!("P = {}, {:?}: the accepted model has a symbol with probability zero", P, probs));
    let mut expected_left = 0u64;
    for (symbol, left, probability) in table {
        assert_eq!(left as u64, expected_left, "P = {}, {:?}: symbol {} does not start where its predecessor ends", P, probs, symbol);
        expected_left += probability.get() as u64;
    }
    assert_eq!(expected_left, 1u64 << P, "P = {}, {:?}: the probabilities do not add up to 1 << PRECISION", P, probs);
}

#[test]
fn default_preset() {
    accepted_model_is_valid::<24>(&[106.71429, 118.14286, 0.0]);
}

#[test]
fn free_weight_not_representable_in_f32() {
    accepted_model_is_valid::<26>(&[1.0, 0.0]);
    accepted_model_is_valid::<25>(&[91.0, 70.42857, 116.28571, 93.14286, 0.0]);
    accepted_model_is_valid::<32>(&[118.71429, 78.85714, 0.0]);
}
