use constriction::stream::model::{DefaultLeakyQuantizer, IterableEntropyModel, EncoderModel};
use probability::distribution::Gaussian;

#[test]
fn size_hint_lower_bound_is_a_lower_bound() {
    let quantizer = DefaultLeakyQuantizer::new(-10..=10);
    let model = quantizer.quantize(Gaussian::new(0.0, 3.0));
    let iter = model.symbol_table();
    let (lower, _upper) = iter.size_hint();
    let count = model.symbol_table().count();
    assert_eq!(count, 21);
    assert!(lower <= count, "size_hint lower bound {} exceeds the number of items {}", lower, count);
}

#[test]
fn generic_conversion_works() {
    let quantizer = DefaultLeakyQuantizer::new(-10..=10);
    let model = quantizer.quantize(Gaussian::new(0.0, 3.0));
    let (lower, _) = model.symbol_table().size_hint();
    // to_generic_encoder_model collects the symbol table; with a lower bound of ~2^32 it tries to allocate tens of GB
    if lower > 1 << 20 {
        panic!("size_hint lower bound is {}; to_generic_encoder_model() would try to reserve that many entries", lower);
    }
    let generic = model.to_generic_encoder_model();
    assert_eq!(generic.left_cumulative_and_probability(0).map(|x| x.0), model.left_cumulative_and_probability(0).map(|x| x.0));
}
