//! F28 (C19): the lazy categorical model must not hand out an interval of width zero (or a wrapped one) because of rounding
//! errors in its float-to-fixed-point conversion, nor - same mechanism - for a normalization below the sum (F18 lazy).
use constriction::stream::model::{DecoderModel, EncoderModel, LazyContiguousCategoricalEntropyModel};

fn all_symbols_are_codable<const P: usize>(probs: &[f32], normalization: Option<f32>) {
    let Ok(model) = LazyContiguousCategoricalEntropyModel::<u32, f32, _, P>::from_floating_point_probabilities_fast(probs, normalization)
    else {
        return; // a clean refusal is fine
    };
    let mut expected_left = 0u64;
    for symbol in 0..probs.len() {
        let (left, probability) = model.left_cumulative_and_probability(symbol).unwrap();
        assert_eq!(left as u64, expected_left, "P = {}, {:?}: symbol {} does not start where its predecessor ends", P, probs, symbol);
        let (decoded, left2, probability2) = model.quantile_function(left);
        assert_eq!((decoded, left2, probability2), (symbol, left, probability));
        expected_left += probability.get() as u64;
    }
    assert_eq!(expected_left, 1u64 << P, "P = {}, {:?}: the probabilities do not add up to 1 << PRECISION", P, probs);
}

#[test]
fn default_preset() {
    all_symbols_are_codable::<24>(&[106.71429, 118.14286, 0.0], None);
}

#[test]
fn free_weight_not_representable_in_f32() {
    all_symbols_are_codable::<26>(&[1.0, 0.0], None);
    all_symbols_are_codable::<25>(&[91.0, 70.42857, 116.28571, 93.14286, 0.0], None);
}

#[test]
fn normalization_below_the_sum() {
    all_symbols_are_codable::<24>(&[1.0, 1.0], Some(0.9999999));
}
