//! F24 (C20): the fixed-point table validator must validate the very values it stores.
use constriction::stream::model::{ContiguousLookupDecoderModel, DecoderModel};
use core::borrow::Borrow;
use core::cell::Cell;

/// A perfectly safe `Borrow<u16>` implementation that answers differently on every other call.
struct Fickle {
    calls: Cell<u32>,
    first: u16,
    then: u16,
}

impl Borrow<u16> for Fickle {
    fn borrow(&self) -> &u16 {
        let n = self.calls.get();
        self.calls.set(n + 1);
        if n % 2 == 0 {
            &self.first
        } else {
            &self.then
        }
    }
}

#[test]
fn validated_values_are_the_stored_values() {
    // The validator sees 2048 + 2048 = 1 << 12; what is stored (if it asks again) is 1 + 1.
    let probabilities = vec![
        Fickle { calls: Cell::new(0), first: 2048, then: 1 },
        Fickle { calls: Cell::new(0), first: 2048, then: 1 },
    ];
    let result = std::panic::catch_unwind(|| {
        ContiguousLookupDecoderModel::<u16, Vec<u16>, Box<[u16]>, 12>::from_nonzero_fixed_point_probabilities(
            probabilities,
            false,
        )
    });
    if let Ok(Ok(model)) = result {
        // Every 12-bit quantile must be answered from inside the tables the model owns.
        let (symbol, left, probability) = model.quantile_function(4000);
        assert!(symbol < 2, "symbol {symbol} is outside the model");
        assert!(left <= 4000 && 4000 - left < probability.get(), "quantile 4000 is not inside the returned interval");
    }
}
