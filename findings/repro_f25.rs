//! F25 (C09): the quantized-distribution model must check the support on the very symbol it computes with.
use constriction::stream::{
    model::{DefaultLeakyQuantizer, EncoderModel},
    stack::DefaultAnsCoder,
    Decode, Encode,
};
use core::borrow::Borrow;
use core::cell::Cell;
use probability::distribution::Gaussian;

/// A perfectly safe `Borrow<i32>` implementation that shows an in-support value to the first two calls (the two sides of
/// the support check) and a far out-of-support value afterwards.
struct Fickle {
    calls: Cell<u32>,
    first: i32,
    then: i32,
}

impl Borrow<i32> for Fickle {
    fn borrow(&self) -> &i32 {
        let n = self.calls.get();
        self.calls.set(n + 1);
        if n < 2 {
            &self.first
        } else {
            &self.then
        }
    }
}

#[test]
fn support_check_and_lookup_see_the_same_symbol() {
    let quantizer = DefaultLeakyQuantizer::new(-10..=10);
    let model = quantizer.quantize(Gaussian::new(0.0, 3.0));

    // At the level of the model: the answer is either None or an interval inside [0, 1 << 24].
    let fickle = Fickle { calls: Cell::new(0), first: 0, then: 1000 };
    let answer = std::panic::catch_unwind(|| model.left_cumulative_and_probability(fickle));
    if let Ok(Some((left, probability))) = answer {
        assert!(
            left as u64 + probability.get() as u64 <= 1 << 24,
            "interval [{left}, {left} + {}) leaves the probability space",
            probability.get()
        );
    }

    // At the level of the coder: whatever happens to the fickle symbol, the symbol encoded before it survives.
    let mut coder = DefaultAnsCoder::new();
    coder.encode_symbol(5, model).unwrap();
    let fickle = Fickle { calls: Cell::new(0), first: 0, then: 1000 };
    let result = std::panic::catch_unwind(move || {
        let outcome = coder.encode_symbol(fickle, model);
        (coder, outcome.is_ok())
    });
    if let Ok((mut coder, accepted)) = result {
        if accepted {
            let _ = coder.decode_symbol(model);
        }
        assert_eq!(coder.decode_symbol(model).unwrap(), 5, "the symbol encoded before the fickle one is lost");
    }
}
