//! T9 finding 1 (C20): `LazyContiguousCategoricalEntropyModel` re-reads the caller's `Pmf`
//! (`AsRef::as_ref`) several times per query: it bounds-checks the symbol against one read and
//! computes the free weight (`2^PRECISION - len`) from another one.  With a (safe) `AsRef`
//! implementation that has interior state, `scaled_cumulative(..) + symbol` at
//! `PRECISION == Probability::BITS` overflows: a debug build panics with "attempt to add with
//! overflow", a release build wraps around and returns a nonsensical interval as `Some(..)`.
//!
//! C20 demands: no arithmetic that is only correct because release builds wrap; failure may only
//! take the form of an error value or a (deliberate) panic, identically in all build profiles.

use constriction::stream::model::{EncoderModel, LazyContiguousCategoricalEntropyModel};
use std::cell::Cell;

/// A buffer whose content depends on how often it has been looked at (safe code only).
struct Shifty {
    calls: Cell<usize>,
    small: Vec<f32>,
    big: Vec<f32>,
    one: Vec<f32>,
}

impl AsRef<[f32]> for Shifty {
    fn as_ref(&self) -> &[f32] {
        let c = self.calls.get();
        self.calls.set(c + 1);
        match c {
            0 | 1 => &self.small, // what the constructor sees (length check and sum)
            2 => &self.big,       // what `left_cumulative_and_probability` bounds-checks against
            _ => &self.one,       // what `scaled_cumulative` computes the free weight from
        }
    }
}

#[test]
fn lazy_model_query_must_not_rely_on_wrapping_arithmetic() {
    let pmf = Shifty {
        calls: Cell::new(0),
        small: vec![1e-30, 1e-30, 1e-30],
        big: vec![1.0, 1.0, 1.0],
        one: vec![1.0],
    };
    let model =
        LazyContiguousCategoricalEntropyModel::<u32, f32, _, 32>::from_floating_point_probabilities_fast(
            pmf, None,
        )
        .expect("three positive finite weights are a valid input");

    let outcome = std::panic::catch_unwind(std::panic::AssertUnwindSafe(|| {
        model.left_cumulative_and_probability(2usize)
    }));

    match outcome {
        Err(payload) => {
            let msg = payload
                .downcast_ref::<&str>()
                .map(|s| s.to_string())
                .or_else(|| payload.downcast_ref::<String>().cloned())
                .unwrap_or_default();
            assert!(
                !msg.contains("attempt to add with overflow"),
                "the query only fails because of the overflow checks of a debug build ({:?}); \
                 a release build wraps around and returns Some((1, 4294967295))",
                msg
            );
        }
        Ok(None) => {}
        Ok(Some((left_cumulative, probability))) => {
            // Two symbols precede symbol 2 and each of them owns at least one quantum (the model is
            // leaky), so any honest answer has `left_cumulative >= 2`.
            assert!(
                left_cumulative >= 2,
                "wrapped arithmetic: symbol 2 got the interval [{}, {} + {})",
                left_cumulative,
                left_cumulative,
                probability
            );
        }
    }
}
