//! F30 (C20: arithmetic that a release build only survives by wrapping; C16: Exp-Golomb reader): `ExpGolomb::decode_symbol` counts the leading zero bits of a codeword in a
//! `u32` without any bound.  A run of 2^32 (or more) zero bits followed by a one bit is not the
//! codeword of any value of any integer type, so the decoder has to refuse it.  Instead the
//! counter overflows: a debug build panics ("attempt to add with overflow"), a release build
//! wraps the counter to 0 and returns `Ok(0)`, i.e. it accepts an invalid codeword and reports
//! the symbol 0 (the same happens for run lengths 2^32 + k: they decode like a run of k zeros).
//!
//! Run with `cargo test --offline --release --test repro_f30` (instant; returns Ok(0)) or without
//! `--release` (about 50 s; panics inside the library with an arithmetic overflow).

use constriction::symbol::{exp_golomb::ExpGolomb, DecoderCodebook};
use core::convert::Infallible;

#[test]
fn exp_golomb_rejects_a_run_of_2_pow_32_zero_bits() {
    // 2^32 zero bits, then a single one bit.  The longest codeword of ExpGolomb<u8> has 17 bits
    // (8 zeros, a one, 8 payload bits); anything starting with more than 8 zeros is invalid.
    let source = core::iter::repeat(Ok::<bool, Infallible>(false))
        .take(1usize << 32)
        .chain(core::iter::once(Ok(true)));

    let result = ExpGolomb::<u8>::new().decode_symbol(source);

    assert!(
        result.is_err(),
        "a codeword with 2^32 leading zeros is not the code of any u8, but decode_symbol returned {:?}",
        result
    );
}
