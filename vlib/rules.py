"""Helpers shared by the property modules (rule families of DESIGN §3)."""
from . import sym, dbm as dbmmod
from .facts import callee

_EV_CACHE = {}


def evaluate(body, max_paths=4000, call_hook=None):
    """(evaluator, list of PathResult) or (evaluator, None) when the body has too many paths."""
    key = (id(body.facts), body.defpath, body.promoted, id(call_hook))
    if key in _EV_CACHE:
        return _EV_CACHE[key]
    if body.promoted is None and body.dk in ('Fn', 'AssocFn') and not getattr(body, 'inlined', None):
        # splice unknown private mutating helpers into the caller (role helpers known to the rules stay calls)
        from . import inline, anchors
        try:
            body, _ = inline.inline_body(body.facts, body, anchors.role_helpers(body.facts))
        except Exception:
            pass
    ev = sym.Evaluator(body, max_paths=max_paths, call_hook=call_hook)
    try:
        res = ev.run()
    except sym.TooManyPaths:
        res = None
    _EV_CACHE[key] = (ev, res)
    return ev, res


def loc(body, span=None):
    s = span or body.span
    return s.rsplit('-', 1)[0]


def ret_shape(t):
    """Classify a returned term: ('Ok', inner) / ('Err', inner) / ('Some', x) / ('None',) / ('opaque', t)."""
    if t is None:
        return ('none',)
    if t[0] == 'agg' and isinstance(t[1], tuple) and t[1][0] == 'adt':
        vn = t[1][2]
        inner = t[2][0] if t[2] else None
        return (vn, inner)
    if t[0] == 'err_of':
        return ('Err', t)
    return ('opaque', t)


def path_dbm(res, nonneg=True, extra=None, upto=None):
    d = dbmmod.DBM()
    preds = res.preds if upto is None else res.preds[:upto]
    dbmmod.harvest(d, preds, nonneg=nonneg, extra=extra)
    return d


def self_writes(res, base=(1, 'deref')):
    n = len(base)
    return [e for e in res.events if e['kind'] == 'write' and e['path'][:n] == base]


def mut_calls_on(res, base=(1, 'deref')):
    """Call events that receive a mutable reference to (a part of) `base`."""
    n = len(base)
    out = []
    for e in res.events:
        if e['kind'] != 'call':
            continue
        for a in e['args']:
            if a[0] == 'ref' and a[2] and a[1][:n] == base:
                out.append(e)
                break
    return out


def short(defpath, n=90):
    return defpath if len(defpath) <= n else defpath[:n - 1] + '…'


def impl_bodies(F, trait, method, self_pred=None):
    """Bodies of `method` in impls of `trait` (trait path, crate-relative)."""
    out = []
    for b in F.bodies:
        if b.promoted is not None or b.name != method or b.dk != 'AssocFn':
            continue
        if b.impl_trait != trait:
            continue
        if self_pred is not None and not self_pred(b):
            continue
        out.append(b)
    return out


def adt_args(F, ty_id):
    t = F.ty(ty_id)
    n = 0
    while t.get('k') == 'ref' and 'inner' in t and n < 6:
        t = F.ty(t['inner'])
        n += 1
    return t


def self_type(body):
    """Peeled type node of the impl's self type."""
    if body.impl_self is None:
        return None
    return adt_args(body.facts, body.impl_self)


def type_is_adt(F, tnode, adt):
    return tnode is not None and tnode.get('k') == 'adt' and tnode.get('adt') == adt


def first_type_arg(F, tnode):
    for a in tnode.get('args', []):
        if isinstance(a, int):
            return F.ty(a)
    return None


def _selector(rs, nargs):
    """A branching helper that only ever returns one of its arguments (a hand-written min / max / clamp): (i, lower, upper) if
    argument i is returned only on paths that decided `arg_j <= arg_i` for j in lower and `arg_i <= arg_j` for j in upper, and
    every other return hands back one of those bounds.  The call then reads as min(max(arg_i, lower..), upper..)."""
    def argno(t):
        if isinstance(t, tuple) and t and t[0] == 'arg' and isinstance(t[1], int):
            return t[1]
        if isinstance(t, tuple) and t and t[0] == 'in' and len(t[1]) == 1 and isinstance(t[1][0], int):
            return t[1][0]
        return None
    per = {}
    for r in rs:
        if any(e['kind'] in ('write', 'write_ref') or (e['kind'] == 'call' and e.get('uid') is not None) for e in r.events):
            return None
        k = argno(r.ret)
        if k is None or not (1 <= k <= nargs):
            return None
        lo, up = set(), set()
        for t, v, _ in r.preds:
            if not (isinstance(t, tuple) and t and t[0] == 'bin' and t[1] in ('Lt', 'Le', 'Gt', 'Ge')):
                return None
            a, c = argno(t[2]), argno(t[3])
            if a is None or c is None:
                return None
            # normalise to "x <= y" (strictness does not matter for a bound)
            le = (a, c) if ((t[1] in ('Lt', 'Le')) == bool(v)) else (c, a)
            if le[0] == k:
                up.add(le[1])
            if le[1] == k:
                lo.add(le[0])
        if k in per:
            per[k] = (per[k][0] & lo, per[k][1] & up)
        else:
            per[k] = (lo, up)
    cand = sorted(k for k, (lo, up) in per.items() if lo or up)
    if not cand:
        return None
    i = cand[0]
    lo, up = per[i]
    if any(k != i and k not in lo and k not in up for k in per):
        return None
    return i, sorted(lo), sorted(up)


def inline_pure(F, t, depth=1, only=None):
    """One-level inlining of pure, single-path crate-local helpers inside a term (DESIGN §2: `support_size`,
    `is_whole`, ...).  `only`: optional predicate on the callee def path."""
    from . import effects

    def f(n):
        if not (n and n[0] == 'call' and n[3] is None):
            return None
        if only is not None and not only(n[1]):
            return None
        b = F.by_def.get(n[1])
        if b is None or b.dk not in ('Fn', 'AssocFn') or b.unsafe:
            return None
        _, pp = evaluate(b)
        rs = [p for p in pp or [] if p.end == 'return']
        if len(rs) > 1 and len(rs) == len(pp or []):
            sel = _selector(rs, len(n[2]))
            if sel is not None:
                i, lo, up = sel
                out = n[2][i - 1]
                for j in lo:
                    out = ('call', 'core::cmp::Ord::max', (out, n[2][j - 1]), None)
                for j in up:
                    out = ('call', 'core::cmp::Ord::min', (out, n[2][j - 1]), None)
                return out
        if len(rs) != 1 or any(e['kind'] == 'call' and e.get('uid') is not None for e in rs[0].events) or any(e['kind'] == 'write' for e in rs[0].events):
            return None
        args = n[2]

        def g(x):
            if x and x[0] == 'arg' and 1 <= x[1] <= len(args):
                return args[x[1] - 1]
            if x and x[0] == 'in' and isinstance(x[1][0], int) and 1 <= x[1][0] <= len(args):
                a = args[x[1][0] - 1]
                rest = x[1][1:]
                if rest and rest[0] == 'deref':
                    rest = rest[1:]
                if a[0] == 'in':
                    return ('in', a[1] + rest)
                if a[0] == 'arg':
                    return ('in', (a[1],) + rest) if rest else a
                if not rest:
                    return a
            return None
        return effects.rebuild(rs[0].ret, g)
    def fold(n):
        # `x.clamp(lo, hi)` is `min(max(x, lo), hi)` (it panics for lo > hi, which is a clean failure)
        if n and n[0] == 'call' and str(n[1]).endswith(('Ord::clamp', 'cmp::Ord::clamp')) and len(n[2]) == 3:
            return ('call', 'core::cmp::Ord::min', (('call', 'core::cmp::Ord::max', (n[2][0], n[2][1]), None), n[2][2]), None)
        # field of a literal that an inlined helper returned: `helper(x).field`
        if n and n[0] == 'proj' and isinstance(n[1], tuple) and n[1] and n[1][0] == 'agg' and isinstance(n[2], tuple) and n[2] and n[2][0] == 'f':
            vals, names = n[1][2], (n[1][3] if len(n[1]) > 3 else None)
            if names and n[2][1] in names:
                return vals[list(names).index(n[2][1])]
            if not names and str(n[2][1]).isdigit() and int(n[2][1]) < len(vals):
                return vals[int(n[2][1])]
        # `*(&place)` where the reference came out of an inlined helper
        if n and n[0] == 'proj' and n[2] == 'deref' and isinstance(n[1], tuple) and n[1] and n[1][0] == 'ref' and isinstance(n[1][1], tuple):
            return ('in', tuple(n[1][1]))
        return None
    out = t
    for _ in range(depth):
        out = effects.rebuild(effects.rebuild(out, f), fold)
    return out


def preds_before(res, event_index):
    """Number of entries of res.preds that were decided before events[event_index]."""
    n = 0
    for e in res.events[:event_index]:
        if e['kind'] == 'branch':
            n += 1
        elif e['kind'] == 'assert':
            n += 1
    return n
