"""Obligations, verdicts, evidence and known-finding handling shared by all property checks."""
import hashlib
import json
import os
import time

VERIF = os.path.dirname(os.path.dirname(os.path.abspath(__file__)))
# tools/seedmatrix.py runs the rule engine against deliberately broken trees; it must not overwrite the evidence of /repo
OUT = os.environ.get('VERIF_SCRATCH_OUT') or VERIF

DISCHARGED = 'discharged'
VIOLATED = 'violated'
UNRESOLVED = 'unresolved'   # shape outside the idiom list: recorded, never an alarm (DESIGN §6)
TRUSTED = 'trusted'         # enumerated assumption, not machine checked


class Ob:
    """One rule instance = one obligation."""

    def __init__(self, rule, role, where, status, detail, key=None, loc=None, facts=None, clause=None):
        self.rule = rule          # R1..R10
        self.role = role          # what the instance protects (stable words, no line numbers)
        self.where = where        # def path of the construct
        self.status = status
        self.detail = detail      # human text: what was analysed / why refuted
        self.loc = loc            # file:line for the report text only
        self.facts = facts or {}
        self.clause = clause
        self.key = key or '%s/%s/%s' % (rule, role, where)

    def to_json(self):
        d = {'rule': self.rule, 'role': self.role, 'where': self.where, 'status': self.status,
             'detail': self.detail, 'key': self.key}
        if self.loc:
            d['loc'] = self.loc
        if self.facts:
            d['facts'] = self.facts
        if self.clause:
            d['clause'] = self.clause
        return d


class Ctx:
    """What a property module gets: facts per configuration, tier, helpers to emit obligations."""

    def __init__(self, prop, tier, facts_by_config, seed=0):
        self.prop = prop
        self.tier = tier
        self.facts_by_config = facts_by_config
        self.F = facts_by_config['default']
        self.seed = seed
        self.obs = []
        self.assumptions = []
        self.notes = []
        self.analysed_functions = set()
        self.analysed_calls = 0
        self.extra = {}

    def ob(self, *a, **kw):
        o = Ob(*a, **kw)
        self.obs.append(o)
        return o

    def ok(self, rule, role, where, detail, **kw):
        return self.ob(rule, role, where, DISCHARGED, detail, **kw)

    def bad(self, rule, role, where, detail, **kw):
        return self.ob(rule, role, where, VIOLATED, detail, **kw)

    def unresolved(self, rule, role, where, detail, **kw):
        return self.ob(rule, role, where, UNRESOLVED, detail, **kw)

    def trusted(self, rule, role, where, detail, **kw):
        return self.ob(rule, role, where, TRUSTED, detail, **kw)

    def floor(self, rule, role, where, n, need, detail, key, public=False):
        """Instance-count floor.  Counts of *public* anchors (trait impls, public methods) fail closed; counts of private code
        shapes (literal sites, helper functions, loops) may legitimately shrink under a refactoring (two literals merged into
        a helper): a partial drop is recorded as unresolved, only a complete loss of the role is refuted."""
        if n >= need:
            return None
        if public or n == 0:
            return self.bad(rule, role, where, detail, key=key)
        return self.unresolved(rule, role, where, detail + ' (fewer instances than confirmed by reading; not an alarm, the rule still ran on those found)', key=key)

    def assume(self, text):
        if text not in self.assumptions:
            self.assumptions.append(text)

    def touch(self, body, calls=0):
        self.analysed_functions.add(body.defpath if hasattr(body, 'defpath') else str(body))
        self.analysed_calls += calls


def load_known_findings():
    p = os.path.join(VERIF, 'known_findings.json')
    if not os.path.exists(p):
        return []
    with open(p) as f:
        return json.load(f).get('findings', [])


def key_hash(key):
    return hashlib.sha256(key.encode()).hexdigest()[:12]


def finish(ctx, level, explanation, checker_cmd, trusted_base, t0, replay_only=None):
    """Writes evidence, prints KNOWN-FINDING / VIOLATION lines, returns exit code."""
    known = [k for k in load_known_findings() if k.get('property') == ctx.prop and not k.get('fixed')]
    known_keys = {k['key']: k for k in known}
    viol = [o for o in ctx.obs if o.status == VIOLATED]
    new_viol = []
    known_hit = []
    def base_key(k):
        # thorough tier prefixes the configuration ('nostd:', 'pybindings:'); a finding is the same construct in every configuration
        for pre in ('nostd:', 'pybindings:'):
            if k.startswith(pre):
                return k[len(pre):]
        return k
    for o in viol:
        if o.key in known_keys or base_key(o.key) in known_keys:
            if o.key not in known_keys:
                known_keys[o.key] = known_keys[base_key(o.key)]
            known_hit.append(o)
        else:
            new_viol.append(o)
    n_ob = len(ctx.obs)
    n_dis = sum(1 for o in ctx.obs if o.status == DISCHARGED)
    n_unres = sum(1 for o in ctx.obs if o.status == UNRESOLVED)
    n_trust = sum(1 for o in ctx.obs if o.status == TRUSTED)
    for o in known_hit:
        print('KNOWN-FINDING: property=%s %s %s' % (ctx.prop, o.key, known_keys[o.key].get('what', o.detail)))
    rc = 0
    os.makedirs(os.path.join(OUT, 'replays'), exist_ok=True)
    for o in new_viol:
        rp = os.path.join(OUT, 'replays', '%s-%s.json' % (ctx.prop, key_hash(o.key)))
        with open(rp, 'w') as f:
            json.dump({'property': ctx.prop, 'obligation': o.to_json()}, f, indent=1)
        print('  refuted: [%s] %s at %s\n           %s' % (o.rule, o.role, o.loc or o.where, o.detail))
        print('VIOLATION property=%s replay=%s' % (ctx.prop, rp))
        rc = 1
    if level == 'proof' and (n_unres or n_trust or viol):
        level = 'other'
    by_rule = {}
    for o in ctx.obs:
        r = by_rule.setdefault(o.rule, {'total': 0, 'discharged': 0})
        r['total'] += 1
        r['discharged'] += int(o.status == DISCHARGED)
    samples = [o.to_json() for o in ctx.obs[:3]] + [o.to_json() for o in viol[:5]]
    cov = {
        'obligations': n_ob,
        'discharged': n_dis,
        'unresolved': n_unres,
        'trusted_listed': n_trust,
        'violated': len(viol),
        'known_findings_matched': len(known_hit),
        'evaluations': n_ob,
        'distinct_nontrivial': len({o.key for o in ctx.obs}),
        'rule': 'one evaluation per rule instance (obligation) found by querying the extracted MIR / type tables of /repo; distinct = distinct instance keys (rule/role/def-path); every instance is non-trivial in the sense that it names a concrete construct of the analysed tree',
        'by_rule': by_rule,
        'functions_analysed': len(ctx.analysed_functions),
        'call_sites_examined': ctx.analysed_calls,
        'configurations': sorted(ctx.facts_by_config.keys()),
        'bodies_in_facts': {c: len(f.bodies) for c, f in ctx.facts_by_config.items()},
        'checker_cmd': checker_cmd,
        'trusted_base': trusted_base,
        'explanation': explanation,
        'samples': samples,
        'rule_instances': [o.to_json() for o in ctx.obs],
        'notes': ctx.notes,
        'exhaustive': False,
    }
    cov.update(ctx.extra)
    ev = {
        'property_id': ctx.prop,
        'tier': ctx.tier,
        'seed': ctx.seed,
        'level': level,
        'coverage': cov,
        'assumptions': ctx.assumptions,
        'wall_s': round(time.time() - t0, 3),
        'violations': len(new_viol),
    }
    os.makedirs(os.path.join(OUT, 'evidence'), exist_ok=True)
    with open(os.path.join(OUT, 'evidence', ctx.prop + '.json'), 'w') as f:
        json.dump(ev, f, indent=1, sort_keys=False)
    print('%s %s: %d obligations, %d discharged, %d unresolved, %d trusted(listed), %d violated (%d known) in %.1fs' % (
        ctx.prop, ctx.tier, n_ob, n_dis, n_unres, n_trust, len(viol), len(known_hit), time.time() - t0))
    return rc
