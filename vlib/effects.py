"""R5 — path-sensitive effect counting with loop summarisation (DESIGN §3 R5).

For one evaluated body it produces, per loop-free path skeleton, a symbolic (affine) count of the
designated effects (e.g. words written to `self.bulk`), the list of branch predicates taken, and the
returned term.  Loops that match the closed idiom `loop { match it.next() { None => break, Some(_) =>
body } }` are summarised as trip_count(it) x effects(body); anything else is reported unresolved.
"""
from . import sym


class Unresolved(Exception):
    pass


def rebuild(t, f):
    """Bottom-up map: f(node) may return a replacement (or None to keep); bin/not/len are re-normalised."""
    if not isinstance(t, tuple) or not t:
        return t
    h = t[0] if isinstance(t[0], str) else None
    if h in ('int', 'c', 'k', 'arg', 'fnitem'):
        r = f(t)
        return t if r is None else r
    if h == 'in':
        r = f(t)
        return t if r is None else r
    if h == 'bin':
        n = sym.mk_bin(t[1], rebuild(t[2], f), rebuild(t[3], f))
    elif h == 'un' and t[1] == 'Not':
        n = sym.mk_not(rebuild(t[2], f))
    elif h == 'len':
        n = sym.mk_len(rebuild(t[1], f))
    else:
        n = tuple(rebuild(x, f) if isinstance(x, tuple) else x for x in t)
    r = f(n)
    return n if r is None else r


def strip_uid(t):
    """Terms modulo call-site identities (for comparing predicates of two functions)."""
    def f(n):
        if n and n[0] == 'call' and n[3] is not None:
            return ('call', n[1], n[2], None)
        if n and n[0] in ('post', 'elems') and n[1] is not None:
            return (n[0], None) + n[2:]
        return None
    return rebuild(t, f)


def reroot(t, frm, to):
    """Rewrite access paths: prefix `frm` -> `to` (both tuples) inside ('in', path) / ('ref', path, ..)."""
    n = len(frm)

    def f(x):
        if x and x[0] == 'in' and x[1][:n] == frm:
            return ('in', to + x[1][n:])
        if x and x[0] == 'ref' and isinstance(x[1], tuple) and x[1][:n] == frm:
            return ('ref', to + x[1][n:]) + x[2:]
        if x and x[0] in ('post', 'loop') and isinstance(x[-1], tuple) and x[-1][:n] == frm:
            return x[:-1] + (to + x[-1][n:],)
        return None
    return rebuild(t, f)


CHUNK_SOURCES = set()      # def paths of iterator sources whose length is an opaque atom G(arg); registered by ./check

ITER_ADAPTERS = ('::rev', 'IntoIterator::into_iter', '::map', '::enumerate', '::iter', '::into_iter', '::by_ref', '::fuse', '::cloned', '::copied', '::peekable')


class IterModel:
    """Symbolic length of iterator terms."""

    def __init__(self, res, known_some=()):
        self.res = res
        self.calls = {}
        for e in res.events:
            if e['kind'] == 'call' and e.get('uid') is not None:
                self.calls[e['uid']] = e
        # predicate index modulo nothing (same path)
        self.preds = [(t, v) for t, v, _ in res.preds]
        self.known_some = set(known_some)   # stripped next(...) terms known to be Some from an aligned function

    def next_was_some(self, call_term):
        """Does the path (or the aligned assumption set) establish that this `next()` returned Some?"""
        for t, v in self.preds:
            if t[0] == 'discr' and t[1] == call_term:
                vn = sym.discr_variant(t, v)
                if vn == 'Some':
                    return True
                if vn == 'None':
                    return False
            if t[0] == 'is' and t[1] == 'Some' and t[2] == call_term:
                return bool(v == 1)
            # Eq/Ne(Some{..}, call)
            if t[0] == 'bin' and t[1] in ('Eq', 'Ne') and call_term in (t[2], t[3]):
                other = t[3] if t[2] == call_term else t[2]
                if other[0] == 'agg' and isinstance(other[1], tuple) and other[1][2] == 'Some':
                    truth = (v == 1) if t[1] == 'Eq' else (v == 0)
                    if truth:
                        return True
        if strip_uid(call_term) in self.known_some:
            return True
        return None

    def length(self, t):
        """Affine-able term for the number of items the iterator value `t` still yields."""
        if t[0] == 'call':
            name = t[1]
            if name in CHUNK_SOURCES:
                return ('G', t[2][0])
            if name.endswith('::step_by') or name.endswith('::filter') or name.endswith('::take') or name.endswith('::skip') or name.endswith('::zip') or name.endswith('::chain'):
                raise Unresolved('iterator adapter %s changes the length' % name)
            if any(name.endswith(sfx) for sfx in ITER_ADAPTERS) and t[2]:
                return self.length(t[2][0])
            if name.endswith('RangeInclusive::<Idx>::new') and len(t[2]) == 2:
                # a ..= b yields b - a + 1 items (for a <= b + 1; the callers only use it for counters that start at 0)
                return sym.mk_bin('Add', sym.mk_bin('Sub', t[2][1], t[2][0]), sym.mk_int(1))
            raise Unresolved('unknown iterator source ' + name)
        if t[0] == 'agg' and isinstance(t[1], tuple) and t[1][0] == 'adt' and t[1][1] in ('core::ops::Range', 'core::ops::range::Range'):
            a, b = t[2][0], t[2][1]

            def norm(x):
                # `0 .. it.len()`: the bound is itself an iterator length
                def f(n):
                    if n and n[0] == 'call' and n[1] in ('core::iter::ExactSizeIterator::len', 'core::iter::Iterator::count') and n[2]:
                        return self.length(n[2][0])
                    return None
                return rebuild(x, f)
            return sym.mk_bin('Sub', norm(b), norm(a))
        if t[0] == 'post':
            e = self.calls.get(t[1])
            if e is None:
                raise Unresolved('iterator state after unknown call')
            if e['callee'] != 'core::iter::Iterator::next':
                raise Unresolved('iterator mutated by ' + e['callee'])
            pre = e['args_val'][0] if 'args_val' in e else None
            if pre is None:
                raise Unresolved('no pre-state of iterator')
            n = self.length(pre)
            some = self.next_was_some(e['result'])
            if some is True:
                return sym.mk_bin('Sub', n, sym.mk_int(1))
            if some is False:
                return n
            return ('satdec', n)
        if t[0] == 'ref':
            raise Unresolved('iterator behind reference')
        raise Unresolved('unknown iterator term ' + sym.show(t)[:80])


class Summary:
    __slots__ = ('preds', 'count', 'ret', 'end', 'res', 'loops', 'notes', 'known_some')

    def __init__(self, preds, count, ret, end, res, loops, notes, known_some):
        self.preds = preds      # dict stripped-term-key -> (term, value)
        self.count = count      # affine (dict, const)
        self.ret = ret
        self.end = end
        self.res = res
        self.loops = loops
        self.notes = notes
        self.known_some = known_some


def affine_add(a, b, k=1):
    d = dict(a[0])
    for key, (c, at) in b[0].items():
        c0 = d.get(key, (0, at))[0]
        d[key] = (c0 + k * c, at)
    d = {key: v for key, v in d.items() if v[0] != 0}
    return (d, a[1] + k * b[1])


def affine_mul_term(count_term, per_iter):
    """count_term (a term) times per_iter (int)."""
    a = sym.affine(count_term)
    return ({k: (c * per_iter, at) for k, (c, at) in a[0].items() if c * per_iter}, a[1] * per_iter)


def summarise(ev, paths, effect, known_some=()):
    """effect(event) -> int weight | term weight | None.  Returns list of Summary for paths that leave the
    function (return / diverge); loop iterations are folded in.  Raises Unresolved."""
    loops = ev.loops
    # Effects performed by a closure that an iterator adaptor drives (`range.try_for_each(|_| sink.write(..))`) are not visible
    # as events of this body: rather than miscounting them, say so.
    F = ev.body.facts
    for r in paths:
        for e in r.events:
            if e['kind'] != 'call' or not str(e['callee']).startswith('core::iter::'):
                continue
            for a in e.get('args_val') or []:
                for x in sym.subterms(a) if isinstance(a, tuple) else []:
                    if isinstance(x, tuple) and x and x[0] == 'agg' and isinstance(x[1], tuple) and x[1][0] == 'closure':
                        cb = F.by_def.get(x[1][1])
                        if cb is None:
                            continue
                        from . import rules as _rules
                        _, cp = _rules.evaluate(cb)
                        if cp is None or any(ce['kind'] == 'call' and ce.get('mut_paths') for q in cp for ce in q.events) or any(ce['kind'] in ('write', 'write_ref') and ce.get('path', (0,))[0] == 1 for q in cp for ce in q.events):
                            raise Unresolved('effects happen inside a closure driven by %s; the effect counter reads loops only' % str(e['callee']).split('::')[-1])
    # per-iteration effects per loop head from back-edge paths
    per_iter = {}
    for r in paths:
        if r.end != 'backedge':
            continue
        head = r.end_block
        n = 0
        seen_enter = False
        extra_terms = []
        for e in r.events:
            if e['kind'] == 'loop_enter' and e['head'] == head:
                seen_enter = True
                n = 0
                continue
            if not seen_enter:
                continue
            if e['kind'] == 'loop_enter':
                raise Unresolved('nested loop in bb%d' % head)
            w = effect(e)
            if w is None:
                continue
            if not isinstance(w, int):
                raise Unresolved('symbolic effect inside a loop')
            n += w
        per_iter.setdefault(head, set()).add(n)
    out = []
    for r in paths:
        if r.end not in ('return', 'diverge'):
            continue
        im = IterModel(r, known_some)
        count = ({}, 0)
        notes = []
        cur_loop = None
        events = r.events
        i = 0
        entered = []
        while i < len(events):
            e = events[i]
            if e['kind'] == 'loop_enter':
                head = e['head']
                entered.append(head)
                # the controlling `next` call
                j = i + 1
                nxt = None
                while j < len(events):
                    f = events[j]
                    if f['kind'] == 'call' and f['callee'] == 'core::iter::Iterator::next' and f['block'] in loops[head]:
                        nxt = f
                        break
                    if f['kind'] in ('call', 'write') and f['block'] in loops[head]:
                        break
                    j += 1
                if nxt is None:
                    # counter-driven loop: `while i < N { ..; i += 1 }` - trip count N - i0
                    trip = _counter_trip(paths, head, e)
                    if trip is None:
                        raise Unresolved('loop at bb%d is not driven by Iterator::next at its head' % head)
                    iters = per_iter.get(head, {0})
                    if len(iters) != 1:
                        raise Unresolved('loop body at bb%d has paths with different effect counts %s' % (head, sorted(iters)))
                    kk = next(iter(iters))
                    is_lv = lambda x: isinstance(x, tuple) and x and x[0] == 'loop' and x[1] == head
                    exited = any(t[0] == 'bin' and not v and ((t[1] == 'Lt' and is_lv(t[2])) or (t[1] == 'Ne' and (is_lv(t[2]) or is_lv(t[3])))) for t, v, _ in r.preds)
                    if exited:
                        if kk:
                            count = affine_add(count, affine_mul_term(trip, kk))
                        notes.append('loop bb%d (counter): %s x %d' % (head, sym.show(trip), kk))
                    else:
                        notes.append('loop bb%d: early exit after an unknown number of iterations' % head)
                        count = affine_add(count, ({'partial@bb%d' % head: (1, ('c', 'partial@bb%d' % head))}, 0))
                    i += 1
                    continue
                a0 = nxt['args'][0]
                if a0[0] != 'ref':
                    raise Unresolved('loop iterator is not a local')
                pre = e['pre'].get(a0[1])
                if pre is None:
                    raise Unresolved('loop iterator has no pre-loop value')
                trip = im.length(pre)
                iters = per_iter.get(head, {0})
                if len(iters) != 1:
                    raise Unresolved('loop body at bb%d has paths with different effect counts %s' % (head, sorted(iters)))
                k = next(iter(iters))
                # did this path leave the loop through the None arm of the controlling next?
                exited_normally = im.next_was_some(nxt['result']) is False
                if exited_normally:
                    if k:
                        count = affine_add(count, affine_mul_term(trip, k))
                    notes.append('loop bb%d: %s x %d' % (head, sym.show(trip), k))
                else:
                    # early exit from inside the body (e.g. `?`): a partial count; mark it
                    notes.append('loop bb%d: early exit after an unknown number of iterations' % head)
                    count = affine_add(count, ({'partial@bb%d' % head: (1, ('c', 'partial@bb%d' % head))}, 0))
                i += 1
                continue
            w = effect(e)
            if w is not None:
                inloop = [h for h in entered if e['block'] in loops[h]]
                if inloop:
                    # effect in a loop block on a function-exit path: only legal for early exits (already marked partial)
                    pass
                if isinstance(w, int):
                    count = affine_add(count, ({}, w))
                else:
                    count = affine_add(count, sym.affine(w))
            i += 1
        preds = {}
        for t, v, _ in r.preds:
            st = strip_uid(t)
            preds[sym.tkey(st)] = (st, v)
        ks = set()
        for e in events:
            if e['kind'] == 'call' and e['callee'] == 'core::iter::Iterator::next':
                if im.next_was_some(e['result']) is True:
                    ks.add(strip_uid(e['result']))
        out.append(Summary(preds, count, r.ret, r.end, r, entered, notes, ks))
    return out


def _counter_trip(paths, head, enter_event):
    """Trip count of `while i < N { body; i += 1 }`: a local whose back-edge value is itself + 1 and which the loop guard
    compares (strictly) with a loop-invariant bound.  Returns the term N - i0 or None."""
    cands = None
    for r in paths:
        if r.end != 'backedge' or r.end_block != head:
            continue
        here = set()
        for k, v in r.store.items():
            lv = ('loop', head, k)
            if len(k) == 1 and v == sym.mk_bin('Add', lv, sym.mk_int(1)):
                inv = lambda b: not sym.contains(b, lambda x: isinstance(x, tuple) and x and x[0] == 'loop' and x[1] == head)
                for t, val, _ in r.preds:
                    if t[0] == 'bin' and t[1] == 'Lt' and t[2] == lv and val and inv(t[3]):
                        here.add((k, t[3]))
                    # `while i != N` counts up to N as well (from a start value of 0 it cannot step over an unsigned N)
                    if t[0] == 'bin' and t[1] == 'Ne' and lv in (t[2], t[3]) and val and enter_event['pre'].get(k) == sym.mk_int(0):
                        other = t[3] if t[2] == lv else t[2]
                        if inv(other):
                            here.add((k, other))
        cands = here if cands is None else (cands & here)
    if not cands or len(cands) != 1:
        return None
    k, bound = list(cands)[0]
    i0 = enter_event['pre'].get(k)
    if i0 is None:
        return None
    return sym.mk_bin('Sub', bound, i0)


def compatible(pa, pb):
    """No predicate (modulo call identities) decided differently on the two paths."""
    for k, (t, v) in pa.items():
        if k in pb:
            v2 = pb[k][1]
            if not _vals_compatible(v, v2):
                return False
        # negated forms
        nt = sym.mk_not(t) if t[0] in ('bin', 'un', 'is') else None
        if nt is not None:
            k2 = sym.tkey(nt)
            if k2 in pb:
                v2 = pb[k2][1]
                if v in (0, 1) and v2 in (0, 1) and v == v2:
                    return False
    return True


def _vals_compatible(v, v2):
    if v == v2:
        return True
    if isinstance(v, tuple) and v[0] == 'not':
        if isinstance(v2, tuple):
            return True
        return v2 not in v[1]
    if isinstance(v2, tuple) and v2[0] == 'not':
        return v not in v2[1]
    return False


def affine_eq(a, b):
    d = sym.affine_sub(a, b)
    return not d[0] and d[1] == 0
