"""Multivariate integer polynomials (tiny): used to evaluate a returned size formula over a symbolic state model."""


class Poly:
    def __init__(self, d=None):
        self.d = {k: v for k, v in (d or {}).items() if v != 0}

    @staticmethod
    def const(c):
        return Poly({(): c})

    @staticmethod
    def var(name):
        return Poly({((name, 1),): 1})

    def __add__(self, o):
        d = dict(self.d)
        for k, v in o.d.items():
            d[k] = d.get(k, 0) + v
        return Poly(d)

    def __neg__(self):
        return Poly({k: -v for k, v in self.d.items()})

    def __sub__(self, o):
        return self + (-o)

    def __mul__(self, o):
        d = {}
        for k1, v1 in self.d.items():
            for k2, v2 in o.d.items():
                m = dict(k1)
                for n, p in k2:
                    m[n] = m.get(n, 0) + p
                k = tuple(sorted(m.items()))
                d[k] = d.get(k, 0) + v1 * v2
        return Poly(d)

    def subst(self, name, q):
        """replace variable `name` by polynomial q."""
        out = Poly()
        for k, v in self.d.items():
            term = Poly.const(v)
            for n, p in k:
                base = q if n == name else Poly.var(n)
                for _ in range(p):
                    term = term * base
            out = out + term
        return out

    def is_zero(self):
        return not self.d

    def nonneg(self):
        """sufficient: every coefficient >= 0 (all variables range over non-negative integers)."""
        return all(v >= 0 for v in self.d.values())

    def __eq__(self, o):
        return isinstance(o, Poly) and self.d == o.d

    def __hash__(self):
        return hash(tuple(sorted(self.d.items())))

    def __str__(self):
        if not self.d:
            return '0'
        out = []
        for k, v in sorted(self.d.items()):
            mono = '*'.join(n if p == 1 else '%s^%d' % (n, p) for n, p in k)
            if not mono:
                out.append(str(v))
            elif v == 1:
                out.append(mono)
            elif v == -1:
                out.append('-' + mono)
            else:
                out.append('%d*%s' % (v, mono))
        return ' + '.join(out).replace('+ -', '- ')
