"""Runs the fact extractor over /repo's *current working tree* and caches the result by content hash.

The cache key covers every input of the build (src/**, Cargo.toml, Cargo.lock, the driver
binary, the configuration).  A hit therefore is exactly what a fresh extraction would write.
Cargo's own freshness cache is defeated by deleting the crate's fingerprints before each run and
by asserting that the driver really wrote a new fact file.
"""
import fcntl
import glob
import hashlib
import os
import shutil
import subprocess
import sys
import time

VERIF = os.path.dirname(os.path.dirname(os.path.abspath(__file__)))
REPO = os.environ.get('VERIF_REPO', '/repo')
CACHE = os.path.join(VERIF, '.cache')
DRIVER_DIR = os.path.join(VERIF, 'driver')
DRIVER_BIN = os.path.join(CACHE, 'driver-target', 'release', 'cfacts')

CONFIGS = {
    'default': [],
    'pybindings': ['--features', 'pybindings'],
    'nostd': ['--no-default-features'],
}


def _sysroot():
    return subprocess.check_output(['rustc', '+nightly', '--print', 'sysroot'], text=True).strip()


def build_driver(force=False):
    env = dict(os.environ)
    env['CARGO_TARGET_DIR'] = os.path.join(CACHE, 'driver-target')
    env['CARGO_NET_OFFLINE'] = 'true'
    src_m = max(os.path.getmtime(p) for p in glob.glob(os.path.join(DRIVER_DIR, 'src', '*.rs')) + [os.path.join(DRIVER_DIR, 'Cargo.toml')])
    if not force and os.path.exists(DRIVER_BIN) and os.path.getmtime(DRIVER_BIN) >= src_m:
        return DRIVER_BIN
    os.makedirs(CACHE, exist_ok=True)
    with open(os.path.join(CACHE, 'driver.lock'), 'w') as lk:
        fcntl.flock(lk, fcntl.LOCK_EX)
        if not force and os.path.exists(DRIVER_BIN) and os.path.getmtime(DRIVER_BIN) >= src_m:
            return DRIVER_BIN
        r = subprocess.run(['cargo', '+nightly', 'build', '--release', '--offline'], cwd=DRIVER_DIR, env=env,
                           stdout=subprocess.PIPE, stderr=subprocess.STDOUT, text=True)
        if r.returncode != 0:
            sys.stderr.write(r.stdout)
            raise RuntimeError('driver build failed')
    return DRIVER_BIN


def source_files(repo=None):
    repo = repo or REPO
    files = []
    for root, dirs, fs in os.walk(os.path.join(repo, 'src')):
        dirs.sort()
        for f in sorted(fs):
            files.append(os.path.join(root, f))
    for f in ('Cargo.toml', 'Cargo.lock', 'build.rs'):
        p = os.path.join(repo, f)
        if os.path.exists(p):
            files.append(p)
    return files


def source_hash(repo=None, extra=''):
    h = hashlib.sha256()
    repo = repo or REPO
    for p in source_files(repo):
        h.update(os.path.relpath(p, repo).encode())
        h.update(b'\0')
        with open(p, 'rb') as f:
            h.update(f.read())
        h.update(b'\0')
    with open(DRIVER_BIN, 'rb') as f:
        h.update(hashlib.sha256(f.read()).digest())
    h.update(extra.encode())
    return h.hexdigest()[:24]


def extract(config='default', repo=None, verbose=False):
    """Returns (path to fact file, info dict)."""
    repo = repo or REPO
    build_driver()
    key = source_hash(repo, config)
    outdir = os.path.join(CACHE, 'facts', key)
    final = os.path.join(outdir, config + '.json')
    info = {'config': config, 'source_hash': key, 'cached': True, 'repo': repo}
    if os.path.exists(final):
        return final, info
    os.makedirs(outdir, exist_ok=True)
    lockp = os.path.join(CACHE, 'extract-%s.lock' % config)
    with open(lockp, 'w') as lk:
        fcntl.flock(lk, fcntl.LOCK_EX)
        if os.path.exists(final):
            return final, info
        t0 = time.time()
        target = os.path.join(CACHE, 'target-' + config)
        # defeat cargo's freshness cache for the analysed crate only
        for fp in glob.glob(os.path.join(target, 'debug', '.fingerprint', 'constriction-*')):
            shutil.rmtree(fp, ignore_errors=True)
        tmpout = os.path.join(outdir, 'tmp-%s-%d' % (config, os.getpid()))
        shutil.rmtree(tmpout, ignore_errors=True)
        os.makedirs(tmpout)
        env = dict(os.environ)
        env.update({
            'LD_LIBRARY_PATH': _sysroot() + '/lib',
            'RUSTFLAGS': '-Zmir-opt-level=0 -Awarnings',
            'RUSTC_WORKSPACE_WRAPPER': DRIVER_BIN,
            'CARGO_TARGET_DIR': target,
            'CFACTS_OUT': tmpout,
            'CFACTS_CRATES': 'constriction',
            'CARGO_NET_OFFLINE': 'true',
        })
        cmd = ['cargo', '+nightly', 'check', '--offline', '--lib'] + CONFIGS[config]
        r = subprocess.run(cmd, cwd=repo, env=env, stdout=subprocess.PIPE, stderr=subprocess.STDOUT, text=True)
        if verbose:
            sys.stderr.write(r.stdout)
        outs = glob.glob(os.path.join(tmpout, 'constriction-*.json'))
        if r.returncode != 0 or len(outs) != 1:
            shutil.rmtree(tmpout, ignore_errors=True)
            msg = 'fact extraction failed for config %s (exit %d, %d fact files)\n%s' % (config, r.returncode, len(outs), r.stdout[-4000:])
            raise RuntimeError(msg)
        os.replace(outs[0], final)
        shutil.rmtree(tmpout, ignore_errors=True)
        info['cached'] = False
        info['extract_s'] = round(time.time() - t0, 2)
    _prune_cache(keep=key)
    return final, info


def _prune_cache(keep, max_entries=12):
    base = os.path.join(CACHE, 'facts')
    try:
        ents = [(os.path.getmtime(os.path.join(base, e)), e) for e in os.listdir(base) if e != keep]
    except OSError:
        return
    ents.sort()
    while len(ents) > max_entries:
        _, e = ents.pop(0)
        shutil.rmtree(os.path.join(base, e), ignore_errors=True)


if __name__ == '__main__':
    cfg = sys.argv[1] if len(sys.argv) > 1 else 'default'
    p, info = extract(cfg, verbose=True)
    print(p, info)
