"""Power-of-two polynomials over symbolic bit widths (rule family R10, threshold agreement).

A value is normalised to  sum_j c_j * 2^(E_j)  where every exponent E_j is an affine form over the crate's symbolic width
constants (`<State as BitArray>::BITS`, `PRECISION`, ...).  Thresholds that sibling functions state in different syntactic
forms (`x >> k == 0`, `x < 1 << k`, `x.leading_zeros() >= BITS - k`, `max_value() >> w`) then compare by plain coefficient
arithmetic.  Everything outside the recognised shapes yields None, and the calling rule reports the instance as unresolved.

Assumption (listed by the callers): the shifts and additions that build a *threshold constant* do not overflow the type;
they are compile-time functions of the widths, not of run-time data.
"""
from fractions import Fraction

from . import sym

ZERO_EXP = ()


def _exp_key(aff):
    """affine exponent (dict, const) -> hashable key."""
    d, c = aff
    return (tuple(sorted((k, v[0]) for k, v in d.items())), c)


def _exp_add(a, b, sign=1):
    d = dict(a[0])
    for k, (c, at) in b[0].items():
        c0 = d.get(k, (0, at))[0]
        d[k] = (c0 + sign * c, at)
    d = {k: v for k, v in d.items() if v[0] != 0}
    return (d, a[1] + sign * b[1])


E0 = ({}, 0)


def width_exp(t):
    """affine form of a term that denotes a number of bits, or None."""
    a = sym.affine(t)
    if a is None:
        return None
    for k, (c, at) in a[0].items():
        if not (isinstance(at, tuple) and at and at[0] in ('c', 'cparam', 'arg', 'k')):
            # only symbolic constants may appear in an exponent
            if not (at[0] == 'cast' and isinstance(at[2], tuple) and at[2][0] in ('c', 'cparam')):
                return None
    return a


def bits_of(ty):
    return ({sym.tkey(('c', '<%s as BitArray>::BITS' % ty)): (1, ('c', '<%s as BitArray>::BITS' % ty))}, 0)


class P2:
    """sum of c * 2^E."""

    def __init__(self, terms=None):
        self.t = {}   # exp key -> (coef, exp affine)
        for e, c in (terms or []):
            self.add(e, c)

    def add(self, e, c):
        # 2^(E + n) = 2^n * 2^E : constants in the exponent move into the (rational) coefficient
        if e[1] != 0:
            c = c * (Fraction(2) ** e[1])
            e = (e[0], 0)
        k = _exp_key(e)
        c0 = self.t.get(k, (0, e))[0]
        if c0 + c == 0:
            self.t.pop(k, None)
        else:
            self.t[k] = (c0 + c, e)

    def plus(self, o, sign=1):
        r = P2()
        for k, (c, e) in self.t.items():
            r.add(e, c)
        for k, (c, e) in o.t.items():
            r.add(e, sign * c)
        return r

    def shifted(self, e, sign=1):
        r = P2()
        for k, (c, ex) in self.t.items():
            r.add(_exp_add(ex, e, sign), c)
        return r

    def monomial(self):
        """(coef, exp) if a single term."""
        if len(self.t) == 1:
            (c, e), = self.t.values()
            c = Fraction(c)
            # fold a power-of-two coefficient back into the exponent
            n = 0
            while c > 1 and c.denominator == 1 and c.numerator % 2 == 0:
                c /= 2; n += 1
            while c < 1 and c.numerator == 1 and c.denominator % 2 == 0:
                c *= 2; n -= 1
            return c, (e[0], e[1] + n)
        return None

    def sign(self, exps_nonneg=False):
        """'zero' | 'pos' | 'neg' | 'nonneg', decided from coefficient signs (2^E > 0); None if mixed.
        With exps_nonneg the symbolic exponents are assumed >= 0 (so 2^E >= 1), which also decides  c*2^E + c0."""
        if not self.t:
            return 'zero'
        cs = [c for c, e in self.t.values()]
        if all(c > 0 for c in cs):
            return 'pos'
        if all(c < 0 for c in cs):
            return 'neg'
        if exps_nonneg:
            k0 = _exp_key(E0)
            c0 = self.t.get(k0, (0, E0))[0]
            rest = [c for k, (c, e) in self.t.items() if k != k0]
            if rest and all(c > 0 for c in rest) and sum(rest) + c0 >= 0:
                return 'nonneg'
            if rest and all(c < 0 for c in rest) and sum(rest) + c0 < 0:
                return 'neg'
        return None

    def show(self):
        if not self.t:
            return '0'
        out = []
        for k, (c, e) in sorted(self.t.items()):
            es = sym.affine_str(e)
            if not e[0] and e[1] == 0:
                out.append(str(c))
            else:
                out.append(('%s*' % c if c != 1 else '') + '2^(%s)' % es)
        return ' + '.join(out)


def all_ones(P):
    """E if P == 2^E - 1, else None."""
    if len(P.t) != 2:
        return None
    k0 = _exp_key(E0)
    if k0 not in P.t or P.t[k0][0] != -1:
        return None
    rest = P2()
    for k, (c, e) in P.t.items():
        if k != k0:
            rest.add(e, c)
    m = rest.monomial()
    if m is not None and m[0] == 1:
        return m[1]
    return None


def p2(t):
    """term -> P2 or None."""
    if sym.is_int(t):
        return P2([(E0, t[1])])
    if not isinstance(t, tuple) or not t:
        return None
    if t[0] == 'k':
        if t[1] == 'one':
            return P2([(E0, 1)])
        if t[1] == 'zero':
            return P2()
        if t[1] == 'max_value':
            return P2([(bits_of(t[2]), 1), (E0, -1)])
        return None
    if t[0] == 'cast':
        return p2(t[2]) if sym.is_int(t[2]) or (isinstance(t[2], tuple) and t[2][0] == 'k') else None
    if t[0] == 'bin':
        op = t[1].split('.')[0]
        if op in ('Add', 'Sub'):
            a, b = p2(t[2]), p2(t[3])
            if a is None or b is None:
                return None
            return a.plus(b, 1 if op == 'Add' else -1)
        if op == 'Shl':
            a = p2(t[2])
            e = width_exp(t[3])
            if a is None or e is None:
                return None
            return a.shifted(e)
        if op == 'Shr':
            a = p2(t[2])
            e = width_exp(t[3])
            if a is None or e is None:
                return None
            # exact only for 2^E and 2^E - 1 (all-ones): (2^E - 1) >> e == 2^(E-e) - 1
            m = a.monomial()
            if m is not None and m[0] == 1:
                return a.shifted(e, -1)
            ao = all_ones(a)
            if ao is not None:
                return P2([(_exp_add(ao, e, -1), 1), (E0, -1)])
            return None
        if op == 'Mul':
            for x, y in ((t[2], t[3]), (t[3], t[2])):
                if sym.is_int(x):
                    a = p2(y)
                    if a is None:
                        return None
                    r = P2()
                    for k, (c, e) in a.t.items():
                        r.add(e, c * x[1])
                    return r
    return None


def _is_zero(t):
    return (sym.is_int(t) and t[1] == 0) or (isinstance(t, tuple) and t and t[0] == 'k' and t[1] == 'zero')


def _lz(t):
    """x if t is leading_zeros(x) (possibly widened by casts)."""
    while isinstance(t, tuple) and t and t[0] == 'cast':
        t = t[2]
    if isinstance(t, tuple) and t and t[0] == 'call' and isinstance(t[1], str) and t[1].endswith('leading_zeros'):
        return t[2][0] if t[2] else None
    return None


def below_pow2(pred, value, bits_for=None):
    """Canonical form of a branch outcome: returns (x, E, holds) meaning  `x < 2^E` is `holds`  on this outcome, or None.

    Recognised: Eq/Ne(Shr(x,e),0) ; Lt/Le/Gt/Ge(x, P) with P = 2^E or 2^E - 1 ; comparisons of leading_zeros(x) with a width.
    `bits_for(x)` gives the affine BITS of x's type (needed only for the leading_zeros forms)."""
    if not (isinstance(pred, tuple) and pred and pred[0] == 'bin'):
        if isinstance(pred, tuple) and pred and pred[0] == 'not':
            return below_pow2(pred[1], not value, bits_for)
        return None
    op = pred[1].split('.')[0]
    a, b = pred[2], pred[3]
    v = bool(value)
    if op in ('Eq', 'Ne'):
        for x, z in ((a, b), (b, a)):
            if _is_zero(z) and isinstance(x, tuple) and x[0] == 'bin' and x[1].split('.')[0] == 'Shr':
                e = width_exp(x[3])
                if e is None:
                    return None
                return (x[2], e, v if op == 'Eq' else not v)
        return None
    if op in ('Lt', 'Le', 'Gt', 'Ge'):
        # normalise to  l OP r  with OP in Lt/Le
        if op in ('Gt', 'Ge'):
            a, b = b, a
            op = {'Gt': 'Lt', 'Ge': 'Le'}[op]
        # leading zeros on the right:  e < lz(x)  /  e <= lz(x)
        lx = _lz(b)
        if lx is not None and bits_for is not None:
            e = width_exp(a)
            B = bits_for(lx)
            if e is None or B is None:
                return None
            # lz(x) >= e  <=>  x < 2^(B-e) ;  lz(x) > e <=> x < 2^(B-e-1)
            E = _exp_add(B, e, -1)
            if op == 'Lt':
                E = _exp_add(E, ({}, 1), -1)
            return (lx, E, v)
        lx = _lz(a)
        if lx is not None and bits_for is not None:
            e = width_exp(b)
            B = bits_for(lx)
            if e is None or B is None:
                return None
            # lz(x) < e <=> not (x < 2^(B-e)) ; lz(x) <= e <=> not (x < 2^(B-e-1))
            E = _exp_add(B, e, -1)
            if op == 'Le':
                E = _exp_add(E, ({}, 1), -1)
            return (lx, E, not v)
        # x < P  /  x <= P
        P = p2(b)
        if P is not None and p2(a) is None:
            m = P.monomial()
            if op == 'Lt' and m is not None and m[0] == 1:
                return (a, m[1], v)
            if op == 'Le' and all_ones(P) is not None:
                return (a, all_ones(P), v)
            return None
        # P <= x  /  P < x
        P = p2(a)
        if P is not None and p2(b) is None:
            m = P.monomial()
            if op == 'Le' and m is not None and m[0] == 1:
                return (b, m[1], not v)
            return None
    return None


def exp_cmp(a, b):
    """sign of a-b for affine exponents if it is a constant, else None."""
    d = _exp_add(a, b, -1)
    if d[0]:
        return None
    return d[1]
